package rules

import (
	"fmt"
	"go/ast"
	"go/token"
	"go/types"
	"strings"

	"cachelint/pw"
)

func init() { register("C15", checkC15) }

func indexPolicy() pw.Policy {
	return pw.Policy{Inline: func(fn *types.Func, d int) bool {
		return sameRecvNamed(fn, "InvalidationIndex") || inlineUnexported(fn, d)
	}, MaxDepth: 4,
		Pure: func(fn *types.Func) bool { return pw.FuncName(fn) == "errors.Is" }}
}

func checkC15(c *Ctx) {
	r := c.R
	r.Explanation = "Behaviour of user deleters is not decided. Decided statically on all paths of the InvalidationIndex methods (helpers inlined; " +
		"loops analysed per iteration): (R15.1) the index — labeledKeysByName, the per-name maps reached from it (also through the local " +
		"snapshot) and deleters — is read, iterated and written only with mu held, and key lists handed out of the critical section are " +
		"detached first (cutKeys deletes what it returns and never re-installs a slice sharing their storage; a repeated label does not " +
		"overwrite what was already cut); (R15.2) no loop shrinks or re-slices the slice it ranges over while indexing it with the range " +
		"index; (R15.3) a key is marked deleted only after every deleter of its cache name accepted it (the mark is outside the deleters " +
		"loop and absent on the error exit), a label's cut list is dropped only after its keys were processed, and the put-back of " +
		"unprocessed keys is deferred (runs on every exit) and appends under mu; (R15.4) every Delete argument is a key of a requested " +
		"label's cut list and the count is incremented exactly on the err==nil edge of a Delete; (R15.5) a deleter error other than " +
		"ErrNotFound is returned to the caller."
	r.Rule("R15.1", "index accessed only under mu; cut lists are detached; repeated labels keep what was cut", 4)
	r.Rule("R15.2", "no shrink of the ranged slice inside its own range loop", 1)
	r.Rule("R15.3", "mark-after-success, drop-after-processed, deferred put-back under mu", 1)
	r.Rule("R15.4", "precision and count: Delete(key of a requested label's list); cnt++ exactly on success", 1)
	r.Rule("R15.5", "deleter errors other than ErrNotFound are returned", 1)
	r.Rule("R15.6", "labelling and snapshot: AddLabels appends string(key) to every given label's list of the named cache (installing the per-name map when missing); InvalidateByLabels hands every name's index and deleters to the per-name invalidation and sums the counts", 3)
	r.NotDecided = []string{"behaviour of user deleters", "interleavings of concurrent invalidations beyond lock coverage"}
	c.c15Guarded()
	c.c15RangeShrink()
	c.c15Protocol()
	c.c15Labelling()
	c.c15AddCache()
	c.c15DefaultDeleter()
	c.c15WhoRemovesLabels()
	c.c15RecoveredDelete()
	// the count sums the deleters' nil results: it equals the entries removed only if the in-module Delete reports nil exactly once
	// per removed entry — presence check and removal in one critical section (two concurrent invalidations sharing a key must not
	// both count it), nil only with evidence of presence
	c.borrow("C08", func() {
		for _, b := range backends {
			c.c08Backend(b)
		}
	}, func(o *coreObl) (string, bool) {
		return "R15.4", o.Rule == "R08.2" && strings.HasSuffix(o.Construct, ".Delete")
	})
	c.borrow("C07", func() {
		for _, b := range backends {
			c.c07Delete(b)
		}
	}, func(o *coreObl) (string, bool) { return "R15.4", o.Rule == "R07.3" })
}

// indexDerived reports whether v is (part of) the shared index on this path.
func indexDerived(p *pw.Path, v *pw.Val, depth int) bool {
	if v == nil || depth > 6 {
		return false
	}
	switch v.Kind {
	case pw.KField:
		if v.Field != nil && (fname(v.Field) == "labeledKeysByName" || fname(v.Field) == "deleters") {
			return true
		}
	case pw.KMapVal:
		if v.Ev != nil {
			return mapDerived(p, v.Ev.Recv, depth+1)
		}
	case pw.KRangeVal, pw.KRangeKey:
		if v.Kind == pw.KRangeVal {
			return mapDerived(p, v.Src, depth+1)
		}
	}
	return false
}

// mapDerived: the map m is the index, an inner map of it, or a local map into which index-derived values were put.
func mapDerived(p *pw.Path, m *pw.Val, depth int) bool {
	if m == nil || depth > 6 {
		return false
	}
	if indexDerived(p, m, depth) {
		return true
	}
	if m.Kind == pw.KAlloc {
		for _, ev := range p.Events {
			if ev.Kind == pw.EvMapInsert && ev.Recv == m && indexDerived(p, ev.Value, depth+1) {
				return true
			}
		}
	}
	return false
}

func (c *Ctx) c15Guarded() {
	r := c.R
	muPath := func(e *pw.Engine) string {
		for obj, v := range e.Params {
			if namedTypeName(obj.Type()) == "InvalidationIndex" {
				return fmt.Sprintf("$%d.%s", v.ID, actualField("InvalidationIndex", "mu"))
			}
		}
		return ""
	}
	for _, m := range []string{"AddCache", "AddLabels", "AddInvalidationLabels", "InvalidateByLabels"} {
		name := "InvalidationIndex." + m
		e, paths, _, err := c.runFunc(name, indexPolicy())
		if err != nil {
			r.Unknown("R15.1", name, err.Error())
			continue
		}
		mu := muPath(e)
		n := 0
		bad := false
		for _, p := range paths {
			check := func(evs []*pw.Event) {
				ls := Locksets(evs, nil)
				for i, ev := range evs {
					switch ev.Kind {
					case pw.EvMapLookup, pw.EvMapInsert, pw.EvMapDelete, pw.EvMapIter, pw.EvMapLen:
						if !indexDerived(p, ev.Recv, 0) && !(ev.Recv != nil && ev.Recv.Kind == pw.KField && ev.Recv.Field != nil && (fname(ev.Recv.Field) == "labeledKeysByName" || fname(ev.Recv.Field) == "deleters")) {
							continue
						}
						n++
						if !ls[i].Has(mu, false) {
							bad = true
							r.Bad("R15.1", name, "index-access-unlocked:"+ev.Kind.String(), c.Pos(ev.Pos), fmt.Sprintf("%s on the shared label index without holding mu", ev.Kind), append(shortTrace(p), p.Summary(c.Pkg.Fset)...))
						}
					case pw.EvAssign:
						// append to a key list of the index: the assignment target is a map element (handled as MapInsert)
					}
				}
				// balance
				if k := len(evs); k > 0 {
					final := ls[k-1].clone()
					if last := evs[k-1]; last.Kind == pw.EvLock && last.Path == mu {
						if last.Op == "Unlock" {
							final[mu]--
						} else {
							final[mu]++
						}
					}
					if final.Has(mu, false) {
						bad = true
						r.Bad("R15.1", name, "mu-leak", c.Pos(p.RetPos), "path exits with mu held", shortTrace(p))
					}
				}
			}
			check(p.Events)
		}
		r.Count("index_accesses:"+name, n)
		if n == 0 && m != "AddInvalidationLabels" {
			r.Unknown("R15.1", name, "no index access found")
		} else if !bad {
			r.OK("R15.1", name, fmt.Sprintf("%d index accesses on %d paths, all under mu", n, len(paths)))
		}
	}
	// detachment in cutKeys
	name := "InvalidationIndex.cutKeys"
	_, paths, _, err := c.runFunc(name, indexPolicy())
	if err != nil {
		r.Unknown("R15.1", name, err.Error())
		return
	}
	nCut := 0
	bad := false
	for _, p := range paths {
		for _, g := range iterations(p) {
			if !g.inner {
				continue
			}
			var look, guard *pw.Event
			var put *pw.Event
			for _, ev := range g.events {
				switch ev.Kind {
				case pw.EvMapLookup:
					if ev.Recv != nil && ev.Recv.Kind == pw.KParam {
						look = ev
					} else if ev.Recv != nil && ev.Recv.Kind == pw.KAlloc && len(ev.Results) == 2 {
						guard = ev
					}
				case pw.EvMapInsert:
					if ev.Recv != nil && ev.Recv.Kind == pw.KAlloc {
						put = ev
					}
				}
			}
			if put == nil {
				continue
			}
			nCut++
			if look == nil || put.Value != look.Results[0] || put.Key != look.Key {
				bad = true
				r.Bad("R15.1", name, "cut-source", c.Pos(put.Pos), "the list returned for a label is not the index's list for that label", shortTrace(p))
				continue
			}
			deleted := false
			for _, ev := range g.events {
				if ev.Kind == pw.EvMapDelete && ev.Recv == look.Recv && ev.Key == look.Key {
					deleted = true
				}
				if ev.Kind == pw.EvMapInsert && ev.Recv == look.Recv && ev.Key == look.Key {
					shares := false
					for x := ev.Value; x != nil; x = x.Src {
						if x == look.Results[0] {
							shares = true
						}
						if x.Kind != pw.KSlice && x.Kind != pw.KAppend {
							break
						}
					}
					if !shares {
						deleted = true // replaced by an unrelated (empty/new) list: detached as well
					}
				}
				if ev.Kind == pw.EvMapInsert && ev.Recv == look.Recv {
					for x := ev.Value; x != nil; x = x.Src {
						if x == look.Results[0] {
							bad = true
							r.Bad("R15.1", name, "cut-list-shared", c.Pos(ev.Pos), "the index keeps a slice that shares storage with the list handed out of the critical section: a concurrent AddLabels overwrites keys that are still to be deleted", shortTrace(p))
						}
						if x.Kind != pw.KSlice && x.Kind != pw.KAppend {
							break
						}
					}
				}
			}
			if !deleted {
				bad = true
				r.Bad("R15.1", name, "cut-not-detached", c.Pos(put.Pos), "the list handed out is not removed from the index in the same critical section", shortTrace(p))
			}
			// a repeated label must not overwrite what was cut before
			okGuard := false
			if guard != nil && guard.Key == look.Key {
				if t, known := p.Truth(guard.Results[1]); known && !t {
					okGuard = true
				}
			}
			if !okGuard {
				bad = true
				r.Bad("R15.1", name, "repeated-label-overwrites", c.Pos(put.Pos), "the result for a label is assigned without checking that the label was not cut already: passing a label twice replaces its keys by an empty list (keys neither deleted nor indexed)", shortTrace(p))
			}
		}
	}
	if nCut == 0 {
		r.Unknown("R15.1", name, "no cut found")
	} else if !bad {
		r.OK("R15.1", name, fmt.Sprintf("%d cutting iterations: list detached, no shared storage, repeated labels guarded", nCut))
	}
}

// c15RangeShrink: lint over the whole package.
func (c *Ctx) c15RangeShrink() {
	r := c.R
	info := c.Pkg.TypesInfo
	n := 0
	bad := false
	c.eachFuncDecl(func(fd *ast.FuncDecl, fn *types.Func) {
		name := strings.TrimPrefix(pw.FuncName(fn), "cache.")
		ast.Inspect(fd.Body, func(x ast.Node) bool {
			rs, ok := x.(*ast.RangeStmt)
			if !ok {
				return true
			}
			id, ok := ast.Unparen(rs.X).(*ast.Ident)
			if !ok {
				return true
			}
			if _, isSlice := info.TypeOf(rs.X).Underlying().(*types.Slice); !isSlice {
				return true
			}
			n++
			obj := info.Uses[id]
			ast.Inspect(rs.Body, func(y ast.Node) bool {
				as, ok := y.(*ast.AssignStmt)
				if !ok {
					return true
				}
				for i, l := range as.Lhs {
					lid, ok := ast.Unparen(l).(*ast.Ident)
					if !ok || info.Uses[lid] != obj || as.Tok != token.ASSIGN || i >= len(as.Rhs) {
						continue
					}
					if _, isSliceExpr := ast.Unparen(as.Rhs[i]).(*ast.SliceExpr); isSliceExpr {
						bad = true
						r.Bad("R15.2", name, "range-shrink", c.Pos(as.Pos()), "the slice being ranged over is re-sliced inside the loop: the range still runs to the original length (index out of range) and swapped-in elements are skipped", nil)
					}
				}
				return true
			})
			return true
		})
	})
	r.Count("slice_range_loops", n)
	if !bad {
		r.OK("R15.2", "package", fmt.Sprintf("%d range loops over slice variables, none re-slices its operand", n))
	}
}

// c15WhoRemovesLabels: labels leave the index only through invalidation (cutKeys) — nothing else deletes from or replaces the
// per-name maps or their lists (a flush of one cache must not forget labels that other caches registered under the same name rely on).
// c15RecoveredDelete: a function that calls a Deleter and recovers from its panic must report the panic: the recovering closure
// assigns a named error result of the function (or panics again). With an unnamed result the assignment is lost, the wrapper returns
// nil, and a deleter that panicked counts as a deleter that deleted — the key is dropped from the index while it is still cached.
func (c *Ctx) c15RecoveredDelete() {
	r := c.R
	info := c.Pkg.TypesInfo
	n := 0
	c.eachFuncDecl(func(fd *ast.FuncDecl, fn *types.Func) {
		callsDelete := false
		ast.Inspect(fd.Body, func(x ast.Node) bool {
			if call, ok := x.(*ast.CallExpr); ok {
				if sel, ok := ast.Unparen(call.Fun).(*ast.SelectorExpr); ok && sel.Sel.Name == "Delete" {
					if t := info.TypeOf(sel.X); t != nil && namedTypeName(t) == "Deleter" {
						callsDelete = true
					}
				}
			}
			return true
		})
		if !callsDelete {
			return
		}
		named := map[types.Object]bool{}
		if fd.Type.Results != nil {
			for _, f := range fd.Type.Results.List {
				for _, nm := range f.Names {
					if obj := info.Defs[nm]; obj != nil && types.TypeString(obj.Type(), nil) == "error" {
						named[obj] = true
					}
				}
			}
		}
		ast.Inspect(fd.Body, func(x ast.Node) bool {
			ds, ok := x.(*ast.DeferStmt)
			if !ok {
				return true
			}
			lit, ok := ast.Unparen(ds.Call.Fun).(*ast.FuncLit)
			if !ok {
				return true
			}
			recovers, repanics, reports := false, false, false
			ast.Inspect(lit.Body, func(y ast.Node) bool {
				switch y := y.(type) {
				case *ast.CallExpr:
					if id, ok := ast.Unparen(y.Fun).(*ast.Ident); ok {
						if b, isB := info.Uses[id].(*types.Builtin); isB {
							switch b.Name() {
							case "recover":
								recovers = true
							case "panic":
								repanics = true
							}
						}
					}
				case *ast.AssignStmt:
					for _, l := range y.Lhs {
						if id, ok := ast.Unparen(l).(*ast.Ident); ok && named[info.Uses[id]] {
							reports = true
						}
					}
				}
				return true
			})
			if recovers {
				n++
				if !repanics && !reports {
					r.Bad("R15.5", c.fnNameOf(fd), "recovered-panic-reported-as-success", c.Pos(ds.Pos()), "a function that calls a Deleter recovers from its panic without assigning a named error result (or panicking again): the call returns nil and the key counts as deleted", nil)
				}
			}
			return true
		})
	})
	r.Count("recovering_delete_wrappers", n)
}

func (c *Ctx) c15WhoRemovesLabels() {
	r := c.R
	info := c.Pkg.TypesInfo
	isIndex := func(e ast.Expr, depth int) bool {
		// i.labeledKeysByName, i.labeledKeysByName[x]
		for d := 0; d <= depth; d++ {
			switch x := ast.Unparen(e).(type) {
			case *ast.SelectorExpr:
				if s := info.Selections[x]; s != nil && s.Kind() == types.FieldVal && selFieldName(s) == "labeledKeysByName" {
					return true
				}
				return false
			case *ast.IndexExpr:
				e = x.X
			default:
				return false
			}
		}
		return false
	}
	n, bad := 0, false
	c.eachFuncDecl(func(fd *ast.FuncDecl, fn *types.Func) {
		name := strings.TrimPrefix(pw.FuncName(fn), "cache.")
		if c.isNewAPI(fn) {
			return // an entry point that is not part of the reference API (e.g. an explicit RemoveCache): what it does when called is its own specification
		}
		ast.Inspect(fd.Body, func(x ast.Node) bool {
			call, ok := x.(*ast.CallExpr)
			if !ok {
				return true
			}
			id, ok := call.Fun.(*ast.Ident)
			if !ok || len(call.Args) != 2 {
				return true
			}
			if _, isB := info.Uses[id].(*types.Builtin); !isB || id.Name != "delete" {
				return true
			}
			if !isIndex(call.Args[0], 1) {
				return true
			}
			n++
			// inside the invalidation itself (InvalidateByLabels or helpers reachable only from it) cutting labels is the point
			if roots := c.exportedRootsOf(fn); name == "InvalidationIndex.InvalidateByLabels" || !fn.Exported() && len(roots) == 1 && roots[0] == "InvalidationIndex.InvalidateByLabels" {
				return true
			}
			bad = true
			r.Bad("R15.1", name, "labels-dropped-outside-invalidation", c.Pos(call.Pos()), "labels are deleted from the index outside the cut of an invalidation: keys registered under them (also by other caches of that name) are never invalidated", nil)
			return true
		})
	})
	if !bad {
		r.OK("R15.1", "package:who-removes-labels", "no deletion from the label index of the InvalidationIndex outside cutKeys (which works on the snapshot handed to it)")
	}
	_ = n
}

// c15DefaultDeleter: the label index embedded in a backend deletes from that very backend: its constructor creates the index with
// the backend instance as the default deleter (an index without it invalidates nothing and reports success).
func (c *Ctx) c15DefaultDeleter() {
	r := c.R
	for _, b := range backends {
		ctor := "New" + b.Wrapper
		pol := pw.Policy{Inline: func(fn *types.Func, d int) bool {
			return inlineUnexported(fn, d) || pw.FuncName(fn) == "cache.NewInvalidationIndex" || pw.FuncName(fn) == "cache.InvalidationIndex.AddCache"
		}, MaxDepth: 2}
		_, paths, _, err := c.runFunc(ctor, pol)
		if err != nil {
			r.Unknown("R15.6", ctor, err.Error())
			continue
		}
		n, nIdx, bad := 0, 0, false
		for _, p := range paths {
			if p.Panic || len(p.Ret) == 0 {
				continue
			}
			n++
			// the index installed in the instance
			var idx *pw.Val
			for _, ev := range p.Events {
				if ev.Kind == pw.EvFieldWrite && ev.Field != nil && ev.Field.Name() == "InvalidationIndex" && ev.Value != nil {
					idx = pointee(ev.Value)
				}
			}
			if idx == nil || idx.Kind != pw.KAlloc {
				continue
			}
			nIdx++
			dmap := p.FieldOf(idx, actualField("InvalidationIndex", "deleters"))
			ok := false
			for _, ev := range p.Events {
				if ev.Kind != pw.EvMapInsert || ev.Recv == nil || dmap == nil || ev.Recv != dmap || constString(ev.Key) != "default" {
					continue
				}
				vals := []*pw.Val{ev.Value}
				if ev.Value != nil {
					vals = append(vals, ev.Value.Elems...)
				}
				for _, v := range vals {
					for v != nil && v.Kind == pw.KConv {
						v = v.Src
					}
					if v != nil && v.Type != nil {
						if tn := namedTypeName(v.Type); tn == b.Name || tn == b.Wrapper {
							ok = true
						}
					}
				}
			}
			if !ok && !bad {
				bad = true
				r.Bad("R15.6", ctor, "index-without-own-deleter", c.Pos(p.RetPos), "the backend's label index is not created with the backend itself as deleter of the \"default\" cache name (the name AddInvalidationLabels files labels under): InvalidateByLabels on it removes nothing", shortTrace(p))
			}
		}
		switch {
		case nIdx == 0:
			r.Unknown("R15.6", ctor, fmt.Sprintf("the constructor does not create a label index (%d returning paths)", n))
		case !bad:
			r.OK("R15.6", ctor, "label index created with the backend as deleter of the default cache name")
		}
	}
}

// c15Protocol: R15.3–R15.5 on invalidateByLabels.
func (c *Ctx) c15Protocol() {
	r := c.R
	name := "InvalidationIndex.invalidateByLabels"
	pol := indexPolicy()
	e, paths, _, err := c.runFunc(name, pol)
	if err != nil {
		r.Unknown("R15.3", name, err.Error())
		return
	}
	nDel, nErrExit, nMarks := 0, 0, 0
	for _, p := range paths {
		idx := map[*pw.Event]int{}
		for i, ev := range p.Events {
			idx[ev] = i
		}
		groups := iterations(p)
		// completeness: no loop over labels, keys or deleters is left by break (a remaining deleter, key or label would be skipped
		// although the call goes on and reports success)
		for _, ev := range p.Events {
			if ev.Kind == pw.EvLoopEnd && ev.Note == "break" && (ev.Frame == nil || !ev.Frame.Deferred) {
				r.Bad("R15.3", name, "loop-left-early", c.Pos(ev.Pos), "a loop over labels, keys or deleters is left by break: the remaining ones are skipped while the call goes on", shortTrace(p))
			}
		}
		// classify loops: deleters loop = innermost loop containing a DeleterDelete call
		var delLoops []*iterGroup
		for _, g := range groups {
			if !g.inner {
				continue
			}
			for _, ev := range g.events {
				if ev.Kind == pw.EvCall && ev.Role == "DeleterDelete" {
					delLoops = append(delLoops, g)
					break
				}
			}
		}
		inDelLoop := func(ev *pw.Event) bool {
			for _, g := range delLoops {
				for _, e2 := range g.events {
					if e2 == ev {
						return true
					}
				}
			}
			return false
		}
		// the 'deleted' set: local map[string]bool
		isDeletedSet := func(v *pw.Val) bool {
			if v == nil || v.Kind != pw.KAlloc || v.Type == nil {
				return false
			}
			m, ok := v.Type.Underlying().(*types.Map)
			if !ok {
				return false
			}
			if b, ok := m.Elem().Underlying().(*types.Basic); ok && b.Kind() == types.Bool {
				return true
			}
			// set idiom: map[K]struct{}
			st, ok := m.Elem().Underlying().(*types.Struct)
			return ok && st.NumFields() == 0
		}
		// member: the value of a lookup in the deleted set that tells membership (the bool element, or the comma-ok result of a set)
		member := func(ev *pw.Event) *pw.Val {
			if m, ok := ev.Recv.Type.Underlying().(*types.Map); ok {
				if _, isBool := m.Elem().Underlying().(*types.Basic); !isBool {
					if len(ev.Results) == 2 {
						return ev.Results[1]
					}
					return nil
				}
			}
			if len(ev.Results) > 0 {
				return ev.Results[0]
			}
			return nil
		}
		// processed keys are remembered by the key itself: with a digest of it a different key with the same digest would be skipped
		// (never deleted) and dropped from the index
		for _, ev := range p.Events {
			if (ev.Kind == pw.EvMapLookup || ev.Kind == pw.EvMapInsert) && isDeletedSet(ev.Recv) && ev.Key != nil {
				k := ev.Key
				for k != nil && k.Kind == pw.KConv {
					k = k.Src
				}
				if k == nil || k.Kind != pw.KRangeVal && k.Kind != pw.KParam {
					r.Bad("R15.3", name, "dedup-key", c.Pos(ev.Pos), "processed keys are not remembered by the key itself (but by "+ev.Key.String()+"): another key with the same digest is skipped without being deleted and dropped from the index", shortTrace(p))
				}
			}
		}
		var cutRes *pw.Val // result of cutKeys: the local map of cut lists
		for _, ev := range p.Events {
			if ev.Kind == pw.EvExit && ev.Fn != nil && strings.HasSuffix(pw.FuncName(ev.Fn), ".cutKeys") && len(ev.Results) == 1 {
				cutRes = ev.Results[0]
			}
		}
		errExit := false
		if len(p.Ret) == 2 {
			if n, known := p.NilFact(p.Ret[1]); known && !n {
				errExit = true
			}
		}
		for _, ev := range p.Events {
			if ev.Frame != nil && ev.Frame.Deferred {
				continue
			}
			switch {
			case ev.Kind == pw.EvCall && ev.Role == "DeleterDelete":
				nDel++
				// R15.4 argument: []byte(k), k ranged from cutKeys[label], label ranged from the labels parameter
				okArg := false
				if len(ev.Args) == 2 {
					a := ev.Args[1]
					if a.Kind == pw.KConv && a.Src != nil && a.Src.Kind == pw.KRangeVal && a.Src.Src != nil && a.Src.Src.Kind == pw.KMapVal &&
						a.Src.Src.Ev != nil && a.Src.Src.Ev.Recv == cutRes && a.Src.Src.Ev.Key != nil && a.Src.Src.Ev.Key.Kind == pw.KRangeVal {
						okArg = true
					}
				}
				if !okArg {
					r.Bad("R15.4", name, "delete-argument", c.Pos(ev.Pos), "Delete is not called with a key taken from the cut list of a requested label", shortTrace(p))
				}
				// count on the success edge
				errNil := nilTri(p, ev.Results[0])
				incs := 0
				for _, g := range delLoops {
					has := false
					for _, e2 := range g.events {
						if e2 == ev {
							has = true
						}
					}
					if !has {
						continue
					}
					for _, e2 := range g.events {
						if e2.Kind == pw.EvAssign && e2.Obj != nil && e2.Value != nil && e2.Value.Kind == pw.KArith && e2.Value.Op == token.ADD && idx[e2] > idx[ev] {
							incs++
						}
					}
				}
				if errNil == triUnknown {
					// errors.Is(err, ErrNotFound) true implies a non-nil error
					for _, e2 := range p.Events {
						if e2.Kind == pw.EvCall && e2.Callee != nil && pw.FuncName(e2.Callee) == "errors.Is" && len(e2.Args) == 2 && e2.Args[0] == ev.Results[0] {
							if t, known := p.Truth(e2.Results[0]); known && t {
								errNil = triFalse
							}
						}
					}
				}
				switch errNil {
				case triTrue:
					if incs != 1 {
						r.Bad("R15.4", name, "count-on-success", c.Pos(ev.Pos), fmt.Sprintf("a successful Delete increments the count %d times", incs), shortTrace(p))
					}
				case triFalse:
					if incs != 0 {
						r.Bad("R15.4", name, "count-on-failure", c.Pos(ev.Pos), "the count is incremented although Delete returned an error (ErrNotFound means nothing was removed)", shortTrace(p))
					}
					// R15.5
					isNF := triUnknown
					for _, e2 := range p.Events {
						if e2.Kind == pw.EvCall && e2.Callee != nil && pw.FuncName(e2.Callee) == "errors.Is" && len(e2.Args) == 2 && e2.Args[0] == ev.Results[0] && isConstNamed(e2.Args[1], "ErrNotFound") {
							if t, known := p.Truth(e2.Results[0]); known {
								isNF = map[bool]tri{true: triTrue, false: triFalse}[t]
							}
						}
					}
					if isNF == triFalse {
						nErrExit++
						if !(errExit && p.Ret[1] == ev.Results[0]) {
							r.Bad("R15.5", name, "error-swallowed", c.Pos(ev.Pos), "a deleter error other than ErrNotFound is not returned to the caller", shortTrace(p))
						}
					}
					if isNF == triTrue && errExit && len(p.Ret) == 2 && p.Ret[1] == ev.Results[0] {
						r.Bad("R15.5", name, "notfound-returned", c.Pos(ev.Pos), "a deleter's ErrNotFound (the key is simply not in that cache) is returned as the call's failure: invalidation stops at that key, and so does every retry", shortTrace(p))
					}
					if isNF == triUnknown {
						r.Bad("R15.5", name, "error-unclassified", c.Pos(ev.Pos), "a deleter error is neither compared with ErrNotFound nor returned", shortTrace(p))
					}
				default:
					r.Bad("R15.4", name, "delete-result-unchecked", c.Pos(ev.Pos), "the result of Delete is never tested", shortTrace(p))
				}
			case ev.Kind == pw.EvMapInsert && isDeletedSet(ev.Recv):
				nMarks++
				if inDelLoop(ev) {
					r.Bad("R15.3", name, "mark-inside-deleters-loop", c.Pos(ev.Pos), "a key is marked deleted inside the loop over deleters: when a later deleter of the same cache name fails, the key is dropped from the index although it is still cached there", shortTrace(p))
				}
				if errExit {
					// the mark must not concern the key whose deleter failed: with one iteration per loop any mark on an error exit is that key's
					r.Bad("R15.3", name, "mark-before-error", c.Pos(ev.Pos), "a key is marked deleted on a path that returns a deleter's error for it", shortTrace(p))
				}
			case ev.Kind == pw.EvMapDelete && ev.Recv == cutRes && cutRes != nil:
				// drop of a label's list: after its keys loop
				if errExit {
					r.Bad("R15.3", name, "drop-before-error", c.Pos(ev.Pos), "a label's cut list is dropped on a path that returns a deleter's error: its unprocessed keys are not put back", shortTrace(p))
				}
				for _, g := range delLoops {
					if idx[g.begin] > idx[ev] {
						r.Bad("R15.3", name, "drop-before-processing", c.Pos(ev.Pos), "a label's cut list is dropped before its keys were processed", shortTrace(p))
					}
				}
				// … and outside the loop over the label's keys: dropped after the first key, the rest of the label is no longer
				// put back when a later key fails
				enclosing := 0
				for _, g := range groups {
					hasDrop, hasDelete := false, false
					for _, e2 := range g.events {
						if e2 == ev {
							hasDrop = true
						}
						if e2.Kind == pw.EvCall && e2.Role == "DeleterDelete" {
							hasDelete = true
						}
					}
					if hasDrop && hasDelete {
						enclosing++
					}
				}
				if enclosing >= 2 {
					r.Bad("R15.3", name, "drop-inside-keys-loop", c.Pos(ev.Pos), "a label's cut list is dropped inside the loop over its keys: once the first key is processed the remaining keys of the label are not put back when one of them fails", shortTrace(p))
				}
			}
		}
		// R15.3: a key is skipped only when it is known to be deleted already; a key not yet deleted reaches the deleters loop
		smallest := func(target *pw.Event) *iterGroup {
			var best *iterGroup
			for _, g := range groups {
				for _, e2 := range g.events {
					if e2 == target && (best == nil || len(g.events) < len(best.events)) {
						best = g
					}
				}
			}
			return best
		}
		for _, ev := range p.Events {
			if ev.Kind != pw.EvMapLookup || !isDeletedSet(ev.Recv) || len(ev.Results) == 0 {
				continue
			}
			mv := member(ev)
			if mv == nil {
				continue
			}
			t, known := p.Truth(mv)
			if !known {
				continue
			}
			g := smallest(ev)
			if g == nil {
				continue
			}
			after := false
			reached, deletes, puts := false, 0, 0
			for _, e2 := range g.events {
				if e2 == ev {
					after = true
					continue
				}
				if !after {
					continue
				}
				if (e2.Kind == pw.EvLoopBegin || e2.Kind == pw.EvLoopZero) && e2.Recv != nil && e2.Recv.Kind != pw.KMapVal {
					reached = true // the loop over the deleters of this cache name was reached
				}
				if e2.Kind == pw.EvCall && e2.Role == "DeleterDelete" {
					deletes++
					reached = true
				}
				if e2.Kind == pw.EvMapInsert && e2.Frame != nil && e2.Frame.Deferred {
					puts++
				}
			}
			deferredLookup := ev.Frame != nil && ev.Frame.Deferred
			switch {
			case !deferredLookup && !t && !reached && !errExit:
				r.Bad("R15.3", name, "key-skipped-undeleted", c.Pos(ev.Pos), "a key that is not yet marked deleted is skipped without being handed to the deleters (it is then dropped from the index although still cached)", shortTrace(p))
			case !deferredLookup && t && deletes > 0:
				// double delete is harmless for the property (second Delete reports ErrNotFound); not a violation
			case deferredLookup && t && puts > 0:
				r.Bad("R15.3", name, "put-back-of-deleted-key", c.Pos(ev.Pos), "the put-back re-indexes a key that was deleted", shortTrace(p))
			case deferredLookup && !t && puts == 0:
				r.Bad("R15.3", name, "undeleted-key-not-put-back", c.Pos(ev.Pos), "the put-back drops a key that was not deleted: it stays cached but is no longer indexed", shortTrace(p))
			}
		}
		// marks use the constant true
		for _, ev := range p.Events {
			if ev.Kind == pw.EvMapInsert && isDeletedSet(ev.Recv) && ev.Frame != nil && ev.Frame.Deferred {
				// the set is shared by all labels of the call: a key marked while it is put back under one label is not put back
				// under its other labels
				r.Bad("R15.3", name, "mark-in-put-back", c.Pos(ev.Pos), "the put-back marks a key as deleted although it was not deleted: under its other labels the key is no longer indexed while it stays cached", shortTrace(p))
				break
			}
		}
		for _, ev := range p.Events {
			if ev.Kind == pw.EvMapInsert && isDeletedSet(ev.Recv) {
				if bt, isBool := ev.Value.Type.Underlying().(*types.Basic); !isBool || bt.Kind() != types.Bool && bt.Kind() != types.UntypedBool {
					continue
				}
				if t, known := p.Truth(ev.Value); !known || !t {
					r.Bad("R15.3", name, "mark-not-true", c.Pos(ev.Pos), "a processed key is not marked deleted (true)", shortTrace(p))
				}
			}
		}
		// the put-back may be skipped only when nothing is left to put back
		hasPutBackIter := false
		var cutLen *pw.Val
		for _, ev := range p.Events {
			if ev.Frame != nil && ev.Frame.Deferred && (ev.Kind == pw.EvMapIter || ev.Kind == pw.EvLoopZero) && ev.Recv == cutRes {
				hasPutBackIter = true
			}
		}
		for _, v := range e.Vals {
			if v.Kind == pw.KLen && v.Src == cutRes && cutRes != nil {
				cutLen = v
			}
		}
		if !hasPutBackIter && cutLen != nil && p.Rel(cutLen, e.IntConst(0))&pw.RGt != 0 {
			r.Bad("R15.3", name, "put-back-skipped", c.Pos(p.RetPos), "unprocessed cut lists may remain (len(cutKeys) > 0 is possible) but the put-back does not run", shortTrace(p))
		}
		// the put-back is registered by this function itself, before any deleter runs
		ownDefer := -1
		for i, ev := range p.Events {
			if ev.Kind == pw.EvDefer && ev.Frame != nil && ev.Frame.Parent == nil {
				ownDefer = i
			}
		}
		firstDel := -1
		for i, ev := range p.Events {
			if ev.Kind == pw.EvCall && ev.Role == "DeleterDelete" && firstDel < 0 {
				firstDel = i
			}
		}
		if ownDefer < 0 && cutRes == nil && firstDel < 0 {
			// a path that returns before anything was cut from the index has nothing to put back
		} else if ownDefer < 0 || firstDel >= 0 && ownDefer > firstDel {
			r.Bad("R15.3", name, "put-back-not-deferred", c.Pos(p.RetPos), "the put-back of unprocessed keys is not registered with defer before the deleters run", shortTrace(p))
		}
		// deferred put-back on every exit that still holds cut lists: present as deferred events under mu
		deferredPut := false
		for _, ev := range p.Events {
			if ev.Frame != nil && ev.Frame.Deferred && ev.Kind == pw.EvMapIter && ev.Recv == cutRes {
				deferredPut = true
			}
		}
		_ = deferredPut
		// put-back appends under mu and skips deleted keys
		ls := Locksets(p.Events, nil)
		for i, ev := range p.Events {
			if ev.Frame != nil && ev.Frame.Deferred && ev.Kind == pw.EvMapInsert && ev.Recv != nil && ev.Recv.Kind == pw.KParam {
				held := false
				for k, v := range ls[i] {
					if v > 0 && strings.HasSuffix(k, "."+actualField("InvalidationIndex", "mu")) {
						held = true
					}
				}
				if !held {
					r.Bad("R15.3", name, "put-back-unlocked", c.Pos(ev.Pos), "unprocessed keys are appended to the index without holding mu", shortTrace(p))
				}
				if ev.Value == nil || ev.Value.Kind != pw.KAppend {
					r.Bad("R15.3", name, "put-back-overwrites", c.Pos(ev.Pos), "the put-back replaces the label's list instead of appending to it (keys labelled meanwhile are lost)", shortTrace(p))
				}
			}
		}
	}
	for _, p := range paths {
		if ev := countersStartAtZero(p); ev != nil {
			r.Bad("R15.4", name, "counter-not-zero", c.Pos(ev.Pos), "the count of deleted entries does not start at 0", shortTrace(p))
			break
		}
	}
	if nDel == 0 || nErrExit == 0 || nMarks == 0 {
		r.Unknown("R15.3", name, fmt.Sprintf("vacuous: %d Delete sites, %d error exits, %d marks", nDel, nErrExit, nMarks))
	}
	for _, rule := range []string{"R15.3", "R15.4", "R15.5"} {
		if !hasViolation(r.Obls, rule, name) {
			r.OK(rule, name, fmt.Sprintf("%d paths: %d Delete events, %d error exits, %d marks", len(paths), nDel, nErrExit, nMarks))
		}
	}
}

// c15AddCache: "absent from all caches registered under its cache name": AddCache adds the deleter it was given to the list of the
// name it was given on every path (an "already registered" shortcut that compares function values by code pointer drops every
// adapter but the first).
func (c *Ctx) c15AddCache() {
	r := c.R
	name := "InvalidationIndex.AddCache"
	e, paths, fn, err := c.runFunc(name, indexPolicy())
	if err != nil || fn == nil {
		r.Unknown("R15.6", name, "does not resolve")
		return
	}
	sig := fn.Type().(*types.Signature)
	if sig.Params().Len() != 2 {
		r.Unknown("R15.6", name, "unexpected signature")
		return
	}
	pName, pDel := e.Params[sig.Params().At(0)], e.Params[sig.Params().At(1)]
	bad := false
	n := 0
	for _, p := range paths {
		if p.Panic || c.featurePath(p) {
			continue
		}
		n++
		ok := false
		for _, ev := range p.Events {
			if ev.Kind == pw.EvMapInsert && ev.Recv != nil && ev.Recv.Field != nil && fname(ev.Recv.Field) == "deleters" && ev.Key == pName &&
				ev.Value != nil && ev.Value.Kind == pw.KAppend {
				for _, el := range ev.Value.Elems {
					if el == pDel {
						ok = true
					}
				}
			}
		}
		if !ok && !bad {
			bad = true
			r.Bad("R15.6", name, "deleter-not-registered", c.Pos(p.RetPos), "AddCache returns without appending the given deleter to the list of the given name: invalidation never reaches that cache", shortTrace(p))
		}
	}
	if n == 0 {
		r.Unknown("R15.6", name, "vacuous: no path judged")
	} else if !bad {
		r.OK("R15.6", name, fmt.Sprintf("%d paths append the given deleter under the given name", n))
	}
}

// c15Labelling: R15.6.
func (c *Ctx) c15Labelling() {
	r := c.R
	for _, m := range []string{"AddLabels", "AddInvalidationLabels"} {
		name := "InvalidationIndex." + m
		e, paths, _, err := c.runFunc(name, indexPolicy())
		if err != nil {
			r.Unknown("R15.6", name, err.Error())
			continue
		}
		key := keyParamOf(e)
		nIter := 0
		bad := false
		for _, p := range paths {
			// the per-name map: looked up in labeledKeysByName; when nil a fresh one must be installed under the same name
			var look *pw.Event
			var install *pw.Event
			for _, ev := range p.Events {
				if ev.Kind == pw.EvMapLookup && ev.Recv != nil && ev.Recv.Kind == pw.KField && ev.Recv.Field != nil && fname(ev.Recv.Field) == "labeledKeysByName" && look == nil {
					look = ev
				}
				if ev.Kind == pw.EvMapInsert && ev.Recv != nil && ev.Recv.Kind == pw.KField && ev.Recv.Field != nil && fname(ev.Recv.Field) == "labeledKeysByName" {
					install = ev
				}
			}
			if look == nil {
				r.Bad("R15.6", name, "no-index-lookup", c.Pos(p.RetPos), "labels are added without looking up the cache name's label map", shortTrace(p))
				bad = true
				continue
			}
			if m == "AddLabels" {
				nameParam := paramByType(e, func(t types.Type) bool {
					b, ok := t.Underlying().(*types.Basic)
					return ok && b.Kind() == types.String
				})
				if nameParam != nil && look.Key != nameParam {
					r.Bad("R15.6", name, "labels-filed-under-other-name", c.Pos(look.Pos), "AddLabels files the labels under a name other than the cacheName it was given: InvalidateByLabels pairs labels and deleters by name", shortTrace(p))
					bad = true
				}
			}
			if m == "AddInvalidationLabels" && constString(look.Key) != "default" {
				r.Bad("R15.6", name, "not-default-cache", c.Pos(look.Pos), "AddInvalidationLabels must label the key in the \"default\" cache", shortTrace(p))
				bad = true
			}
			target := look.Results[0]
			switch nilTri(p, target) {
			case triTrue:
				if install == nil || install.Key != look.Key || install.Value == nil || install.Value.Kind != pw.KAlloc {
					r.Bad("R15.6", name, "map-not-installed", c.Pos(look.Pos), "the cache name has no label map yet and none is installed: the labels are lost", shortTrace(p))
					bad = true
					continue
				}
				target = install.Value
			case triUnknown:
				r.Bad("R15.6", name, "nil-map-untested", c.Pos(look.Pos), "the looked-up label map is used without testing for nil (write to a nil map panics)", shortTrace(p))
				bad = true
				continue
			}
			for _, g := range iterations(p) {
				if !g.inner {
					continue
				}
				nIter++
				ok := false
				for _, ev := range g.events {
					// the label of this iteration: the range value, or labels[j] of a counting loop over the parameter
					isLabel := ev.Key != nil && (ev.Key.Kind == pw.KRangeVal || ev.Key.Kind == pw.KIndex && ev.Key.Src != nil && ev.Key.Src.Kind == pw.KParam)
					if ev.Kind == pw.EvMapInsert && ev.Recv == target && isLabel && ev.Value != nil && ev.Value.Kind == pw.KAppend && len(ev.Value.Elems) == 1 {
						el := ev.Value.Elems[0]
						src := ev.Value.Src
						if stringOf(el, key) && src != nil && src.Kind == pw.KMapVal && src.Ev != nil && src.Ev.Recv == target && src.Ev.Key == ev.Key {
							ok = true
						}
					}
				}
				if !ok {
					r.Bad("R15.6", name, "label-not-recorded", c.Pos(g.begin.Pos), "an iteration over the given labels does not append string(key) to that label's list of the cache name's map", shortTrace(p))
					bad = true
				}
			}
		}
		if nIter == 0 {
			r.Unknown("R15.6", name, "no label iteration found")
		} else if !bad {
			r.OK("R15.6", name, fmt.Sprintf("%d label iterations append string(key) to the right list", nIter))
		}
	}
	// InvalidateByLabels: snapshot and per-name invalidation
	name := "InvalidationIndex.InvalidateByLabels"
	_, paths, _, err := c.runFunc(name, pw.Policy{Inline: func(fn *types.Func, d int) bool {
		return inlineUnexported(fn, d) && !strings.HasSuffix(pw.FuncName(fn), ".invalidateByLabels")
	}, Pure: func(fn *types.Func) bool { return false }})
	if err != nil {
		r.Unknown("R15.6", name, err.Error())
		return
	}
	nSnap, nCall := 0, 0
	bad := false
	// does some path collect the snapshot as a list of per-name records (instead of two maps)?
	recordFormAny := false
	for _, p := range paths {
		for _, ev := range p.Events {
			if ev.Kind == pw.EvMapInsert && ev.Recv != nil && ev.Recv.Kind == pw.KAlloc {
				if rec := pointee(ev.Value); rec != nil && rec.Kind == pw.KAlloc && rec.Fields != nil {
					for _, fv := range rec.Fields {
						if fv != nil && fv.Kind == pw.KMapVal && fv.Ev != nil && fv.Ev.Recv != nil && fv.Ev.Recv.Field != nil && fname(fv.Ev.Recv.Field) == "deleters" {
							recordFormAny = true
						}
					}
				}
			}
			if ev.Kind == pw.EvAssign && ev.Value != nil && ev.Value.Kind == pw.KAppend {
				for _, el := range ev.Value.Elems {
					if el != nil && el.Kind == pw.KAlloc && el.Fields != nil {
						for _, fv := range el.Fields {
							if fv != nil && fv.Kind == pw.KMapVal && fv.Ev != nil && fv.Ev.Recv != nil && fv.Ev.Recv.Field != nil && fname(fv.Ev.Recv.Field) == "deleters" {
								recordFormAny = true
							}
						}
					}
				}
			}
		}
	}
	for _, p := range paths {
		var snapIdx, snapDel *pw.Val
		recordForm := recordFormAny
		for _, g := range iterations(p) {
			if !g.inner {
				continue
			}
			isSnap := g.begin.Recv != nil && g.begin.Recv.Kind == pw.KField && g.begin.Recv.Field != nil && fname(g.begin.Recv.Field) == "labeledKeysByName"
			if isSnap {
				nSnap++
				okI, okD := false, false
				isDeletersOf := func(v, key *pw.Val) bool {
					return v != nil && v.Kind == pw.KMapVal && v.Ev != nil && v.Ev.Recv != nil && v.Ev.Recv.Field != nil && fname(v.Ev.Recv.Field) == "deleters" && (key == nil || v.Ev.Key == key || v.Ev.Key != nil && v.Ev.Key.Kind == pw.KRangeKey)
				}
				for _, ev := range g.events {
					// record form: one struct per name holding the name's label map and deleters, appended to a local list
					if ev.Kind == pw.EvAssign && ev.Value != nil && ev.Value.Kind == pw.KAppend {
						for _, el := range ev.Value.Elems {
							if el == nil || el.Kind != pw.KAlloc || el.Fields == nil {
								continue
							}
							hasI, hasD := false, false
							for _, fv := range el.Fields {
								if fv != nil && fv.Kind == pw.KRangeVal {
									hasI = true
								}
								if isDeletersOf(fv, nil) {
									hasD = true
								}
							}
							if hasI && hasD {
								okI, okD, recordForm = true, true, true
							}
						}
					}
					if ev.Kind != pw.EvMapInsert || ev.Recv == nil || ev.Recv.Kind != pw.KAlloc || ev.Key == nil || ev.Key.Kind != pw.KRangeKey {
						continue
					}
					// record form kept in a map: one struct per name, filed under the name
					if rec := pointee(ev.Value); rec != nil && rec.Kind == pw.KAlloc && rec.Fields != nil {
						hasI, hasD := false, false
						for _, fv := range rec.Fields {
							if fv != nil && fv.Kind == pw.KRangeVal {
								hasI = true
							}
							if isDeletersOf(fv, ev.Key) {
								hasD = true
							}
						}
						if hasI && hasD {
							okI, okD, recordForm = true, true, true
						}
					}
					if ev.Value != nil && ev.Value.Kind == pw.KRangeVal {
						okI, snapIdx = true, ev.Recv
					}
					if ev.Value != nil && ev.Value.Kind == pw.KMapVal && ev.Value.Ev != nil && ev.Value.Ev.Recv != nil && ev.Value.Ev.Recv.Field != nil && fname(ev.Value.Ev.Recv.Field) == "deleters" && ev.Value.Ev.Key == ev.Key {
						okD, snapDel = true, ev.Recv
					}
				}
				if !okI || !okD {
					r.Bad("R15.6", name, "incomplete-snapshot", c.Pos(g.begin.Pos), "the snapshot taken under mu does not copy both the label map and the deleters of every cache name (keys would be cut from the index without being deleted)", shortTrace(p))
					bad = true
				}
				continue
			}
			for _, ev := range g.events {
				if ev.Kind == pw.EvCall && ev.Role == "Repo:InvalidationIndex.invalidateByLabels" {
					nCall++
					// the label map and the deleters are found by type (the helper may take further parameters, e.g. the name for a hook)
					if len(ev.Args) >= 3 {
						var mArg, dArg *pw.Val
						for _, a := range ev.Args[1:] {
							if a == nil || a.Type == nil {
								continue
							}
							switch a.Type.Underlying().(type) {
							case *types.Map:
								if mArg == nil {
									mArg = a
								}
							case *types.Slice:
								if dArg == nil && strings.Contains(types.TypeString(a.Type, nil), "Deleter") {
									dArg = a
								}
							}
						}
						if mArg != nil && dArg != nil {
							ev = &pw.Event{Kind: ev.Kind, Role: ev.Role, Pos: ev.Pos, Args: []*pw.Val{ev.Args[0], mArg, dArg}, Results: ev.Results}
						}
					}
					okArgs := len(ev.Args) >= 3 && ev.Args[1].Kind == pw.KRangeVal && ev.Args[2].Kind == pw.KMapVal && ev.Args[2].Ev != nil && ev.Args[2].Ev.Key != nil && ev.Args[2].Ev.Key.Kind == pw.KRangeKey
					if okArgs && (snapDel != nil && ev.Args[2].Ev.Recv != snapDel) {
						okArgs = false
					}
					if okArgs && snapIdx != nil && g.begin.Recv != snapIdx {
						okArgs = false
					}
					if !okArgs && recordForm && len(ev.Args) >= 3 {
						// both arguments are fields of the same ranged record of the snapshot list
						a1, a2 := ev.Args[1], ev.Args[2]
						if a1 != nil && a2 != nil && a1.Kind == pw.KField && a2.Kind == pw.KField && a1.Src != nil && a1.Src == a2.Src && a1.Field != a2.Field &&
							(a1.Src.Kind == pw.KRangeVal || a1.Src.Kind == pw.KIndex || a1.Src.Kind == pw.KAddr) {
							if _, isMap := a1.Type.Underlying().(*types.Map); isMap {
								if _, isSlice := a2.Type.Underlying().(*types.Slice); isSlice {
									okArgs = true
								}
							}
						}
					}
					if !okArgs {
						r.Bad("R15.6", name, "per-name-arguments", c.Pos(ev.Pos), "the per-name invalidation is not given that name's label map and that name's deleters from the snapshot", shortTrace(p))
						bad = true
					}
					// count summed, error returned
					sum := false
					for _, e2 := range g.events {
						if e2.Kind == pw.EvAssign && e2.Value != nil && e2.Value.Kind == pw.KArith && e2.Value.Op == token.ADD && e2.Value.Src2 == ev.Results[0] {
							sum = true
						}
					}
					if !sum {
						r.Bad("R15.6", name, "count-not-summed", c.Pos(ev.Pos), "the per-name count is not added to the total", shortTrace(p))
						bad = true
					}
					if n, known := p.NilFact(ev.Results[1]); known && !n {
						if len(p.Ret) != 2 || p.Ret[1] != ev.Results[1] {
							r.Bad("R15.6", name, "error-not-returned", c.Pos(ev.Pos), "a per-name invalidation error is not returned", shortTrace(p))
							bad = true
						}
					} else if !known {
						r.Bad("R15.6", name, "error-unchecked", c.Pos(ev.Pos), "the per-name invalidation error is never tested", shortTrace(p))
						bad = true
					}
				}
			}
		}
		if ev := countersStartAtZero(p); ev != nil {
			r.Bad("R15.6", name, "counter-not-zero", c.Pos(ev.Pos), "the total does not start at 0", shortTrace(p))
			bad = true
		}
	}
	if nSnap == 0 || nCall == 0 {
		r.Unknown("R15.6", name, fmt.Sprintf("vacuous: %d snapshot iterations, %d per-name calls", nSnap, nCall))
	} else if !bad {
		r.OK("R15.6", name, fmt.Sprintf("%d snapshot iterations copy index+deleters; %d per-name calls with matching arguments, count summed, error returned", nSnap, nCall))
	}
}
