package rules

import (
	"fmt"
	"go/ast"
	"go/token"
	"go/types"
	"strings"

	"cachelint/pw"
)

func init() { register("C13", checkC13) }

func checkC13(c *Ctx) {
	r := c.R
	r.Explanation = "Round-trip equality for all entry sets is encoding/gob's behaviour at run time and is NOT decided. gob has two documented " +
		"properties that turn the round trip into structural obligations on the caller: zero-valued fields are not transmitted, and decoding " +
		"into an existing value leaves untransmitted fields untouched and re-uses slice capacity. Decided statically for the three backends: " +
		"(R13.1) every Restore decodes each record into a variable declared inside the decoding loop and stores that variable's address; " +
		"(R13.2) Dump encodes the walked entry itself, whose dynamic type (*TraitEntry / *TraitEntryOf[V], from Walk's callback argument) is " +
		"the struct type Restore decodes, with K, V, E exported; ShardedMap and SyncMap share TraitEntry (cross-family transfer); (R13.3) " +
		"Dump returns Walk's count, Walk counts each successful callback once, Restore counts each stored record once; (R13.4) Restore " +
		"stores each entry under the index its own key K maps to, like Write."
	r.Rule("R13.1", "fresh decode target per record, stored by address", 3)
	r.Rule("R13.2", "wire-type agreement between Dump (walked entry) and Restore (decode target); exported K, V, E", 3)
	r.Rule("R13.3", "counts: Dump = Walk's count; Walk +1 per successful callback; Restore +1 per stored record", 9)
	r.Rule("R13.4", "Restore indexes the entry by its own key like Write", 3)
	r.Rule("R13.5", "the expiry survives accessor round trips: ts is UnixNano and tsTime its exact inverse (also for 0)", 2)
	r.Rule("R13.7", "relay through HTTPTransfer.Import pairs every dump with the cache it was requested for (obligations of C14 R14.2)", 2)
	r.Rule("R13.6", "dumped keys are the stored (private) keys; GobRegister registers the given value itself with encoding/gob", 3)
	r.NotDecided = []string{"encoding/gob's own behaviour", "round-trip equality of values", "partial import on a broken stream"}
	c.withAlias(map[string]string{"R10.5": "R13.5"}, func() { c.c10TsInverse() })
	// a restored entry reads back as it did in the source: Read classifies by the entry's own E and the clock only — not by
	// instance-level bookkeeping that Restore does not maintain (C07 R07.2)
	c.borrow("C07", func() {
		for _, b := range backends {
			c.c07Read(b)
		}
	}, func(o *coreObl) (string, bool) { return "R13.5", o.Rule == "R07.2" })
	// R13.6: what is dumped is what the cache holds and what gob was told about: stored keys are private copies (a dump must
	// not carry keys the caller rewrote afterwards) and GobRegister registers the very value it was given — every distinct type:
	// the already-registered test is keyed by the reflect.Type itself (a coarser key, e.g. its printed name, silently skips a
	// second type that prints the same, and Dump then fails on its values)
	c.borrow("C09", func() {
		for _, b := range backends {
			c.c09WriteCopies(b)
		}
	}, func(o *coreObl) (string, bool) { return "R13.6", o.Rule == "R09.2" })
	c.borrow("C14", func() { c.c14InitRegistration() }, func(o *coreObl) (string, bool) { return "R13.6", o.Rule == "R14.3" })
	c.borrow("C14", func() { c.c14Register() }, func(o *coreObl) (string, bool) {
		return "R13.6", o.Rule == "R14.3" && o.Construct == "GobRegister" && (o.Status == "discharged" || strings.HasPrefix(o.What, "not-registered-with-gob") || strings.HasPrefix(o.What, "no-dedupe-test") || strings.HasPrefix(o.What, "dedupe-untested") || strings.HasPrefix(o.What, "unpaired-update") || strings.HasPrefix(o.What, "registration-stops-early"))
	})
	for _, b := range backends {
		// R13.1 -------------------------------------------------------------------------------
		name := b.Wrapper + ".Restore"
		fd, _ := c.funcDecl(name)
		if fd == nil {
			r.Unknown("R13.1", name, "does not resolve")
			continue
		}
		var decodeTarget types.Object
		var decTargetType types.Type
		// path-based: in every decoding iteration the record is decoded into storage created in that iteration (a variable declared
		// in the loop body, new(T) or &T{} evaluated there) and exactly that storage is what gets stored
		func() {
			run := c.bk(b, name, false)
			if run.err != nil {
				r.Unknown("R13.1", name, run.err.Error())
				return
			}
			nDec, stores, bad := 0, 0, false
			for _, p := range run.paths {
				for _, g := range iterations(p) {
					if !g.inner {
						continue
					}
					var dec *pw.Event
					for _, ev := range g.events {
						if ev.Kind == pw.EvCall && strings.HasSuffix(ev.Role, "gob.Decoder.Decode") && len(ev.Args) == 1 {
							dec = ev
						}
					}
					if dec == nil {
						continue
					}
					nDec++
					tgt := dec.Args[0]
					var lo, hi token.Pos
					if dec.Loop != nil {
						lo, hi = dec.Loop.Pos(), dec.Loop.End()
						if fs, ok := dec.Loop.(*ast.ForStmt); ok {
							lo, hi = fs.Body.Pos(), fs.Body.End()
						}
					}
					fresh := false
					switch {
					case tgt == nil:
					case tgt.Kind == pw.KAddr && tgt.Obj != nil:
						fresh = tgt.Obj.Pos() >= lo && tgt.Obj.Pos() <= hi
						decodeTarget = tgt.Obj
						decTargetType = tgt.Obj.Type()
					case tgt.Kind == pw.KAlloc:
						fresh = tgt.Pos >= lo && tgt.Pos <= hi
						decTargetType = derefType(tgt.Type)
					}
					// a local of a helper that is called once per iteration is as fresh as a local of the loop body
					if !fresh && tgt != nil && dec.Frame != nil && dec.Frame.Parent != nil && dec.Frame.Fn != nil {
						if fd := c.declOf(dec.Frame.Fn); fd != nil && fd.Body != nil {
							pos := tgt.Pos
							if tgt.Kind == pw.KAddr && tgt.Obj != nil {
								pos = tgt.Obj.Pos()
							}
							fresh = pos >= fd.Body.Pos() && pos <= fd.Body.End() && enclosingLoop(fd.Body, nodeAt(fd.Body, pos)) == nil
						}
					}
					if !fresh {
						if !bad {
							r.Bad("R13.1", name, "decode-target-reused", c.Pos(dec.Pos),
								"the decode target is not created inside the decoding loop: gob leaves untransmitted (zero) fields from the previous record and decodes K into the previous record's backing array", shortTrace(p))
						}
						bad = true
						continue
					}
					// what is stored is the record as decoded: none of its K, V, E is assigned between Decode and the store (e.g. an
					// expiry "filled in" for records that have none: never-expiring entries would start to expire after a restore)
					afterDec := false
					for _, ev := range g.events {
						if ev == dec {
							afterDec = true
							continue
						}
						if !afterDec || ev.Kind != pw.EvFieldWrite || ev.Field == nil || bad {
							continue
						}
						switch fname(ev.Field) {
						case "K", "V", "E":
						default:
							continue
						}
						recv := ev.Recv
						onTarget := recv == tgt || recv == pointee(tgt) || recv != nil && tgt.Kind == pw.KAddr && (recv.Obj != nil && recv.Obj == tgt.Obj || recv == tgt.Src)
						if onTarget {
							r.Bad("R13.1", name, "restored-entry-modified", c.Pos(ev.Pos), "field "+fname(ev.Field)+" of the decoded record is assigned before it is stored: the restored entry differs from the dumped one", shortTrace(p))
							bad = true
						}
					}
					for _, ev := range g.events {
						var v *pw.Val
						if b.Sharded && ev.Kind == pw.EvMapInsert && isShardData(ev) {
							v = ev.Value
						}
						if !b.Sharded && isSyncStore(p, ev) && len(ev.Args) > 1 {
							v = ev.Args[1]
						}
						if v == nil {
							continue
						}
						stores++
						same := v == tgt || v.Kind == pw.KAddr && tgt.Kind == pw.KAddr && v.Obj == tgt.Obj
						if !same && !bad {
							r.Bad("R13.1", name, "stored-not-target", c.Pos(ev.Pos), "the stored entry is not the freshly decoded record", shortTrace(p))
							bad = true
						}
					}
				}
			}
			switch {
			case nDec == 0:
				r.Unknown("R13.1", name, "no gob Decode call inside a loop found")
			case bad:
			case stores == 0:
				r.Unknown("R13.1", name, "no store found")
			default:
				r.OK("R13.1", name, "decode target created per iteration and stored itself")
			}
		}()
		// R13.2 -------------------------------------------------------------------------------
		decType := decTargetType
		walk := c.bk(b, b.Name+".Walk", false)
		var cbArgType types.Type
		if walk.err == nil {
			for _, p := range walk.paths {
				for _, ev := range p.Events {
					if ev.Kind == pw.EvCall && strings.HasPrefix(ev.Role, "DynParam:") && len(ev.Args) == 1 {
						t := ev.Args[0].Type
						for x := ev.Args[0]; x != nil && x.Kind == pw.KConv; x = x.Src {
							t = x.Src.Type
						}
						cbArgType = t
					}
				}
			}
		}
		dump := c.bk(b, b.Wrapper+".Dump", false)
		encodesParam := false
		if dump.err == nil {
			encodesParam = true
			nEnc := 0
			for _, p := range dump.paths {
				for _, ev := range p.Events {
					if ev.Kind != pw.EvCall || ev.Role != "Std:gob.Encoder.Encode" || len(ev.Args) != 1 {
						continue
					}
					nEnc++
					if !c.isWalkedEntry(ev.Args[0], b) {
						encodesParam = false
					}
				}
			}
			if nEnc == 0 {
				encodesParam = false
			}
			// every entry handed to Dump's callback is encoded: no iteration that entered the callback ends without an Encode
			skipped := false
			for _, p := range dump.paths {
				for _, g := range iterations(p) {
					if !g.inner || skipped {
						continue
					}
					entered, enc := false, 0
					for _, ev := range g.events {
						if ev.Kind == pw.EvEnter && ev.FnLit != nil && ev.Frame != nil && !ev.Frame.Deferred {
							entered = true
						}
						if ev.Kind == pw.EvCall && ev.Role == "Std:gob.Encoder.Encode" {
							enc++
						}
					}
					if entered && enc == 0 {
						skipped = true
						r.Bad("R13.3", b.Wrapper+".Dump", "dump-skips-entry", c.Pos(g.begin.Pos), "an entry handed to Dump's callback is not encoded: the dump silently leaves entries out", shortTrace(p))
					}
				}
			}
		}
		cons := b.Wrapper + ".Dump/Restore"
		switch {
		case walk.err != nil || dump.err != nil || cbArgType == nil || decType == nil:
			r.Unknown("R13.2", cons, "Walk callback argument or decode target type not found")
		case !encodesParam:
			r.Bad("R13.2", cons, "dump-re-encodes", "-", "Dump hands the encoder neither the walked entry itself nor a faithful copy {K: Key(), V: Value(), E: ts(ExpireAt())} of it", nil)
		default:
			pt, isPtr := cbArgType.Underlying().(*types.Pointer)
			if !isPtr || namedTypeName(pt.Elem()) != namedTypeName(decType) || namedTypeName(decType) != b.Entry {
				r.Bad("R13.2", cons, "wire-type-mismatch", "-", fmt.Sprintf("Walk hands out %s, Restore decodes %s", typeName(cbArgType), typeName(decType)), nil)
			} else {
				st, _ := decType.Underlying().(*types.Struct)
				okFields := 0
				if st != nil {
					for i := 0; i < st.NumFields(); i++ {
						f := st.Field(i)
						if f.Exported() && (f.Name() == "K" || f.Name() == "V" || f.Name() == "E") {
							okFields++
						}
					}
				}
				if okFields != 3 {
					r.Bad("R13.2", cons, "fields-not-exported", "-", "K, V, E must be exported fields of the wire type", nil)
				} else {
					r.OK("R13.2", cons, fmt.Sprintf("both sides use %s with exported K, V, E", b.Entry))
				}
			}
		}
		// R13.3 counts ------------------------------------------------------------------------
		c.c13Counts(b, decodeTarget)
		// R13.4 -------------------------------------------------------------------------------
		c.withAlias(map[string]string{"R07.1": "R13.4"}, func() { c.c13RestoreIndex(b) })
	}
	c.c13ShardMaps()
	c.c13Adapter()
	// Restore returns: the shard lock taken for a record is released before the next record is handled (C08 R08.5)
	c.borrowKinds("C08", func() {
		for _, b := range backends {
			c.c08Backend(b)
		}
		c.c08DeferredUnlockInLoop()
	}, "R13.3", "Restore:lock-per-record", []string{"R08.5"}, "deferred-unlock-in-loop", "lock-leak", "relock")
	// relaying caches through HTTPTransfer: each fetched dump is restored into the cache it was requested for (C14 R14.2)
	c.borrow("C14", func() {
		c.c14Import()
		c.c14Export() // … and the exporter serves every request that names a registered cache and carries the current hash (R14.1)
		c.rangeVarCapturedByGo("R14.2", func(name string) bool { return strings.HasPrefix(name, "HTTPTransfer.") })
	}, func(o *coreObl) (string, bool) { return "R13.7", o.Rule == "R14.2" || o.Rule == "R14.1" })
	// what Dump walks after an ExpireAll are the replacement entries: they keep key and value
	for _, b := range backends {
		c.replacedEntryKeeps(b, "R13.6", "K", "V")
	}
}

func typeName(t types.Type) string {
	return types.TypeString(t, func(p *types.Package) string { return "" })
}

// c13RestoreIndex re-uses R07.1 restricted to Restore.
func (c *Ctx) c13RestoreIndex(b BK) {
	sub := *c
	_ = sub
	r := c.R
	// run the index rule into a scratch report and keep only Restore's obligations
	save := r.Obls
	r.Obls = nil
	c.c07Index(b)
	var keep []*coreObl
	for _, o := range r.Obls {
		if strings.HasSuffix(o.Construct, ".Restore") {
			keep = append(keep, o)
		}
	}
	r.Obls = append(save, keep...)
}

// aliasesErr: a is b or a wrap of b through fmt.Errorf.
func aliasesErr(a, b *pw.Val) bool {
	if a == b {
		return true
	}
	if a != nil && a.Kind == pw.KCall && a.Ev != nil && a.Ev.Callee != nil && pw.FuncName(a.Ev.Callee) == "fmt.Errorf" {
		for _, x := range a.Ev.Args {
			if x == b {
				return true
			}
			for _, el := range x.Elems {
				if el == b {
					return true
				}
			}
		}
	}
	return false
}

// c13Adapter: the WalkDumpRestorer adapter of the generic map dumps and restores through the map's own Dump/Restore (the typed wire
// format): its Dumper and Restorer are the map itself.
func (c *Ctx) c13Adapter() {
	r := c.R
	name := "ShardedMapOf.WalkDumpRestorer"
	e, paths, _, err := c.runFunc(name, pw.Policy{Inline: inlineUnexported, MaxDepth: 2})
	if err != nil {
		r.Unknown("R13.2", name, err.Error())
		return
	}
	var recv *pw.Val
	for obj, v := range e.Params {
		if namedTypeName(obj.Type()) == "ShardedMapOf" {
			recv = v
		}
	}
	bad := false
	for _, p := range paths {
		got := map[string]*pw.Val{}
		for _, ev := range p.Events {
			if ev.Kind == pw.EvFieldWrite && ev.Field != nil && (ev.Field.Name() == "Dumper" || ev.Field.Name() == "Restorer") {
				got[ev.Field.Name()] = ev.Value
			}
		}
		if len(p.Ret) == 1 {
			if lit := pointee(p.Ret[0]); lit != nil && lit.Kind == pw.KAlloc {
				for _, f := range []string{"Dumper", "Restorer"} {
					if fv := lit.Fields[f]; fv != nil && got[f] == nil {
						got[f] = fv
					}
				}
			}
		}
		for _, f := range []string{"Dumper", "Restorer"} {
			v := got[f]
			for v != nil && v.Kind == pw.KConv {
				v = v.Src
			}
			if v == nil || recv == nil || v != recv {
				bad = true
				r.Bad("R13.2", name, "adapter-"+strings.ToLower(f), c.Pos(p.RetPos), "the adapter's "+f+" is not the generic map itself: dumps taken through the adapter are not in the wire format the map's Restore reads (and typed nil values do not survive an interface{} field)", shortTrace(p))
			}
		}
		if bad {
			break
		}
	}
	if !bad {
		r.OK("R13.2", name, "Dumper and Restorer are the map itself")
	}
}

// c13ShardMaps: Restore (like Write) inserts into a shard's map without a nil check, so the map of a shard is only ever assigned a
// freshly made map — never nil or a map shared with another owner — by whoever assigns it (constructor, DeleteAll).
func (c *Ctx) c13ShardMaps() {
	r := c.R
	info := c.Pkg.TypesInfo
	n, bad := 0, false
	var notFresh []string
	c.eachFuncDecl(func(fd *ast.FuncDecl, fn *types.Func) {
		encl := strings.TrimPrefix(pw.FuncName(fn), "cache.")
		ast.Inspect(fd.Body, func(nd ast.Node) bool {
			as, ok := nd.(*ast.AssignStmt)
			if !ok || len(as.Lhs) != len(as.Rhs) {
				return true
			}
			for i, l := range as.Lhs {
				sel, ok := ast.Unparen(l).(*ast.SelectorExpr)
				if !ok {
					continue
				}
				s := info.Selections[sel]
				if s == nil || s.Kind() != types.FieldVal || selFieldName(s) != "data" {
					continue
				}
				if _, isMap := s.Obj().Type().Underlying().(*types.Map); !isMap {
					continue
				}
				n++
				fresh := false
				switch rhs := ast.Unparen(as.Rhs[i]).(type) {
				case *ast.CallExpr:
					if id, ok := rhs.Fun.(*ast.Ident); ok && id.Name == "make" {
						fresh = true
					}
				case *ast.CompositeLit:
					fresh = true
				}
				if !fresh {
					notFresh = append(notFresh, encl+" at "+c.Pos(as.Pos()))
				}
			}
			return true
		})
	})
	if len(notFresh) > 0 {
		// lazily allocated shard maps are fine when every inserting function checks for nil first
		c.eachFuncDecl(func(fd *ast.FuncDecl, fn *types.Func) {
			encl := strings.TrimPrefix(pw.FuncName(fn), "cache.")
			isData := func(e ast.Expr) bool {
				sel, ok := ast.Unparen(e).(*ast.SelectorExpr)
				if !ok {
					return false
				}
				s := info.Selections[sel]
				if s == nil || s.Kind() != types.FieldVal || selFieldName(s) != "data" {
					return false
				}
				_, isMap := s.Obj().Type().Underlying().(*types.Map)
				return isMap
			}
			var insert ast.Node
			nilCheck := false
			// inserts inside a range over the same map only run when it is non-empty, hence non-nil
			var ranges []*ast.RangeStmt
			ast.Inspect(fd.Body, func(nd ast.Node) bool {
				if rs, ok := nd.(*ast.RangeStmt); ok && isData(rs.X) {
					ranges = append(ranges, rs)
				}
				return true
			})
			ast.Inspect(fd.Body, func(nd ast.Node) bool {
				switch x := nd.(type) {
				case *ast.AssignStmt:
					for _, l := range x.Lhs {
						if ix, ok := ast.Unparen(l).(*ast.IndexExpr); ok && isData(ix.X) {
							inRange := false
							for _, rs := range ranges {
								if x.Pos() >= rs.Body.Pos() && x.End() <= rs.Body.End() {
									inRange = true
								}
							}
							if !inRange {
								insert = x
							}
						}
					}
				case *ast.BinaryExpr:
					if id, ok := ast.Unparen(x.Y).(*ast.Ident); ok && id.Name == "nil" && isData(x.X) {
						nilCheck = true
					}
				}
				return true
			})
			if insert != nil && !nilCheck {
				bad = true
				r.Bad("R13.4", encl, "insert-into-possibly-nil-map", c.Pos(insert.Pos()), "a shard's map is assigned something other than a freshly made map ("+strings.Join(notFresh, "; ")+") while this function inserts into it without a nil check", nil)
			}
		})
	}
	if n == 0 {
		r.Unknown("R13.4", "package:shard-maps", "no assignment to a shard map found")
	} else if !bad {
		r.OK("R13.4", "package:shard-maps", fmt.Sprintf("%d assignments to shard maps, %d not fresh; every inserting function is safe", n, len(notFresh)))
	}
}

func (c *Ctx) c13Counts(b BK, decodeTarget types.Object) {
	r := c.R
	// Dump returns exactly Walk's results
	name := b.Wrapper + ".Dump"
	dump := c.bk(b, name, false)
	if dump.err != nil {
		r.Unknown("R13.3", name, dump.err.Error())
	} else {
		ok := len(dump.paths) > 0
		for _, p := range dump.paths {
			if len(p.Ret) != 2 || p.Ret[0].Kind != pw.KCall || p.Ret[0].Ev == nil || p.Ret[1].Ev != p.Ret[0].Ev {
				// Walk is inlined (same receiver family): the count is Walk's own n
				w := false
				for _, ev := range p.Events {
					if ev.Kind == pw.EvExit && ev.Fn != nil && strings.HasSuffix(pw.FuncName(ev.Fn), ".Walk") && len(ev.Results) == 2 && len(p.Ret) == 2 && ev.Results[0] == p.Ret[0] && ev.Results[1] == p.Ret[1] {
						w = true
					}
				}
				if !w {
					ok = false
				}
			}
		}
		if ok {
			r.OK("R13.3", name, "returns Walk's count and error")
		} else {
			r.Bad("R13.3", name, "dump-count", "-", "Dump does not return Walk's count", nil)
		}
	}
	// Walk: +1 per successful callback
	wnames := []string{b.Name + ".Walk"}
	if b.Name == "shardedMapOf" {
		// the interface{}-typed Walker adapter of the generic map (reached through WalkDumpRestorer) has a loop of its own
		if fd, _ := c.funcDecl("shardedMapLegacyWalkerOf.Walk"); fd != nil {
			wnames = append(wnames, "shardedMapLegacyWalkerOf.Walk")
		}
	}
	for _, wname := range wnames {
		run := c.bk(b, wname, false)
		if run.err != nil {
			r.Unknown("R13.3", wname, run.err.Error())
			continue
		}
		n, bad := 0, false
		// local lists into which some path appends the iterated entries (snapshot form of Walk)
		collectedIn := map[types.Object]bool{}
		collectedVal := map[*pw.Val]bool{}
		for _, p := range run.paths {
			for _, g := range iterations(p) {
				if !g.inner || !g.overData {
					continue
				}
				for _, ev := range g.events {
					if ev.Kind == pw.EvAssign && ev.Value != nil && ev.Value.Kind == pw.KAppend && ev.Obj != nil {
						for _, el := range ev.Value.Elems {
							for el != nil && (el.Kind == pw.KConv || el.Kind == pw.KAssert) {
								el = el.Src
							}
							if el != nil && (el.Kind == pw.KRangeVal || el.Kind == pw.KParam && g.begin.Note == "Range") {
								collectedIn[ev.Obj] = true
								for x, i := ev.Value.Src, 0; x != nil && i < 8; x, i = x.Src, i+1 {
									collectedVal[x] = true
								}
							}
						}
					}
				}
			}
		}
		if b.Sharded {
			if _, ok := c.shardCoverage("R13.3", wname, run.paths, false); !ok {
				bad = true
			}
		}
		for _, p := range run.paths {
			if ev := countersStartAtZero(p); ev != nil {
				r.Bad("R13.3", wname, "counter-not-zero", c.Pos(ev.Pos), "the entry counter does not start at 0", shortTrace(p))
				bad = true
			}
			// the walk continues after a successful callback and stops (reporting the error) after a failing one
			var cbErr *pw.Val
			for _, ev := range p.Events {
				if ev.Kind == pw.EvCall && strings.HasPrefix(ev.Role, "DynParam:") && len(ev.Results) == 1 {
					cbErr = ev.Results[0]
				}
				if ev.Kind == pw.EvLoopEnd && ev.Note == "break" {
					r.Bad("R13.3", wname, "walk-stops-early", c.Pos(ev.Pos), "Walk leaves a loop early", shortTrace(p))
					bad = true
				}
				if ev.Kind == pw.EvExit && ev.FnLit != nil && len(ev.Results) == 1 && cbErr != nil {
					cont, known := p.Truth(ev.Results[0])
					errNil := nilTri(p, cbErr)
					if known && errNil == triTrue && !cont {
						r.Bad("R13.3", wname, "walk-stops-early", c.Pos(ev.Pos), "the Range callback returns false after a successful callback: Walk visits only the first entry", shortTrace(p))
						bad = true
					}
					if known && errNil == triFalse && cont {
						r.Bad("R13.3", wname, "walk-continues-after-error", c.Pos(ev.Pos), "Walk continues after the callback failed (the documented contract is to fail on the first error)", shortTrace(p))
						bad = true
					}
				}
			}
			if cbErr != nil && len(p.Ret) == 2 && nilTri(p, cbErr) == triFalse {
				if isNil, known := p.NilFact(p.Ret[1]); known && isNil {
					r.Bad("R13.3", wname, "walk-error-dropped", c.Pos(p.RetPos), "the callback's error is not returned by Walk", shortTrace(p))
					bad = true
				}
			}
			for _, g := range iterations(p) {
				if !g.inner {
					continue
				}
				var cb *pw.Event
				incs := 0
				for _, ev := range g.events {
					if ev.Kind == pw.EvCall && strings.HasPrefix(ev.Role, "DynParam:") {
						cb = ev
					}
					if isIncrement(ev) && !(ev.Obj != nil && ev.Obj.Name() == "i") {
						incs++
					}
				}
				if cb == nil {
					if g.overData {
						// snapshot form: the iterated entry is appended to a local list that a later loop hands to the callback
						collected := false
						for _, ev := range g.events {
							if ev.Kind == pw.EvAssign && ev.Value != nil && ev.Value.Kind == pw.KAppend && ev.Obj != nil {
								for _, el := range ev.Value.Elems {
									for el != nil && (el.Kind == pw.KConv || el.Kind == pw.KAssert) {
										el = el.Src
									}
									if el != nil && (el.Kind == pw.KRangeVal || el.Kind == pw.KParam && g.begin.Note == "Range") {
										collected = true
										collectedIn[ev.Obj] = true
									}
								}
							}
						}
						if !collected {
							r.Bad("R13.3", wname, "entry-not-visited", c.Pos(g.begin.Pos), "an iterated entry is not handed to the callback", shortTrace(p))
							bad = true
						}
					}
					continue
				}
				n++
				if len(cb.Args) == 1 {
					a := cb.Args[0]
					for a != nil && (a.Kind == pw.KConv || a.Kind == pw.KAssert) {
						a = a.Src
					}
					fromCollected := func(v *pw.Val) bool {
						for i := 0; v != nil && i < 8; i++ {
							if v.Obj != nil && collectedIn[v.Obj] || collectedVal[v] {
								return true
							}
							v = v.Src
						}
						return false
					}
					// a faithful copy built for the callback (the adapter converts the typed entry into the interface{} one): a fresh
					// literal whose K, V and E are the iterated entry's own
					faithful := false
					if lit := pointee(a); lit != nil && (lit.Kind == pw.KAlloc || lit.Kind == pw.KZero) {
						faithful = true
						for _, f := range []string{"K", "V", "E"} {
							fv := p.FieldOf(lit, f)
							if fv == nil || fv.Kind != pw.KField || fv.Field == nil || fname(fv.Field) != f || fv.Src == nil || fv.Src.Kind != pw.KRangeVal {
								faithful = false
							}
						}
					}
					if !faithful && !(a != nil && (a.Kind == pw.KRangeVal && (g.overData || fromCollected(a.Src)) || a.Kind == pw.KParam && g.begin.Note == "Range")) {
						r.Bad("R13.3", wname, "walk-argument", c.Pos(cb.Pos), "the callback is not given the iterated stored entry", shortTrace(p))
						bad = true
					}
				}
				errNil := nilTri(p, cb.Results[0])
				want := 1
				if errNil == triFalse {
					want = 0
				}
				if errNil == triUnknown || incs != want {
					r.Bad("R13.3", wname, "walk-count", c.Pos(cb.Pos), fmt.Sprintf("callback error nil=%v but the counter is incremented %d times in that iteration", errNil == triTrue, incs), shortTrace(p))
					bad = true
				}
			}
		}
		if n == 0 {
			r.Unknown("R13.3", wname, "no callback iteration found")
		} else if !bad {
			r.OK("R13.3", wname, fmt.Sprintf("%d callback iterations: +1 exactly on success", n))
		}
	}
	// Restore: +1 per stored record, returns the counter
	rname := b.Wrapper + ".Restore"
	run := c.bk(b, rname, false)
	if run.err != nil {
		r.Unknown("R13.3", rname, run.err.Error())
		return
	}
	n, bad := 0, false
	for _, p := range run.paths {
		if ev := countersStartAtZero(p); ev != nil {
			r.Bad("R13.3", rname, "counter-not-zero", c.Pos(ev.Pos), "the record counter does not start at 0", shortTrace(p))
			bad = true
		}
		// the counter is what is returned
		if len(p.Ret) == 2 {
			rv := p.Ret[0]
			if !(rv.Kind == pw.KHavoc || rv.Kind == pw.KArith || rv.Kind == pw.KConst && rv.Const != nil && rv.Const.ExactString() == "0" || rv.Kind == pw.KZero) {
				r.Bad("R13.3", rname, "returns-other-count", c.Pos(p.RetPos), "Restore does not return its record counter", shortTrace(p))
				bad = true
			}
		}
		for _, g := range iterations(p) {
			if !g.inner {
				continue
			}
			stores, incs := 0, 0
			for _, ev := range g.events {
				if b.Sharded && ev.Kind == pw.EvMapInsert && isShardData(ev) || !b.Sharded && isSyncStore(p, ev) {
					stores++
				}
				if isIncrement(ev) {
					incs++
				}
			}
			n++
			_ = 0
			for _, ev := range g.events {
				if ev.Kind == pw.EvCall && strings.HasSuffix(ev.Role, "gob.Decoder.Decode") && len(ev.Results) == 1 && nilTri(p, ev.Results[0]) == triTrue && stores == 0 {
					r.Bad("R13.3", rname, "decoded-record-dropped", c.Pos(g.begin.Pos), "a record that was decoded successfully is not stored: the restored cache misses entries of the dump", shortTrace(p))
					bad = true
				}
			}
			if stores != incs || stores > 1 {
				r.Bad("R13.3", rname, "restore-count", c.Pos(g.begin.Pos), fmt.Sprintf("iteration stores %d records and increments the counter %d times", stores, incs), shortTrace(p))
				bad = true
			}
		}
	}
	// a record that fails to decode ends the restore (error returned, or the loop left at the end of the input): going on to the
	// next record after a failure spins for ever on a persistent reader error and hides a broken dump
	for _, p := range run.paths {
		if bad {
			break
		}
		for i, ev := range p.Events {
			if ev.Kind != pw.EvCall || !strings.HasSuffix(ev.Role, "gob.Decoder.Decode") || len(ev.Results) != 1 || nilTri(p, ev.Results[0]) != triFalse {
				continue
			}
			for _, later := range p.Events[i+1:] {
				if later.Kind == pw.EvReturn {
					break
				}
				if later.Kind == pw.EvLoopEnd {
					if later.Note != "break" {
						r.Bad("R13.3", rname, "decode-error-swallowed", c.Pos(ev.Pos), "after a record failed to decode the loop goes on to the next record instead of ending the restore", shortTrace(p))
						bad = true
					}
					break
				}
			}
		}
	}
	// Restore reads the dump to its end: it stops only because a record failed to decode (end of input included) — a loop that is left
	// for another reason (a size cap, a deadline) restores a prefix of the dump and reports fewer entries than were dumped
	for _, p := range run.paths {
		if bad || p.Panic || c.featurePath(p) {
			continue
		}
		failed, decodes := false, 0
		// how the path leaves the decode loop: by break / return (the code's own exit) or because the walk stops after one iteration
		// (a `for {}` has no exit of its own there: not judged)
		ownExit, inLoop := false, 0
		for _, ev := range p.Events {
			switch {
			case ev.Kind == pw.EvLoopBegin:
				inLoop++
				ownExit = false
			case ev.Kind == pw.EvLoopEnd:
				inLoop--
				ownExit = ev.Note == "break"
			case ev.Kind == pw.EvReturn && inLoop > 0:
				ownExit = true
			}
			if ev.Kind == pw.EvCall && strings.HasSuffix(ev.Role, "gob.Decoder.Decode") && len(ev.Results) == 1 {
				decodes++
				if nilTri(p, ev.Results[0]) != triTrue {
					failed = true
				}
			}
		}
		if !failed && ownExit {
			r.Bad("R13.3", rname, "restore-stops-before-end-of-input", c.Pos(p.RetPos), fmt.Sprintf("Restore returns on a path on which no Decode failed (%d succeeded): the rest of the dump is never read", decodes), shortTrace(p))
			bad = true
		}
	}
	// … the path walk takes a loop body once, so an exit that needs a second iteration (n >= limit) is never walked: on the syntax
	// tree every break out of / return from inside the decode loop sits under a condition that mentions an error value
	if fd, _ := c.funcDecl(rname); fd != nil && !bad {
		info := c.Pkg.TypesInfo
		for _, bd := range c.reachBodies(fd, 2) {
			var stack []ast.Node
			var loop *ast.ForStmt
			isDecode := func(n ast.Node) bool {
				found := false
				ast.Inspect(n, func(x ast.Node) bool {
					if call, ok := x.(*ast.CallExpr); ok {
						if sel, ok := ast.Unparen(call.Fun).(*ast.SelectorExpr); ok && sel.Sel.Name == "Decode" {
							if t := info.TypeOf(sel.X); t != nil && strings.HasSuffix(types.TypeString(t, nil), "gob.Decoder") {
								found = true
							}
						}
					}
					return !found
				})
				return found
			}
			mentionsErr := func(e ast.Expr) bool {
				found := false
				ast.Inspect(e, func(x ast.Node) bool {
					if ex, ok := x.(ast.Expr); ok {
						if t := info.TypeOf(ex); t != nil && types.TypeString(t, nil) == "error" {
							found = true
						}
					}
					return !found
				})
				return found
			}
			var visit func(n ast.Node) bool
			visit = func(n ast.Node) bool {
				if _, isLit := n.(*ast.FuncLit); isLit {
					return false
				}
				stack = append(stack, n)
				if fs, ok := n.(*ast.ForStmt); ok && loop == nil && fs.Cond == nil && isDecode(fs.Body) {
					loop = fs
				}
				if loop == nil {
					return true
				}
				exit := false
				switch x := n.(type) {
				case *ast.ReturnStmt:
					exit = true
				case *ast.BranchStmt:
					if x.Tok == token.BREAK {
						// does it leave the decode loop? nearest enclosing breakable statement
						for i := len(stack) - 2; i >= 0; i-- {
							switch stack[i].(type) {
							case *ast.ForStmt, *ast.RangeStmt, *ast.SwitchStmt, *ast.TypeSwitchStmt, *ast.SelectStmt:
								exit = stack[i] == ast.Node(loop) || x.Label != nil
								i = -1
							}
						}
					}
				}
				if exit {
					within, justified := false, false
					for _, a := range stack {
						if a == ast.Node(loop) {
							within = true
						}
						if ifs, ok := a.(*ast.IfStmt); ok && within && mentionsErr(ifs.Cond) {
							justified = true
						}
						// the switch form of the same test: a case that mentions the error, or the default of a switch over it
						if sw, ok := a.(*ast.SwitchStmt); ok && within {
							if sw.Tag != nil && mentionsErr(sw.Tag) {
								justified = true
							}
							for _, cc := range sw.Body.List {
								for _, ce := range cc.(*ast.CaseClause).List {
									if mentionsErr(ce) {
										justified = true
									}
								}
							}
						}
					}
					if within && !justified {
						r.Bad("R13.3", rname, "restore-stops-before-end-of-input", c.Pos(n.Pos()), "the decode loop is left under a condition that does not mention an error: Restore stops although the input has more records, the rest of the dump is never read", nil)
						bad = true
					}
				}
				return true
			}
			ast.Inspect(bd.Body, func(n ast.Node) bool {
				if n == nil {
					if len(stack) > 0 {
						if stack[len(stack)-1] == ast.Node(loop) {
							loop = nil
						}
						stack = stack[:len(stack)-1]
					}
					return true
				}
				return visit(n)
			})
		}
	}
	// the end of the input is not an error: an error returned by Restore has been found not to be io.EOF on that path (the dump of an
	// empty cache is zero bytes: it restores to (0, nil))
	for _, p := range run.paths {
		if len(p.Ret) != 2 {
			continue
		}
		if isNil, known := p.NilFact(p.Ret[1]); !known || isNil {
			continue
		}
		notEOF := false
		// an error made here (errors.New, fmt.Errorf that wraps nothing) is not io.EOF
		if rv := p.Ret[1]; rv.Kind == pw.KCall && rv.Ev != nil && rv.Ev.Callee != nil {
			switch pw.FuncName(rv.Ev.Callee) {
			case "errors.New":
				notEOF = true
			case "fmt.Errorf":
				wraps := false
				for _, x := range rv.Ev.Args {
					for _, el := range append([]*pw.Val{x}, x.Elems...) {
						if el != nil && el.Type != nil && types.TypeString(el.Type, nil) == "error" {
							wraps = true
						}
					}
				}
				notEOF = !wraps
			}
		}
		for _, ev := range p.Events {
			if ev.Kind == pw.EvCall && ev.Callee != nil && pw.FuncName(ev.Callee) == "errors.Is" && len(ev.Args) == 2 && len(ev.Results) == 1 {
				if a := ev.Args[1]; a != nil && a.Obj != nil && a.Obj.Name() == "EOF" {
					if t, known := p.Truth(ev.Results[0]); known && !t && (ev.Args[0] == p.Ret[1] || aliasesErr(p.Ret[1], ev.Args[0])) {
						notEOF = true
					}
				}
			}
		}
		if !notEOF {
			r.Bad("R13.3", rname, "eof-returned-as-error", c.Pos(p.RetPos), "Restore returns an error that was not found to differ from io.EOF: the end of the dump (e.g. the empty dump of an empty cache) is reported as a failure", shortTrace(p))
			bad = true
			break
		}
	}
	if n == 0 {
		r.Unknown("R13.3", rname, "no decoding iteration found")
	} else if !bad {
		r.OK("R13.3", rname, fmt.Sprintf("%d iterations: counter follows stores", n))
	}
}

// isWalkedEntry: v is the entry handed out by Walk (an iterated storage value), or an entry literal rebuilt from its
// accessors field by field (K: Key(), V: Value(), E: ts(ExpireAt()) — the identity given R13.5).
func (c *Ctx) isWalkedEntry(v *pw.Val, b BK) bool {
	strip := func(x *pw.Val) *pw.Val {
		for x != nil && (x.Kind == pw.KConv || x.Kind == pw.KAssert) {
			x = x.Src
		}
		return x
	}
	iterated := func(x *pw.Val) bool {
		x = strip(x)
		return x != nil && x.Kind == pw.KRangeVal
	}
	v = strip(v)
	if iterated(v) {
		return true
	}
	a := pointee(v)
	if a == nil || a.Kind != pw.KAlloc || namedTypeName(a.Type) != b.Entry {
		return false
	}
	acc := func(f *pw.Val, method string) bool {
		f = strip(f)
		return f != nil && f.Kind == pw.KCall && f.Ev != nil && f.Ev.Callee != nil && f.Ev.Callee.Name() == method && iterated(f.Ev.Recv)
	}
	e := strip(a.Fields["E"])
	okE := e != nil && e.Kind == pw.KCall && e.Ev.Role == "Std:time.Time.UnixNano" && acc(e.Ev.Recv, "ExpireAt")
	if !okE && e != nil && e.Kind == pw.KField && e.Field != nil && fname(e.Field) == "E" && iterated(e.Src) {
		okE = true
	}
	field := func(name, method string) bool {
		f := strip(a.Fields[name])
		if f != nil && f.Kind == pw.KField && f.Field != nil && fname(f.Field) == name && iterated(f.Src) {
			return true
		}
		return acc(f, method)
	}
	return okE && field("K", "Key") && field("V", "Value")
}
