package rules

import (
	"fmt"
	"go/ast"
	"go/types"
	"strings"

	"cachelint/pw"
)

func init() { register("C02", checkC02) }

type prov struct {
	tag string
	ok  bool
	why string
}

// valueProv classifies the provenance of a value returned or published by Get.
func (fo *FO) valueProv(p *pw.Path, evs []*pw.Event, cl *foClass, v *pw.Val) prov {
	// p supplies the facts (for spawned closures: the sub-path, which extends the spawning path's facts).
	if v == nil {
		return prov{"none", false, "no value"}
	}
	switch v.Kind {
	case pw.KCall:
		ev := v.Ev
		switch {
		case ev.Role == "BackendRead" && v.Idx == 0:
			if len(ev.Results) > 1 {
				isNil, known := p.NilFact(ev.Results[1])
				if known && isNil {
					return prov{"ReadVal", true, ""}
				}
				if known && !isNil {
					return prov{"ReadZero", false, "value result of a backend read that failed (the zero value by the Reader contract, nobody produced it)"}
				}
			}
			return prov{"ReadVal-unchecked", false, "backend value used although the read error is not known to be nil on this path"}
		case ev.Role == "StaleValue" && v.Idx == 0:
			r := ev.Recv
			if r != nil && r.Kind == pw.KAsTarget && r.Src != nil && r.Src.Kind == pw.KCall && r.Src.Ev.Role == "BackendRead" && r.Src.Idx == 1 {
				if t, known := p.Truth(r.Src2); known && t {
					return prov{"Stale", true, ""}
				}
				return prov{"Stale-unchecked", false, "expired value taken although errors.As did not succeed on this path"}
			}
			return prov{"Stale-foreign", false, "expired value is not taken from this call's backend read error"}
		case isBuilderCall(fo, ev) && v.Idx == 0:
			if len(ev.Results) > 1 {
				if isNil, known := p.NilFact(ev.Results[1]); known && isNil {
					return prov{"Built", true, ""}
				}
			}
			return prov{"Built-unchecked", false, "builder value used although the builder error is not known to be nil on this path"}
		}
	case pw.KField:
		if v.Field != nil && fname(v.Field) == "val" && cl != nil && cl.found && v.Src == cl.kl {
			if fo.readAfterRecv(evs, cl, v) {
				return prov{"Published", true, ""}
			}
			return prov{"Published-early", false, "key lock value read before the owner signalled completion"}
		}
	case pw.KZero:
		return prov{"Zero", false, "zero value of a variable that was never assigned on this path"}
	case pw.KConst:
		if v.IsNil {
			return prov{"Zero", false, "nil literal"}
		}
	}
	return prov{"Unknown(" + v.Kind.String() + ")", false, "value of unknown provenance: " + v.String()}
}

// readAfterRecv: the field read producing v happens after a receive on the same entry's channel.
func (fo *FO) readAfterRecv(evs []*pw.Event, cl *foClass, v *pw.Val) bool {
	recv := false
	for _, ev := range evs {
		if ev.Kind == pw.EvRecv && ev.Field != nil && fname(ev.Field) == "lock" && ev.Key == cl.kl {
			recv = true
		}
		if ev.Kind == pw.EvFieldRead && ev.Value == v {
			return recv
		}
	}
	return false
}

// errProv classifies a returned error that is known to be non-nil (or may be).
func (fo *FO) errProv(p *pw.Path, evs []*pw.Event, cl *foClass, v *pw.Val, depth int) prov {
	if v == nil || depth > 4 {
		return prov{"none", false, "no error value"}
	}
	switch v.Kind {
	case pw.KCall:
		ev := v.Ev
		switch {
		case ev.Role == "BackendRead" && v.Idx == 1:
			return prov{"ReadErr", true, ""}
		case ev.Role == "BackendWrite" && v.Idx == 0:
			return prov{"WriteErr", true, ""}
		case ev.Role == "ErrorsRead" && v.Idx == 0:
			return prov{"CachedFailure", true, ""}
		case isBuilderCall(fo, ev) && v.Idx == 1:
			return prov{"BuildErr", true, ""}
		case ev.Role == "Std:fmt.Errorf" || ev.Role == "Std:errors.Join":
			for _, a := range ev.Args {
				if a.Kind == pw.KAlloc {
					for _, el := range a.Elems {
						if pr := fo.errProv(p, evs, cl, el, depth+1); pr.ok {
							return prov{"Wrapped(" + pr.tag + ")", true, ""}
						}
					}
				}
				if pr := fo.errProv(p, evs, cl, a, depth+1); pr.ok {
					return prov{"Wrapped(" + pr.tag + ")", true, ""}
				}
			}
		}
	case pw.KAssert, pw.KConv:
		return fo.errProv(p, evs, cl, v.Src, depth+1)
	case pw.KField:
		if v.Field != nil && fname(v.Field) == "err" && cl != nil && cl.found && v.Src == cl.kl {
			if fo.readAfterRecv(evs, cl, v) {
				return prov{"Published", true, ""}
			}
		}
	}
	return prov{"Unknown(" + v.Kind.String() + ")", false, "error of unknown origin: " + v.String()}
}

func checkC02(c *Ctx) {
	r := c.R
	r.Explanation = "Static provenance analysis on every feasible path of Failover.Get / FailoverOf.Get (helpers inlined). Each returned " +
		"(value, error) pair and each pair published to waiters through the key lock is traced back to its source event. Decides: " +
		"(R02.1) a value returned with a possibly-nil error is the backend's value under a nil read error, the expired item carried by " +
		"this call's own read error, a builder result under a nil builder error, or the owner's published pair read after the completion " +
		"signal; (R02.2) on every owner exit the published pair is complete before the release; (R02.3) every backend, failure-cache and " +
		"key-lock operation reached from Get is keyed by this call's key; (R02.4) every non-nil error returned comes from the backend, " +
		"the builder, the failure cache or the owner. Does not decide that a user backend returns what was stored, nor run-time equality."
	r.Rule("R02.1", "no fabricated success: value returned with a possibly-nil error has legitimate provenance", 2)
	r.Rule("R02.2", "complete publication: at every owner release the (val, err) pair visible to waiters is (legit value, nil) or (·, non-nil error)", 2)
	r.Rule("R02.3", "key threading: every keyed call-out uses this invocation's key (or a private copy of it)", 2)
	r.Rule("R02.4", "errors have a source: backend, builder, failure cache, refresh write, or the owner's published error", 2)
	r.Rule("R02.6", "the backend Get reads from and writes to is the configured one (a default one only when none was configured)", 2)
	r.Rule("R02.5", "the default backends keep keys apart: Write stores a private copy of the key it was given; a hash hit is confirmed by the full key", 6)
	r.Assumptions = []string{
		"a backend Read that returns a non-nil error returns no usable value (checked for in-module backends by C07 rules)",
		"an error cannot both carry an expired item and be ErrNotFound (errExpired.Is matches ErrExpired only)",
		"errors.Is/As on a nil error are false",
	}
	r.NotDecided = []string{"user backends returning wrong values", "value equality at run time"}
	for _, sib := range siblings {
		fo := c.failover(sib)
		if fo.Err != nil {
			r.Unknown("R02.*", sib+".Get", fo.Err.Error())
			continue
		}
		c.c02Sibling(fo)
	}
	c.c02NoRecover()
	// R02.5: the default backends keep keys apart (a value stored for one key is never found under another)
	c.borrow("C09", func() {
		for _, b := range backends {
			c.c09WriteCopies(b) // also the sync.Map backend: its stored K is what Dump/Walk/eviction (and so a restored cache) go by
			if b.Sharded {
				c.c09Confirm(b)
			}
		}
	}, func(o *coreObl) (string, bool) { return "R02.5", o.Rule == "R09.2" || o.Rule == "R09.3" })
	// the key lock a waiter finds is this key's: the table is keyed by the full key, not by a digest of it (C01 R01.2/R01.5) —
	// otherwise a waiter returns the value built for a colliding key
	for _, sib := range siblings {
		if fo := c.failover(sib); fo.Err == nil {
			fo := fo
			c.borrowKinds("C01", func() { c.c01Sibling(fo) }, "R02.3", sib+".Get:key-lock-table", []string{"R01.2", "R01.5"}, "insert-key", "lookup-key", "release-key")
			// what a waiter reads after the release is the entry it waited on: entries are fresh per election, never recycled
			c.borrowKinds("C01", func() { c.c01Sibling(fo) }, "R02.2", sib+".Get:key-lock-entry", []string{"R01.2"}, "insert-not-fresh-entry")
			// the publication is judged where the owner releases the key lock: exactly once, at the end of the owner's own path (main or
			// background) — a release handed to a timer or another goroutine can fire while val/err are still unset (C01 R01.4)
			c.borrowKinds("C01", func() { c.c01Sibling(fo) }, "R02.2", sib+".Get:release-at-end-of-owner-path", []string{"R01.4"}, "missing-release", "double-release")
		}
	}
	// R02.5 also for restored entries: every decoded record gets storage of its own (a re-used decode target leaves fields of the
	// previous record in the next one: Get then returns a value assembled from another key's) (C13 R13.1)
	c.borrowKinds("C13", func() { checkC13(c) }, "R02.5", "Restore:own-storage-per-record", []string{"R13.1"}, "decode-target-reused")
	// R02.6: "a value found in the backend": the backend is the one the Failover was configured with
	c.c04CtorWiring("R02.6", true)
}

// c02NoRecover: a recover() in the frontend turns a panicking builder into a return of whatever the results hold — for
// unnamed results the zero value and a nil error.
func (c *Ctx) c02NoRecover() {
	r := c.R
	info := c.Pkg.TypesInfo
	n := 0
	c.eachFuncDecl(func(fd *ast.FuncDecl, fn *types.Func) {
		if !sameRecvNamed(fn, "Failover") && !sameRecvNamed(fn, "FailoverOf") {
			return
		}
		n++
		ast.Inspect(fd.Body, func(x ast.Node) bool {
			call, ok := x.(*ast.CallExpr)
			if !ok {
				return true
			}
			id, ok := call.Fun.(*ast.Ident)
			if !ok || id.Name != "recover" {
				return true
			}
			if _, isB := info.Uses[id].(*types.Builtin); !isB {
				return true
			}
			// acceptable only if the function has a named error result that the recovering closure assigns
			sig := fn.Type().(*types.Signature)
			var errRes *types.Var
			for i := 0; i < sig.Results().Len(); i++ {
				if v := sig.Results().At(i); v.Name() != "" && v.Name() != "_" && types.TypeString(v.Type(), nil) == "error" {
					errRes = v
				}
			}
			assigned := false
			if errRes != nil {
				ast.Inspect(fd.Body, func(y ast.Node) bool {
					if as, ok := y.(*ast.AssignStmt); ok {
						for _, l := range as.Lhs {
							if lid, ok := l.(*ast.Ident); ok && info.Uses[lid] == errRes {
								assigned = true
							}
						}
					}
					return true
				})
			}
			if !assigned {
				r.Bad("R02.1", strings.TrimPrefix(pw.FuncName(fn), "cache."), "panic-swallowed", c.Pos(call.Pos()),
					"recover() swallows a panic of the builder/backend and the function returns its (unnamed or unassigned) results: a zero value with a nil error reaches Get's caller and the waiters", nil)
			}
			return true
		})
	})
	if n > 0 && !hasViolation(r.Obls, "R02.1", "package:recover") {
		r.OK("R02.1", "package:recover", fmt.Sprintf("no panic is swallowed into a (zero, nil) result in the %d frontend methods", n))
	}
}

func lastFieldWrite(evs []*pw.Event, base *pw.Val, field string) *pw.Event {
	var last *pw.Event
	for _, ev := range evs {
		if ev.Kind == pw.EvFieldWrite && ev.Field != nil && fname(ev.Field) == field && ev.Recv == base {
			last = ev
		}
	}
	return last
}

func (c *Ctx) c02Sibling(fo *FO) {
	r := c.R
	cons := fo.Name + ".Get"
	nRet, nPub, nKeyed := 0, 0, 0
	tags := map[string]int{}
	for _, p := range fo.Paths {
		if len(p.Unsup) > 0 {
			r.Unknown("R02.*", cons, "unmodelled construct: "+p.Unsup[0])
			return
		}
		cl, err := fo.classify(p)
		if err != nil {
			r.Unknown("R02.*", cons, err.Error())
			return
		}
		// R02.1 / R02.4 on the returned pair
		if len(p.Ret) != 2 {
			r.Unknown("R02.1", cons, fmt.Sprintf("return with %d operands at %s", len(p.Ret), c.Pos(p.RetPos)))
			return
		}
		nRet++
		val, errv := p.Ret[0], p.Ret[1]
		errNil, errKnown := p.NilFact(errv)
		if !errKnown || errNil {
			pv := fo.valueProv(p, p.Events, cl, val)
			paired := true
			if pv.tag == "Published" {
				pe := fo.errProv(p, p.Events, cl, errv, 0)
				paired = pe.tag == "Published"
				if !paired {
					pv = prov{"Published-unpaired", false, "owner's value returned without the owner's error"}
				}
			} else if !errKnown && pv.ok {
				// value legit but error unknown: fine (error decides)
			}
			tags["value:"+pv.tag]++
			if !pv.ok {
				nilness := "nil"
				if !errKnown {
					nilness = "possibly nil"
				}
				d, t := c.pathDetail(fo, p, fmt.Sprintf("returns (%s, %s error): %s", pv.tag, nilness, pv.why))
				r.Bad("R02.1", cons, "fabricated-"+pv.tag, c.Pos(p.RetPos), d, t)
			}
		}
		if !errKnown || !errNil {
			pe := fo.errProv(p, p.Events, cl, errv, 0)
			tags["error:"+pe.tag]++
			if !pe.ok && (errKnown || errv.Kind != pw.KConst) {
				d, t := c.pathDetail(fo, p, "returns an error that neither backend, builder, failure cache nor owner produced: "+pe.why)
				r.Bad("R02.4", cons, "error-"+pe.tag, c.Pos(p.RetPos), d, t)
			}
		}
		// R02.3 key threading
		checkKeyed := func(all, evs []*pw.Event, spawned bool) {
			for _, ev := range evs {
				if ev.Kind != pw.EvCall {
					continue
				}
				switch ev.Role {
				case "BackendRead", "BackendWrite", "ErrorsRead", "ErrorsWrite":
					nKeyed++
					if len(ev.Args) < 2 || !contentOf(all, ev.Args[1], fo.Key) {
						d, t := c.pathDetail(fo, p, fmt.Sprintf("%s is not keyed by this call's key: %v", ev.Role, ev.Args))
						r.Bad("R02.3", cons, "foreign-key-"+ev.Role, c.Pos(ev.Pos), d, t)
					}
					// what Get stores in the value cache is what later Gets (and concurrent ones, during a background update) are
					// served as "found in the backend": it has the same provenance obligation as a returned value
					if ev.Role == "BackendWrite" && len(ev.Args) >= 3 {
						if pv := fo.valueProv(p, all, cl, ev.Args[2]); !pv.ok {
							d, t := c.pathDetail(fo, p, fmt.Sprintf("Get stores a %s value in the backend: %s", pv.tag, pv.why))
							r.Bad("R02.1", cons, "stored-fabricated-"+pv.tag, c.Pos(ev.Pos), d, t)
						}
					}
				}
			}
		}
		checkKeyed(p.Events, p.Events, false)
		for _, g := range goEvents(p) {
			// in the spawned closure the key must be a private copy made BEFORE the spawn (main-path events only): a copy
			// taken inside the goroutine reads the caller's buffer after Get may have returned
			var before []*pw.Event
			for _, ev := range p.Events {
				if ev == g {
					break
				}
				before = append(before, ev)
			}
			for _, sp := range g.Sub {
				for _, ev := range sp.Events {
					if ev.Kind != pw.EvCall {
						continue
					}
					switch ev.Role {
					case "BackendRead", "BackendWrite", "ErrorsRead", "ErrorsWrite":
						nKeyed++
						if len(ev.Args) < 2 || !isFreshCopyOf(before, ev.Args[1], fo.Key) {
							d, t := c.pathDetail(fo, p, fmt.Sprintf("%s in the background goroutine is not keyed by a private copy of the key taken before the goroutine was spawned (the caller may have rewritten its buffer: the result lands under another key)", ev.Role))
							r.Bad("R02.3", cons, "bg-key-"+ev.Role, c.Pos(ev.Pos), d, t)
						}
					}
				}
			}
		}
		// R02.2 publication at release (owner paths)
		if cl.lookup == nil || cl.found || cl.kl == nil {
			continue
		}
		checkPub := func(fp *pw.Path, all []*pw.Event, upto int, where string, relPos *pw.Event) {
			nPub++
			evs := all[:upto]
			var pval, perr *pw.Val
			if w := lastFieldWrite(evs, cl.kl, "val"); w != nil {
				pval = w.Value
			}
			if w := lastFieldWrite(evs, cl.kl, "err"); w != nil {
				perr = w.Value
			}
			if perr != nil {
				if isNil, known := fp.NilFact(perr); known && !isNil {
					tags["published:error"]++
					// what waiters receive has provenance as well: an error the owner invents at release (a "build aborted" marker for
					// a builder that legitimately returned (nil, nil)) is an error nobody produced
					if pe := fo.errProv(fp, evs, cl, perr, 0); !pe.ok {
						d, t := c.pathDetail(fo, p, fmt.Sprintf("owner releases the key lock %s with a published error of unknown origin (%s): waiting Gets receive an error that neither backend, builder nor failure cache produced", where, pe.why))
						r.Bad("R02.2", cons, "fabricated-publication-error-"+where, c.Pos(relPos.Pos), d, t)
					}
					return
				} else if !known {
					// error of unknown nil-ness: value must be legit or the error decides; accept when the value is legit
				}
			}
			pv := prov{"Zero", false, "key lock value never assigned on this path"}
			if pval != nil {
				pv = fo.valueProv(fp, evs, cl, pval)
			}
			tags["published:"+pv.tag]++
			if !pv.ok {
				es := "unset (nil)"
				if perr != nil {
					es = "nil or unknown"
				}
				d, t := c.pathDetail(fo, p, fmt.Sprintf("owner releases the key lock %s with published value %s and error %s: a waiting Get receives a value nobody produced together with a nil error", where, pv.tag, es))
				r.Bad("R02.2", cons, "incomplete-publication-"+where, c.Pos(relPos.Pos), d, t)
			}
		}
		for i, ev := range p.Events {
			if isRelease(ev) {
				checkPub(p, p.Events, i, "on-return@"+returnKind(c, p), ev)
			}
		}
		for _, g := range goEvents(p) {
			for _, sp := range g.Sub {
				all := append(append([]*pw.Event{}, p.Events...), sp.Events...)
				for i, ev := range sp.Events {
					if isRelease(ev) {
						checkPub(sp, all, len(p.Events)+i, "in-background", ev)
					}
				}
			}
		}
	}
	r.Count("returns_checked:"+cons, nRet)
	r.Count("publications_checked:"+cons, nPub)
	r.Count("keyed_callouts_checked:"+cons, nKeyed)
	for k, v := range tags {
		r.Count(cons+":"+k, v)
	}
	if nPub == 0 {
		r.Unknown("R02.2", cons, "no owner release found")
	}
	if nKeyed == 0 {
		r.Unknown("R02.3", cons, "no keyed call-out found (roles do not resolve)")
	}
	for _, rule := range []string{"R02.1", "R02.2", "R02.3", "R02.4"} {
		if !hasViolation(r.Obls, rule, cons) {
			r.OK(rule, cons, fmt.Sprintf("%d returns, %d releases, %d keyed call-outs on %d paths", nRet, nPub, nKeyed, len(fo.Paths)))
		}
	}
}

// returnKind names the return site of a path by what is returned, not by line (stable finding keys).
func returnKind(c *Ctx, p *pw.Path) string {
	if len(p.Ret) != 2 {
		return "?"
	}
	e := p.Ret[1]
	switch {
	case e.Kind == pw.KConst && e.IsNil:
		return "nil-error"
	case e.Kind == pw.KCall:
		return e.Ev.Role + "-error"
	case e.Kind == pw.KParam:
		return "param-error"
	}
	return e.Kind.String() + "-error"
}
