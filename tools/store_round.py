#!/usr/bin/env python3
"""usage: store_round.py <round-number> <seed root (/tmp/seedN)> <confirm out dir> — copies confirmed seeds of a seeding round into
/verif/seeded/<prop>-r<round>s<n>/ (patch.diff, demo_test.go.txt, meta.json). Only seeds whose confirm result is complete are stored."""
import json, os, shutil, sys
rnd, root, conf = sys.argv[1], sys.argv[2], sys.argv[3]
want = ["apply=ok", "suite_with_change=ok", "demo_with_change=fails", "demo_without_change=passes"]
n = 0
for i in range(1, 19):
    p = "C%02d" % i
    for k in (1, 2, 3):
        src = f"{root}/{p}"
        if not os.path.exists(f"{src}/seed{k}.diff"):
            continue
        rf = f"{conf}/{p}-seed{k}.result"
        res = open(rf).read().split() if os.path.exists(rf) else []
        if res != want:
            print("NOT CONFIRMED", p, k, res)
            continue
        sid = f"{p}-r{rnd}s{k}"
        d = f"/verif/seeded/{sid}"
        os.makedirs(d, exist_ok=True)
        shutil.copy(f"{src}/seed{k}.diff", f"{d}/patch.diff")
        shutil.copy(f"{src}/seed{k}_demo_test.go.txt", f"{d}/demo_test.go.txt")
        try:
            m = json.load(open(f"{src}/seed{k}_meta.json"))
        except Exception:
            m = {"summary": open(f"{src}/seed{k}_meta.json").read()}
        race = " -race" if p == "C16" else ""
        out = {"id": sid, "breaks_property": p, "round": int(rnd), "style": m.get("style", ""), "clause": m.get("clause", ""),
               "author": "independent sub-agent given only the property text, a scratch worktree and one-line summaries of earlier ideas to avoid",
               "summary": m.get("summary") or "", "needs_to_manifest": m.get("needs_to_manifest") or "",
               "files_changed": m.get("files_changed") or [],
               "confirmed_by_me": {"how": f"tools/confirm_seed.sh in a fresh scratch worktree of /repo HEAD: git apply patch.diff; go test -vet=off -count=1 ./... (up to 3 tries: known timing-flaky tests); copy demo_test.go.txt to zz_seed_demo_test.go; go test -vet=off -count=1{race} -run Seed . (must fail); git apply -R; same demo (must pass)", "result": res}}
        json.dump(out, open(f"{d}/meta.json", "w"), indent=1, ensure_ascii=False)
        n += 1
print("stored", n)
