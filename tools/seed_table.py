#!/usr/bin/env python3
"""usage: seed_table.py <round> — prints the DESIGN §7 table rows of a seeding round from tools/seed_desc_r<round>.py (one-line
descriptions, written by hand) and seeded/matrix.json (which checks report the seed; own property first with its rule ids)."""
import json, re, sys
rnd = sys.argv[1]
ns = {}
exec(open(f'/verif/tools/seed_desc_r{rnd}.py').read(), ns)
D = ns['D']
m = json.load(open('/verif/seeded/matrix.json'))
for k in sorted(D):
    v = m.get(k, {}); own = k[:3]
    rules = sorted(set(re.match(r'(R[0-9.]+)', x).group(1) for x in v.get(own, '').split(',') if x.startswith('R')))
    others = [p for p in sorted(v) if p != own and not v[p].startswith('BROKEN')]
    print(f"| {k} | {D[k]} | {own} {','.join(rules)}" + (", " + ", ".join(others) if others else "") + " |")
