package rules

import (
	"fmt"
	"go/ast"
	"go/token"
	"go/types"
	"math/big"
	"strings"

	"cachelint/poly"
	"cachelint/pw"
)

func init() { register("C12", checkC12) }

func checkC12(c *Ctx) {
	r := c.R
	r.Explanation = "Decided statically on all paths of Trait.invokeCleanup (overflow helpers inlined), the three evictLeast implementations, the " +
		"constructors and PrepareRead: (R12.1) the evict callback is invoked only on paths where heap, sys or count overflow is established " +
		"or EvictionNeeded() returned true; each overflow predicate returns true only with limit≠0 ∧ measured>limit; the evict functions are " +
		"referenced only as Trait.Evict callbacks; (R12.2) the fraction defaults to 0.1 exactly when 0; on a count breach it is rewritten to " +
		"1 − L·(1−f)/n (polynomial identity), with n the count measured after the delete-expired scan of the same cycle; evictLeast removes " +
		"int(len(entries)·fraction) entries; (R12.3) evictLeast sorts ascending by the collected metric (comparator less(i,j) = m[i] < m[j]) " +
		"and deletes exactly the prefix [0, evictItems); the metric is E for EvictMostExpired and C otherwise (constructor wiring), and " +
		"PrepareRead stores the serve time into C on every LRU serve and adds 1 on every LFU serve, atomically. Not decided: ties, " +
		"concurrent writes during eviction, float rounding of the product."
	r.Rule("R12.1", "evict only on breach: Evict call ⇒ overflow established or EvictionNeeded() true; overflow ⇒ limit≠0 ∧ measured>limit; who may call evict*", 5)
	r.Rule("R12.2", "how much: default 0.1; count breach ⇒ 1 − L(1−f)/n with n measured after the expired scan; evictItems = int(len·fraction)", 4)
	r.Rule("R12.3", "which: ascending sort by metric, prefix deletion, metric wiring per strategy, PrepareRead maintains C", 11)
	r.NotDecided = []string{"ties", "behaviour under concurrent writes", "float rounding"}
	c.c12Cleanup()
	for _, b := range backends {
		c.c12EvictLeast(b)
		c.c12Wiring(b)
		c.c12CounterPreserved(b)
	}
	c.c12Counter()
	// every serve is counted: the exported lookups other than Read (Load) serve through Read and thereby through PrepareRead — a
	// lookup of their own would serve entries without touching the usage counter (C07 R07.6)
	c.borrowKinds("C07", func() { c.c07LoadStore() }, "R12.3", "Load:serves-through-Read", []string{"R07.6"}, "load-read")
	// the entries removed are the selected ones: deletion uses the backend's own index function on the collected hash/key (R07.1)
	c.borrow("C07", func() {
		for _, b := range backends {
			c.c07Index(b)
		}
	}, func(o *coreObl) (string, bool) {
		return "R12.3", o.Rule == "R07.1" && strings.Contains(o.Construct, ".evict")
	})
	// the count compared with CountSoftLimit is Len(): it has to be the number of stored entries (every shard, every entry once)
	c.borrow("C07", func() {
		for _, b := range backends {
			c.c07Batch(b)
		}
	}, func(o *coreObl) (string, bool) { return "R12.1", isLenObligation(o) })
	c.c12MeasuredQuantity()
	c.configOverwrites("R12.1")
	c.configWriters("R12.1", "HeapInUseSoftLimit", "SysMemSoftLimit", "CountSoftLimit", "EvictFraction", "EvictionStrategy", "EvictionNeeded")
}

func (c *Ctx) c12Cleanup() {
	r := c.R
	e, paths, _, err := c.runFunc("Trait.invokeCleanup", cleanupPolicy())
	if err != nil {
		r.Unknown("R12.1", "Trait.invokeCleanup", err.Error())
		return
	}
	zero := e.IntConst(0)
	nEvict, nNo := 0, 0
	ovSeen := map[string]int{}
	// a limit is established as exceeded on a path when the path's facts say limit ≠ 0 and measured > limit, the measured value being
	// the runtime statistic (read after runtime.ReadMemStats filled it) or the Len() result that the limit is about. Derived from the
	// facts of the path with the overflow helpers inlined, whatever their names and grouping are.
	measuredOf := map[string]string{"HeapInUseSoftLimit": "HeapInuse", "SysMemSoftLimit": "Sys", "CountSoftLimit": "Len()"}
	unconv := func(v *pw.Val) *pw.Val {
		for v != nil && v.Kind == pw.KConv {
			v = v.Src
		}
		return v
	}
	for _, p := range paths {
		ov := map[string]bool{}
		var cntVal *pw.Val
		var needed tri = triUnknown
		var lastScan, firstMeasure = -1, -1
		limVals := map[string][]*pw.Val{}
		measured := map[*pw.Val]string{}
		filled := map[*pw.Val]bool{}
		for i, ev := range p.Events {
			if ev.Kind == pw.EvCall && ev.Role == "Std:runtime.ReadMemStats" && len(ev.Args) == 1 {
				if a := ev.Args[0]; a != nil && a.Kind == pw.KAddr && a.Src != nil {
					filled[a.Src] = true
				} else if a != nil {
					filled[a] = true
				}
			}
			if ev.Kind == pw.EvFieldRead && ev.Field != nil {
				switch n := fname(ev.Field); n {
				case "HeapInUseSoftLimit", "SysMemSoftLimit", "CountSoftLimit":
					limVals[n] = append(limVals[n], ev.Value)
				case "HeapInuse", "Sys", "HeapAlloc", "HeapSys", "Alloc", "TotalAlloc":
					isFilled := false
					for rv, i := ev.Recv, 0; rv != nil && i < 5; rv, i = rv.Src, i+1 {
						if filled[rv] {
							isFilled = true
							break
						}
						if rv.Kind != pw.KHavoc && rv.Kind != pw.KAddr && rv.Kind != pw.KConv {
							break
						}
					}
					if ev.Recv != nil && !isFilled {
						r.Bad("R12.1", "Trait.invokeCleanup", "stale-memstats", c.Pos(ev.Pos), "memory statistics are read without runtime.ReadMemStats having filled them", shortTrace(p))
					} else {
						measured[ev.Value] = n
					}
				}
			}
			if ev.Kind == pw.EvCall && ev.Role == "DynField:Len" && len(ev.Results) == 1 {
				measured[ev.Results[0]] = "Len()"
			}
			if ev.Kind == pw.EvCall && ev.Role == "DynField:EvictionNeeded" {
				if t, known := p.Truth(ev.Results[0]); known {
					needed = map[bool]tri{true: triTrue, false: triFalse}[t]
				}
			}
			if ev.Kind == pw.EvCall && ev.Role == "DynField:DeleteExpired" {
				lastScan = i
			}
			if ev.Kind == pw.EvCall && (ev.Role == "DynField:Len" || ev.Role == "Std:runtime.ReadMemStats") && firstMeasure < 0 {
				firstMeasure = i
			}
		}
		for pair, rel := range p.RelFacts() {
			a, b := e.Vals[pair[0]], e.Vals[pair[1]]
			if a == nil || b == nil || rel != pw.RGt && rel != pw.RLt {
				continue
			}
			if rel == pw.RLt {
				a, b = b, a
			}
			// a > b
			ua, ub := unconv(a), unconv(b)
			for lim, vals := range limVals {
				for _, lv := range vals {
					if ub == lv && measured[ua] == measuredOf[lim] && p.Rel(lv, zero)&pw.REq == 0 {
						ov[lim] = true
						if lim == "CountSoftLimit" {
							cntVal = ua
						}
					}
				}
			}
		}
		for k, v := range ov {
			if v {
				ovSeen[k]++
			}
		}
		// cleared: the path establishes that the limit is not exceeded (limit = 0, measured ≤ limit, or nothing to measure with)
		cleared := map[string]bool{}
		for lim, vals := range limVals {
			for _, lv := range vals {
				if p.Rel(lv, zero) == pw.REq {
					cleared[lim] = true
				}
			}
		}
		for pair, rel := range p.RelFacts() {
			a, b := e.Vals[pair[0]], e.Vals[pair[1]]
			if a == nil || b == nil {
				continue
			}
			ua, ub := unconv(a), unconv(b)
			for lim, vals := range limVals {
				for _, lv := range vals {
					if ub == lv && measured[ua] == measuredOf[lim] && rel&pw.RGt == 0 {
						cleared[lim] = true
					}
					if ua == lv && measured[ub] == measuredOf[lim] && rel&pw.RLt == 0 {
						cleared[lim] = true
					}
				}
			}
		}
		neededCleared := needed == triFalse
		for _, ev := range p.Events {
			if ev.Kind == pw.EvFieldRead && ev.Field != nil {
				switch fname(ev.Field) {
				case "Len":
					if nilTri(p, ev.Value) == triTrue {
						cleared["CountSoftLimit"] = true
					}
				case "EvictionNeeded":
					if nilTri(p, ev.Value) == triTrue {
						neededCleared = true
					}
				}
			}
		}
		evicts := p.Calls("DynField:Evict")
		breach := ov["HeapInUseSoftLimit"] || ov["SysMemSoftLimit"] || ov["CountSoftLimit"] || needed == triTrue
		if len(evicts) == 0 {
			nNo++
			// converse: an established breach (or EvictionNeeded()==true) must reach the evictor when one is installed
			evictInstalled := triUnknown
			for _, ev := range p.Events {
				if ev.Kind == pw.EvFieldRead && ev.Field != nil && fname(ev.Field) == "Evict" {
					switch nilTri(p, ev.Value) {
					case triTrue:
						evictInstalled = triFalse
					case triFalse:
						evictInstalled = triTrue
					}
				}
			}
			if !breach && evictInstalled != triFalse {
				for _, lim := range []string{"HeapInUseSoftLimit", "SysMemSoftLimit", "CountSoftLimit"} {
					if !cleared[lim] {
						r.Bad("R12.1", "Trait.invokeCleanup", "cycle-skips-limit-check:"+lim, c.Pos(p.RetPos), "a cleanup cycle with an evictor installed ends without evicting on a path that does not establish "+lim+" as not exceeded (limit = 0 or "+measuredOf[lim]+" ≤ limit): a breached limit goes unnoticed", shortTrace(p))
					}
				}
				if !neededCleared {
					r.Bad("R12.1", "Trait.invokeCleanup", "cycle-skips-limit-check:EvictionNeeded", c.Pos(p.RetPos), "a cleanup cycle with an evictor installed ends without evicting and without EvictionNeeded() having returned false (or being nil)", shortTrace(p))
				}
			}
			if breach && evictInstalled != triFalse {
				r.Bad("R12.1", "Trait.invokeCleanup", "breach-without-eviction", c.Pos(p.RetPos), "a soft limit is established as exceeded (or EvictionNeeded() returned true) but the cycle does not evict", shortTrace(p))
			}
			continue
		}
		nEvict++
		if len(evicts) > 1 {
			r.Bad("R12.1", "Trait.invokeCleanup", "double-evict", c.Pos(evicts[1].Pos), "eviction runs more than once per cleanup cycle", shortTrace(p))
		}
		ev := evicts[0]
		if !breach {
			r.Bad("R12.1", "Trait.invokeCleanup", "evict-without-breach", c.Pos(ev.Pos), "the evict callback is invoked on a path where no soft limit is established as exceeded and EvictionNeeded() is not true", shortTrace(p))
		}
		if lastScan >= 0 && firstMeasure >= 0 && firstMeasure < lastScan {
			r.Bad("R12.2", "Trait.invokeCleanup", "measured-before-scan", c.Pos(p.Events[firstMeasure].Pos), "limits are measured before the expired-entries scan of the same cycle: entries about to be purged count towards the breach and the fraction", shortTrace(p))
		}
		// the fraction is retargeted exactly when the count limit is breached: an evicting path must know which of the two holds (a cycle
		// that stops looking once a memory limit is found breached evicts EvictFraction and leaves the cache above CountSoftLimit)
		if !ov["CountSoftLimit"] && !cleared["CountSoftLimit"] {
			r.Bad("R12.2", "Trait.invokeCleanup", "count-breach-not-evaluated", c.Pos(ev.Pos), "the cycle evicts on a path that establishes neither a count breach nor its absence (CountSoftLimit = 0 or Len() ≤ limit): with a memory limit and the count limit exceeded together only EvictFraction is evicted and the count stays above the limit", shortTrace(p))
		}
		// R12.2 fraction
		var f *pw.Val
		var L *pw.Val
		for _, e2 := range p.Events {
			if e2.Kind == pw.EvFieldRead && e2.Field != nil {
				switch fname(e2.Field) {
				case "EvictFraction":
					f = e2.Value
				case "CountSoftLimit":
					L = e2.Value
				}
			}
		}
		if f == nil {
			r.Bad("R12.2", "Trait.invokeCleanup", "fraction-source", c.Pos(ev.Pos), "the eviction fraction is not taken from Config.EvictFraction", shortTrace(p))
			continue
		}
		relF := p.Rel(f, zero)
		defaulted := relF == pw.REq
		if relF != pw.REq && relF&pw.REq != 0 {
			r.Bad("R12.2", "Trait.invokeCleanup", "fraction-untested", c.Pos(ev.Pos), "path does not test EvictFraction against 0", shortTrace(p))
			continue
		}
		namer := func(v *pw.Val) string {
			switch {
			case v == f:
				return "f"
			case L != nil && v == L:
				return "L"
			case cntVal != nil && v == cntVal:
				return "n"
			}
			return ""
		}
		got := poly.Of(ev.Args[0], namer)
		fp := poly.Atom("f")
		if defaulted {
			fp = poly.Rat(1, 10)
			// typed float constant: compare as float
			if cst, ok := got.IsConst(); ok && !ov["CountSoftLimit"] {
				if !sameFloat(cst, big.NewRat(1, 10)) {
					r.Bad("R12.2", "Trait.invokeCleanup", "default-fraction", c.Pos(ev.Pos), fmt.Sprintf("default fraction is %s, documented 0.1", cst.RatString()), shortTrace(p))
				}
				continue
			}
		}
		want := fp
		if ov["CountSoftLimit"] {
			want = poly.Int(1).Sub(poly.Atom("L").Mul(poly.Int(1).Sub(fp)).Div(poly.Atom("n")))
			if defaulted {
				// the default constant appears as the float64 rounding of 0.1 in the code's polynomial
				want = nil
			}
		}
		if want != nil && !got.Equal(want) {
			r.Bad("R12.2", "Trait.invokeCleanup", "fraction-formula", c.Pos(ev.Pos), fmt.Sprintf("fraction passed to the evictor is %s, documented is %s", got, want), shortTrace(p))
		}
		if want == nil {
			// defaulted + count breach: 1 − L·(1−c)/n with c the float64 constant 0.1 the code uses for the default — not with the
			// (zero) configured fraction again, which would trim to the limit itself instead of below it
			c01 := new(big.Rat).SetFloat64(0.1)
			w := poly.Int(1).Sub(poly.Atom("L").Mul(poly.Int(1).Sub(poly.Const(c01))).Div(poly.Atom("n")))
			w2 := poly.Int(1).Sub(poly.Atom("L").Mul(poly.Int(1).Sub(poly.Rat(1, 10))).Div(poly.Atom("n")))
			if !got.Equal(w) && !got.Equal(w2) {
				r.Bad("R12.2", "Trait.invokeCleanup", "fraction-formula", c.Pos(ev.Pos), "count breach with default fraction: expected 1 − L·(1−0.1)/n, got "+got.String(), shortTrace(p))
			}
		}
	}
	for _, lim := range []string{"HeapInUseSoftLimit", "SysMemSoftLimit", "CountSoftLimit"} {
		if ovSeen[lim] > 0 {
			r.OK("R12.1", "Config."+lim, fmt.Sprintf("%d paths establish %s ≠ 0 ∧ %s > %s", ovSeen[lim], lim, measuredOf[lim], lim))
		}
	}
	if nEvict == 0 || nNo == 0 || ovSeen["CountSoftLimit"] == 0 || ovSeen["HeapInUseSoftLimit"] == 0 || ovSeen["SysMemSoftLimit"] == 0 {
		r.Unknown("R12.1", "Trait.invokeCleanup", fmt.Sprintf("vacuous: evicting=%d non-evicting=%d overflow paths=%v", nEvict, nNo, ovSeen))
	}
	for _, rule := range []string{"R12.1", "R12.2"} {
		if !hasViolation(r.Obls, rule, "Trait.invokeCleanup") {
			r.OK(rule, "Trait.invokeCleanup", fmt.Sprintf("%d evicting paths, %d non-evicting paths", nEvict, nNo))
		}
	}
	// who references the evict functions: only the constructors (as callbacks) and the evict* wrappers
	info := c.Pkg.TypesInfo
	nRef, bad := 0, false
	c.eachFuncDecl(func(fd *ast.FuncDecl, fn *types.Func) {
		encl := strings.TrimPrefix(pw.FuncName(fn), "cache.")
		ast.Inspect(fd.Body, func(n ast.Node) bool {
			sel, ok := n.(*ast.SelectorExpr)
			if !ok {
				return true
			}
			s := info.Selections[sel]
			if s == nil || s.Kind() != types.MethodVal || !strings.HasPrefix(s.Obj().Name(), "evict") {
				return true
			}
			isBackend := false
			for _, b := range backends {
				if rn := namedTypeName(s.Recv()); rn == b.Name || rn == b.Wrapper {
					isBackend = true
				}
			}
			if !isBackend {
				return true
			}
			nRef++
			okRef := strings.HasPrefix(encl, "New") || strings.Contains(encl, ".evict") || c.constructionOnly()(fn)
			if !okRef {
				bad = true
				r.Bad("R12.1", encl, "evict-called-directly", c.Pos(sel.Pos()), "an evict function is used outside the constructors' Trait.Evict wiring", nil)
			}
			return true
		})
	})
	if nRef < 9 {
		r.Unknown("R12.1", "package:evict-references", fmt.Sprintf("only %d references to evict functions", nRef))
	} else if !bad {
		r.OK("R12.1", "package:evict-references", fmt.Sprintf("%d references, all constructor wiring or evict wrappers", nRef))
	}
}

// c12CounterPreserved: when a stored entry is replaced by a copy (ExpireAll's copy-on-write), the usage counter moves along.
func (c *Ctx) c12CounterPreserved(b BK) {
	c.replacedEntryKeeps(b, "R12.3", "C")
}

// replacedEntryKeeps: an entry that ExpireAll puts in place of a stored one carries the listed fields of the entry it replaces
// (C by an atomic load, K and V as they are). In-place expiry keeps them trivially.
func (c *Ctx) replacedEntryKeeps(b BK, rule string, fields ...string) {
	r := c.R
	op := b.Name + ".ExpireAll"
	run := c.bk(b, op, false)
	if run.err != nil {
		r.Unknown(rule, op, run.err.Error())
		return
	}
	n, bad := 0, false
	reported := map[string]bool{}
	for _, p := range run.paths {
		for _, ev := range p.Events {
			var ent *pw.Val
			if b.Sharded && ev.Kind == pw.EvMapInsert && isShardData(ev) {
				ent = pointee(ev.Value)
			}
			if !b.Sharded && isSyncStore(p, ev) && len(ev.Args) == 2 {
				ent = pointee(ev.Args[1])
			}
			if ent == nil || ent.Kind != pw.KAlloc {
				continue
			}
			n++
			for _, f := range fields {
				fv := p.FieldOf(ent, f)
				ok := false
				if f == "C" {
					ok = fv != nil && fv.Kind == pw.KCall && fv.Ev != nil && fv.Ev.Role == "Std:atomic.LoadInt64" && len(fv.Ev.Args) == 1 && fv.Ev.Args[0].Field != nil && fname(fv.Ev.Args[0].Field) == "C"
				} else {
					// the field of the iterated (replaced) entry
					ok = fv != nil && fv.Kind == pw.KField && fv.Field != nil && fname(fv.Field) == f && fv.Src != nil
					if ok {
						src := fv.Src
						for src != nil && (src.Kind == pw.KConv || src.Kind == pw.KAssert) {
							src = src.Src
						}
						ok = src != nil && (src.Kind == pw.KRangeVal || src.Kind == pw.KParam || src.Kind == pw.KMapVal)
					}
				}
				if !ok && !reported[f] {
					reported[f] = true
					bad = true
					what := "usage-counter-dropped"
					msg := "ExpireAll replaces a stored entry by a copy that does not carry the usage counter C (atomic load of the old one): LRU/LFU ranks are reset, the next eviction removes arbitrary entries"
					if f != "C" {
						what = "replacement-drops-" + f
						msg = "ExpireAll replaces a stored entry by a copy whose " + f + " is not the replaced entry's " + f
					}
					r.Bad(rule, op, what, c.Pos(ev.Pos), msg, shortTrace(p))
				}
			}
		}
	}
	if !bad {
		r.OK(rule, op, fmt.Sprintf("%d replaced entries carry %v (in-place expiry keeps them trivially)", n, fields))
	}
}

func (c *Ctx) c12EvictLeast(b BK) {
	r := c.R
	op := b.Name + ".evictLeast"
	fd, _ := c.funcDecl(op)
	if fd == nil {
		r.Unknown("R12.3", op, "does not resolve")
		return
	}
	info := c.Pkg.TypesInfo
	// the operation's code: evictLeast and the unexported helpers it is split into
	bodies := c.reachBodies(fd, 2)
	// comparator
	var sortCall *ast.CallExpr
	for _, bd := range bodies {
		if sortCall != nil {
			break
		}
		ast.Inspect(bd.Body, func(n ast.Node) bool {
			if call, ok := n.(*ast.CallExpr); ok {
				if sel, ok := call.Fun.(*ast.SelectorExpr); ok {
					if id, ok := sel.X.(*ast.Ident); ok {
						if pn, ok := info.Uses[id].(*types.PkgName); ok && pn.Imported().Path() == "sort" && (sel.Sel.Name == "Slice" || sel.Sel.Name == "SliceStable" || sel.Sel.Name == "Sort" || sel.Sel.Name == "Stable") {
							sortCall = call
						}
					}
				}
			}
			return true
		})
	}
	okCmp := false
	var sorted types.Object
	if sortCall != nil && len(sortCall.Args) == 2 {
		if id, ok := ast.Unparen(sortCall.Args[0]).(*ast.Ident); ok {
			sorted = info.Uses[id]
		}
		if lit, ok := sortCall.Args[1].(*ast.FuncLit); ok && len(lit.Body.List) == 1 && len(lit.Type.Params.List) >= 1 {
			var pi, pj types.Object
			var names []*ast.Ident
			for _, f := range lit.Type.Params.List {
				names = append(names, f.Names...)
			}
			if len(names) == 2 {
				pi, pj = info.Defs[names[0]], info.Defs[names[1]]
			}
			if ret, ok := lit.Body.List[0].(*ast.ReturnStmt); ok && len(ret.Results) == 1 {
				if be, ok := ast.Unparen(ret.Results[0]).(*ast.BinaryExpr); ok {
					li, lf := indexedField(info, be.X, sorted)
					ri, rf := indexedField(info, be.Y, sorted)
					if lf != "" && lf == rf {
						switch be.Op {
						case token.LSS, token.LEQ:
							okCmp = li == pi && ri == pj
						case token.GTR, token.GEQ:
							okCmp = li == pj && ri == pi
						}
					}
				}
			}
		}
	}
	// sort.Sort(T(entries)): the comparator is T's Less method
	if sortCall != nil && len(sortCall.Args) == 1 {
		arg := ast.Unparen(sortCall.Args[0])
		if conv, ok := arg.(*ast.CallExpr); ok && len(conv.Args) == 1 {
			if id, ok := ast.Unparen(conv.Args[0]).(*ast.Ident); ok {
				sorted = info.Uses[id]
			}
		} else if id, ok := arg.(*ast.Ident); ok {
			sorted = info.Uses[id]
		}
		if t := info.TypeOf(arg); t != nil {
			if less, _, _ := types.LookupFieldOrMethod(t, true, c.Pkg.Types, "Less"); less != nil {
				if lf, _ := less.(*types.Func); lf != nil {
					if d := c.declOf(lf); d != nil && d.Body != nil && len(d.Body.List) == 1 && d.Recv != nil && len(d.Recv.List) == 1 && len(d.Recv.List[0].Names) == 1 {
						recvObj := info.Defs[d.Recv.List[0].Names[0]]
						var names []*ast.Ident
						for _, f := range d.Type.Params.List {
							names = append(names, f.Names...)
						}
						if ret, ok := d.Body.List[0].(*ast.ReturnStmt); ok && len(ret.Results) == 1 && len(names) == 2 {
							pi, pj := info.Defs[names[0]], info.Defs[names[1]]
							if be, ok := ast.Unparen(ret.Results[0]).(*ast.BinaryExpr); ok {
								li, lfn := indexedField(info, be.X, recvObj)
								ri, rfn := indexedField(info, be.Y, recvObj)
								if lfn != "" && lfn == rfn {
									switch be.Op {
									case token.LSS, token.LEQ:
										okCmp = li == pi && ri == pj
									case token.GTR, token.GEQ:
										okCmp = li == pj && ri == pi
									}
								}
							}
						}
					}
				}
			}
		}
	}
	if !okCmp {
		pos := fd.Pos()
		if sortCall != nil {
			pos = sortCall.Pos()
		}
		r.Bad("R12.3", op, "comparator", c.Pos(pos), "entries are not sorted ascending by the collected metric (less(i,j) must be m[i] < m[j])", nil)
	} else {
		r.OK("R12.3", op+":comparator", "ascending by the collected metric")
	}
	// amount and prefix: path analysis
	run := c.bk(b, op, false)
	if run.err != nil {
		r.Unknown("R12.2", op, run.err.Error())
		return
	}
	var frac *pw.Val
	for obj, v := range run.e.Params {
		if bt, ok := obj.Type().Underlying().(*types.Basic); ok && bt.Kind() == types.Float64 {
			frac = v
		}
	}
	nDel := 0
	badAmt, badPrefix := false, false
	reusedReported := false
	nCollect := 0
	if b.Sharded {
		if _, ok := c.shardCoverage("R12.3", op, run.paths, false); !ok {
			badPrefix = true
		}
	}
	for _, p := range run.paths {
		// collection: every iterated entry contributes exactly one record (metric + key) and the scan is not cut short
		for _, g := range iterations(p) {
			if !g.overData || !g.inner || g.begin.Frame == nil || !g.begin.Frame.InFunc("cache."+b.Name+".evictLeast") || g.begin.Frame.InFunc("cache."+b.Name+".Len") {
				continue
			}
			apps := 0
			for _, ev := range g.events {
				if ev.Kind == pw.EvAssign && ev.Value != nil && ev.Value.Kind == pw.KAppend && len(ev.Value.Elems) == 1 {
					apps++
				}
				if ev.Kind == pw.EvExit && ev.FnLit != nil && len(ev.Results) == 1 && ev.Frame != nil && ev.Frame.Lit == g.begin.FnLit {
					// handled below
				}
			}
			nCollect++
			if apps != 1 {
				r.Bad("R12.3", op, "collection-incomplete", c.Pos(g.begin.Pos), fmt.Sprintf("an iterated entry contributes %d records to the eviction candidates, expected one", apps), shortTrace(p))
				badPrefix = true
			}
		}
		for _, ev := range p.Events {
			if ev.Kind == pw.EvLoopEnd && ev.Note == "break" {
				r.Bad("R12.3", op, "collection-stops-early", c.Pos(ev.Pos), "a loop of evictLeast is left early", shortTrace(p))
				badPrefix = true
			}
			if ev.Kind == pw.EvExit && ev.FnLit != nil && len(ev.Results) == 1 && ev.Results[0].Type != nil {
				if bt, ok := ev.Results[0].Type.Underlying().(*types.Basic); ok && bt.Kind() == types.Bool || ev.Results[0].Kind == pw.KConst {
					if t, known := p.Truth(ev.Results[0]); known && !t && ev.Frame != nil && ev.Frame.Parent != nil && ev.Frame.Parent.Lit == nil {
						// a Range callback returning false stops the scan; the sort comparator lives in a non-walked closure
						r.Bad("R12.3", op, "collection-stops-early", c.Pos(ev.Pos), "the sync.Map.Range callback collecting eviction candidates returns false: the scan stops after the first entry", shortTrace(p))
						badPrefix = true
					}
				}
			}
		}
		// evictItems: the returned value
		ret := p.Ret[0]
		var lenV *pw.Val
		namer := func(v *pw.Val) string {
			if v == frac {
				return "frac"
			}
			if v.Kind == pw.KLen {
				lenV = v
				return "len"
			}
			return ""
		}
		got := poly.Of(ret, namer)
		if !got.Equal(poly.Atom("len").Mul(poly.Atom("frac"))) || lenV == nil || lenV.Src == nil {
			r.Bad("R12.2", op, "amount", c.Pos(p.RetPos), fmt.Sprintf("number of evicted entries is %s, documented is int(len(entries)·fraction)", got), shortTrace(p))
			badAmt = true
		}
		// the candidates are those of this cycle only: the list they are collected into starts empty in every call (a buffer kept in
		// the instance and re-used at full length carries the records of the previous cycle into the sort and the prefix)
		if lenV != nil && !badAmt {
			base := lenV.Src
			for i := 0; base != nil && i < 64 && (base.Kind == pw.KAppend || base.Kind == pw.KHavoc); i++ {
				base = base.Src
			}
			if base != nil && base.Kind == pw.KField && base.Field != nil && !reusedReported {
				reusedReported = true
				r.Bad("R12.3", op, "candidates-not-fresh", c.Pos(p.RetPos), "the eviction candidates are appended to a slice kept in the instance ("+base.Field.Name()+") without emptying it: records of the previous cycle are sorted in and use up the eviction budget", shortTrace(p))
			}
		}
		// deletion loop: for i := 0; i < evictItems; i++ { delete entries[i] }
		for _, g := range iterations(p) {
			if !g.inner {
				continue
			}
			for _, ev := range g.events {
				isDel := b.Sharded && ev.Kind == pw.EvMapDelete && isShardData(ev) || !b.Sharded && (syncMapOp(ev) == "Delete" || syncMapOp(ev) == "LoadAndDelete")
				if !isDel {
					continue
				}
				nDel++
				k := ev.Key
				if !b.Sharded {
					k = ev.Args[0]
				}
				// key = entries[i].hash / .key with i the loop variable starting at 0, bounded by evictItems
				idx := (*pw.Val)(nil)
				for x := k; x != nil; x = x.Src {
					if x.Kind == pw.KIndex {
						idx = x.Src2
						break
					}
					if x.Kind == pw.KField && x.Src != nil && x.Src.Kind == pw.KAddr && x.Src.Src2 != nil {
						idx = x.Src.Src2
						break
					}
				}
				okIdx := false
				if idx != nil {
					// first iteration: the index is the constant 0 assigned by the init statement
					if cst, ok := poly.Of(idx, nil).IsConst(); ok && cst.Sign() == 0 {
						okIdx = true
					}
				}
				// loop condition i < evictItems recorded as a fact between idx and the returned amount
				if okIdx && p.Rel(idx, ret)&^pw.RLt != 0 {
					okIdx = false
				}
				if !okIdx {
					r.Bad("R12.3", op, "prefix", c.Pos(ev.Pos), "the deletion loop does not remove exactly the prefix [0, evictItems) of the sorted entries", shortTrace(p))
					badPrefix = true
				}
			}
		}
	}
	if nCollect == 0 {
		r.Unknown("R12.3", op+":collection", "no collecting iteration over the stored entries found")
	}
	if !badAmt {
		r.OK("R12.2", op, "evictItems = int(len(entries)·fraction)")
	}
	if nDel == 0 {
		r.Unknown("R12.3", op+":prefix", "no deletion found in the eviction loop")
	} else if !badPrefix {
		r.OK("R12.3", op+":prefix", fmt.Sprintf("%d deletion sites index the sorted entries from 0 while i < evictItems", nDel))
	}
	// loop step must be i++ (AST)
	okStep := false
	for _, bd := range bodies {
		ast.Inspect(bd.Body, func(n ast.Node) bool {
			fs, ok := n.(*ast.ForStmt)
			if !ok || fs.Cond == nil || fs.Post == nil {
				return true
			}
			if inc, ok := fs.Post.(*ast.IncDecStmt); ok && inc.Tok == token.INC {
				if cond, ok := fs.Cond.(*ast.BinaryExpr); ok && cond.Op == token.LSS {
					okStep = true
				}
			}
			return true
		})
	}
	if !okStep {
		r.Bad("R12.3", op, "loop-step", c.Pos(fd.Pos()), "the deletion loop is not `for i := 0; i < evictItems; i++`", nil)
	}
}

// indexedField matches sorted[idx].field and returns (idx object, field name).
func indexedField(info *types.Info, e ast.Expr, sorted types.Object) (types.Object, string) {
	sel, ok := ast.Unparen(e).(*ast.SelectorExpr)
	if !ok {
		return nil, ""
	}
	ix, ok := ast.Unparen(sel.X).(*ast.IndexExpr)
	if !ok {
		return nil, ""
	}
	base, ok := ast.Unparen(ix.X).(*ast.Ident)
	if !ok || info.Uses[base] != sorted {
		return nil, ""
	}
	id, ok := ast.Unparen(ix.Index).(*ast.Ident)
	if !ok {
		return nil, ""
	}
	return info.Uses[id], sel.Sel.Name
}

// c12Wiring: strategy → evictor, evictor → metric field.
func (c *Ctx) c12Wiring(b BK) {
	r := c.R
	for _, w := range []struct{ fn, field string }{{"evictMostExpired", "E"}, {"evictLeastCounter", "C"}} {
		name := b.Name + "." + w.fn
		fd, _ := c.funcDecl(name)
		if fd == nil {
			r.Unknown("R12.3", name, "does not resolve")
			continue
		}
		// the metric closure loads the right field atomically
		loads, other := false, false
		// the metric is a function literal or a declared function handed over by name
		var metricBodies []*ast.BlockStmt
		ast.Inspect(fd.Body, func(n ast.Node) bool {
			switch x := n.(type) {
			case *ast.FuncLit:
				metricBodies = append(metricBodies, x.Body)
				return false
			case *ast.CallExpr:
				for _, a := range x.Args {
					ax := ast.Unparen(a)
					if ix, ok := ax.(*ast.IndexExpr); ok {
						ax = ix.X // generic instantiation f[V]
					}
					if id, ok := ax.(*ast.Ident); ok {
						if fobj, _ := c.Pkg.TypesInfo.Uses[id].(*types.Func); fobj != nil && fobj.Pkg() == c.Pkg.Types {
							if d := c.declOf(fobj); d != nil && d.Body != nil {
								metricBodies = append(metricBodies, d.Body)
							}
						}
					}
				}
			}
			return true
		})
		for _, mb := range metricBodies {
			ast.Inspect(mb, func(m ast.Node) bool {
				if u, isU := m.(*ast.UnaryExpr); isU && u.Op == token.AND {
					if sel, isSel := u.X.(*ast.SelectorExpr); isSel && sel.Sel.Name == w.field {
						loads = true
					}
				}
				// the rank is a function of that field alone: a closure that also looks at another field of the entry (expired entries
				// first, …) ranks some entries by something else
				if sel, isSel := m.(*ast.SelectorExpr); isSel && sel.Sel.Name != w.field {
					if s := c.Pkg.TypesInfo.Selections[sel]; s != nil && s.Kind() == types.FieldVal && strings.HasPrefix(namedTypeName(s.Recv()), "TraitEntry") {
						other = true
					}
				}
				return true
			})
		}
		if loads && !other {
			r.OK("R12.3", name, "ranks by entry."+w.field)
		} else {
			r.Bad("R12.3", name, "metric-field", c.Pos(fd.Pos()), name+" must rank entries by their "+w.field+" field", nil)
		}
	}
	// constructor selection
	ctor := "New" + b.Wrapper
	e, paths, _, err := c.runFunc(ctor, pw.Policy{Inline: inlineUnexported, MaxDepth: 2, WalkFuncArgs: isTraitCtor})
	if err != nil {
		r.Unknown("R12.3", ctor, err.Error())
		return
	}
	zero := e.IntConst(0)
	n := 0
	bad := false
	// the selection may also be made inside the option callback handed to the Trait constructor (it sees the final Config):
	// the callback's paths, walked with the constructor's state, are judged like the constructor's own
	var all []*pw.Path
	for _, p := range paths {
		all = append(all, p)
		for _, ev := range p.Events {
			if ev.Kind == pw.EvCall && len(ev.Sub) > 0 {
				all = append(all, ev.Sub...)
			}
		}
	}
	for _, p := range all {
		var strat *pw.Val
		var evict *pw.Val
		for _, ev := range p.Events {
			if ev.Kind == pw.EvFieldWrite && ev.Field != nil && fname(ev.Field) == "Evict" && ev.Value != nil && ev.Value.Kind == pw.KFuncRef && ev.Value.Obj != nil && strings.HasPrefix(ev.Value.Obj.Name(), "evict") {
				evict = ev.Value // the last write counts
			}
			if ev.Kind == pw.EvFieldRead && ev.Field != nil && fname(ev.Field) == "EvictionStrategy" {
				strat = ev.Value
			}
			if ev.Kind == pw.EvAssign && ev.Obj != nil && ev.Value != nil && ev.Value.Kind == pw.KFuncRef && strings.HasPrefix(ev.Value.Obj.Name(), "evict") {
				evict = ev.Value
			}
			// a helper that picks the evictor returns it
			if ev.Kind == pw.EvExit && ev.Frame != nil && ev.Frame.Parent != nil && len(ev.Results) == 1 && ev.Results[0] != nil && ev.Results[0].Kind == pw.KFuncRef && ev.Results[0].Obj != nil && strings.HasPrefix(ev.Results[0].Obj.Name(), "evict") {
				evict = ev.Results[0]
			}
		}
		if strat == nil || evict == nil {
			continue
		}
		n++
		rel := p.Rel(strat, zero)
		want := ""
		switch {
		case rel == pw.REq:
			want = "evictMostExpired"
		case rel&pw.REq == 0:
			want = "evictLeastCounter"
		}
		if want != evict.Obj.Name() {
			r.Bad("R12.3", ctor, "strategy-wiring", c.Pos(p.RetPos), fmt.Sprintf("strategy relation to EvictMostExpired is %s but the evictor is %s", relSetStr(rel), evict.Obj.Name()), shortTrace(p))
			bad = true
		}
	}
	// the option closure installs this backend's own callbacks on the Trait
	fd, _ := c.funcDecl(ctor)
	want := map[string]string{"DeleteExpired": "deleteExpired", "Len": "Len", "Evict": "evict"}
	got := map[string]string{}
	var ctorBodies []*ast.FuncDecl
	if fd != nil {
		ctorBodies = c.reachBodies(fd, 2)
		ctorBodies = append(ctorBodies, c.referencedFuncs(ctorBodies)...)
	}
	for _, bd := range ctorBodies {
		ast.Inspect(bd.Body, func(x ast.Node) bool {
			as, ok := x.(*ast.AssignStmt)
			if !ok || len(as.Lhs) != 1 || len(as.Rhs) != 1 {
				return true
			}
			sel, ok := as.Lhs[0].(*ast.SelectorExpr)
			if !ok {
				return true
			}
			if s := c.Pkg.TypesInfo.Selections[sel]; s == nil || namedTypeName(s.Recv()) != "Trait" {
				return true
			}
			switch rhs := ast.Unparen(as.Rhs[0]).(type) {
			case *ast.SelectorExpr:
				if s := c.Pkg.TypesInfo.Selections[rhs]; s != nil && s.Kind() == types.MethodVal && (namedTypeName(s.Recv()) == b.Name || namedTypeName(s.Recv()) == b.Wrapper) {
					got[sel.Sel.Name] = rhs.Sel.Name
					if mf, ok := s.Obj().(*types.Func); ok {
						full := pw.FuncName(mf) // canonical
						got[sel.Sel.Name] = full[strings.LastIndex(full, ".")+1:]
					}
				}
			case *ast.Ident:
				got[sel.Sel.Name] = rhs.Name
				// a parameter of a wiring helper: what the constructor passes for it
				if arg := c.argForParam(bd, c.Pkg.TypesInfo.Uses[rhs], ctorBodies); arg != nil {
					if ms, ok := ast.Unparen(arg).(*ast.SelectorExpr); ok {
						if s := c.Pkg.TypesInfo.Selections[ms]; s != nil && s.Kind() == types.MethodVal && (namedTypeName(s.Recv()) == b.Name || namedTypeName(s.Recv()) == b.Wrapper) {
							if mf, ok := s.Obj().(*types.Func); ok {
								full := pw.FuncName(mf)
								got[sel.Sel.Name] = full[strings.LastIndex(full, ".")+1:]
							}
						}
					}
				}
			case *ast.FuncLit:
				// a literal that forwards to the backend's method (e.g. to pass it something more)
				ast.Inspect(rhs.Body, func(y ast.Node) bool {
					if call, ok := y.(*ast.CallExpr); ok {
						if ms, ok := ast.Unparen(call.Fun).(*ast.SelectorExpr); ok {
							if s := c.Pkg.TypesInfo.Selections[ms]; s != nil && s.Kind() == types.MethodVal && (namedTypeName(s.Recv()) == b.Name || namedTypeName(s.Recv()) == b.Wrapper) {
								if mf, ok := s.Obj().(*types.Func); ok {
									full := pw.FuncName(mf)
									got[sel.Sel.Name] = full[strings.LastIndex(full, ".")+1:]
								}
							}
						}
					}
					return true
				})
			}
			return true
		})
	}
	// … on every path of the option callback (walked with the constructor's state): a callback installed only under some
	// configuration leaves the janitor without it in the others
	for _, p := range paths {
		for _, ev := range p.Events {
			if ev.Kind != pw.EvCall || len(ev.Sub) == 0 {
				continue
			}
			for _, sp := range ev.Sub {
				if sp.Panic {
					continue
				}
				set := map[string]bool{}
				for _, se := range sp.Events {
					if se.Kind == pw.EvFieldWrite && se.Field != nil && se.Value != nil && (se.Value.Kind == pw.KFuncRef || se.Value.Kind == pw.KClosure) {
						set[fname(se.Field)] = true
					}
				}
				if len(set) == 0 {
					continue // another option callback (not the one wiring the Trait)
				}
				for f := range want {
					if !set[f] && !bad {
						bad = true
						r.Bad("R12.3", ctor, "callback-wiring:"+f, c.Pos(ev.Pos), "the option callback installs Trait."+f+" on some of its paths only: under the other configurations the janitor has no "+f+" (cleanup / count limit / eviction silently do not run)", shortTrace(sp))
					}
				}
			}
		}
	}
	for f, w := range want {
		if f == "Evict" && strings.HasPrefix(got[f], "evict") {
			continue // one of the backend's evictors (which one: strategy-wiring above)
		}
		if got[f] != w {
			r.Bad("R12.3", ctor, "callback-wiring:"+f, c.Pos(fd.Pos()), fmt.Sprintf("the constructor does not install this backend's %s as Trait.%s (cleanup / count limit / eviction would silently not run)", w, f), nil)
			bad = true
		}
	}
	if n == 0 {
		r.Unknown("R12.3", ctor, "evictor selection not found")
	} else if !bad {
		r.OK("R12.3", ctor, "EvictMostExpired ⇒ evictMostExpired, otherwise evictLeastCounter")
	}
}

// c12MeasuredQuantity: the documented meaning of the two memory limits is runtime.MemStats.HeapInuse and runtime.MemStats.Sys. In
// the code reachable from the cleanup cycle every comparison that involves Config.HeapInUseSoftLimit (SysMemSoftLimit) has the
// field HeapInuse (Sys) of a runtime.MemStats on its other side; a different measure (live objects, objects + free spans, another
// metrics source) breaches or spares the limit in cycles where the documented quantity does not.
func (c *Ctx) c12MeasuredQuantity() {
	r := c.R
	info := c.Pkg.TypesInfo
	fd, _ := c.funcDecl("Trait.invokeCleanup")
	if fd == nil {
		r.Unknown("R12.1", "Trait.invokeCleanup:measured", "does not resolve")
		return
	}
	want := map[string]string{"HeapInUseSoftLimit": "HeapInuse", "SysMemSoftLimit": "Sys"}
	seen := map[string]int{}
	bad := false
	isMemStatsField := func(e ast.Expr, field string) bool {
		for {
			switch x := ast.Unparen(e).(type) {
			case *ast.CallExpr: // conversions
				if tv, ok := info.Types[x.Fun]; ok && tv.IsType() && len(x.Args) == 1 {
					e = x.Args[0]
					continue
				}
				return false
			case *ast.SelectorExpr:
				sl := info.Selections[x]
				return sl != nil && sl.Kind() == types.FieldVal && x.Sel.Name == field && types.TypeString(derefType(sl.Recv()), nil) == "runtime.MemStats"
			case *ast.Ident:
				// a local holding the field: `inUse := m.HeapInuse`
				if obj, ok := info.ObjectOf(x).(*types.Var); ok {
					found := false
					for _, bd := range c.reachBodies(fd, 3) {
						ast.Inspect(bd.Body, func(n ast.Node) bool {
							as, ok := n.(*ast.AssignStmt)
							if !ok || len(as.Lhs) != len(as.Rhs) {
								return true
							}
							for i, l := range as.Lhs {
								if id, ok := l.(*ast.Ident); ok && info.ObjectOf(id) == obj {
									if sel, ok := ast.Unparen(as.Rhs[i]).(*ast.SelectorExpr); ok {
										if sl := info.Selections[sel]; sl != nil && sel.Sel.Name == field && types.TypeString(derefType(sl.Recv()), nil) == "runtime.MemStats" {
											found = true
										}
									}
								}
							}
							return true
						})
					}
					return found
				}
				return false
			default:
				return false
			}
		}
	}
	limitField := func(n ast.Node) string {
		if sel, ok := n.(*ast.SelectorExpr); ok {
			if sl := info.Selections[sel]; sl != nil && sl.Kind() == types.FieldVal {
				if _, isLimit := want[selFieldName(sl)]; isLimit && fieldOwnerName(sl.Obj().(*types.Var)) == "Config" {
					return selFieldName(sl)
				}
			}
		}
		return ""
	}
	// locals that hold a limit: `limit := c.Config.HeapInUseSoftLimit`
	alias := map[types.Object]string{}
	for _, bd := range c.reachBodies(fd, 3) {
		ast.Inspect(bd.Body, func(n ast.Node) bool {
			as, ok := n.(*ast.AssignStmt)
			if !ok || len(as.Lhs) != len(as.Rhs) {
				return true
			}
			for i, l := range as.Lhs {
				if id, ok := l.(*ast.Ident); ok {
					if f := limitField(ast.Unparen(as.Rhs[i])); f != "" {
						if o := info.ObjectOf(id); o != nil {
							alias[o] = f
						}
					}
				}
			}
			return true
		})
	}
	mentions := func(e ast.Expr) string {
		res := ""
		ast.Inspect(e, func(n ast.Node) bool {
			if f := limitField(n); f != "" {
				res = f
			}
			if id, ok := n.(*ast.Ident); ok {
				if f := alias[info.ObjectOf(id)]; f != "" {
					res = f
				}
			}
			return true
		})
		return res
	}
	for _, bd := range c.reachBodies(fd, 3) {
		ast.Inspect(bd.Body, func(n ast.Node) bool {
			be, ok := n.(*ast.BinaryExpr)
			if !ok {
				return true
			}
			switch be.Op {
			case token.GTR, token.LSS, token.GEQ, token.LEQ:
			default:
				return true
			}
			for _, pair := range [][2]ast.Expr{{be.X, be.Y}, {be.Y, be.X}} {
				lim := mentions(pair[0])
				if lim == "" {
					continue
				}
				if lit, ok := ast.Unparen(pair[1]).(*ast.BasicLit); ok && lit.Value == "0" {
					continue // "is the limit set at all"
				}
				seen[lim]++
				if !isMemStatsField(pair[1], want[lim]) {
					bad = true
					r.Bad("R12.1", strings.TrimPrefix(c.fnNameOf(bd), "cache."), "limit-measured-otherwise:"+lim, c.Pos(be.Pos()), "Config."+lim+" is compared with something other than runtime.MemStats."+want[lim]+", the quantity the limit is documented for", nil)
				}
			}
			return true
		})
	}
	if seen["HeapInUseSoftLimit"] == 0 || seen["SysMemSoftLimit"] == 0 {
		if !bad {
			r.Unknown("R12.1", "Trait.invokeCleanup:measured", fmt.Sprintf("comparisons with the memory limits not found: %v", seen))
		}
	} else if !bad {
		r.OK("R12.1", "Trait.invokeCleanup:measured", "HeapInUseSoftLimit is compared with MemStats.HeapInuse, SysMemSoftLimit with MemStats.Sys")
	}
}

// isTraitCtor: the constructors of the shared Trait, which invoke option callbacks.
func isTraitCtor(fn *types.Func) bool {
	n := pw.FuncName(fn)
	return n == "cache.NewTrait" || n == "cache.NewTraitOf"
}

func relSetStr(rel uint8) string {
	s := ""
	for _, x := range []uint8{pw.RLt, pw.REq, pw.RGt} {
		if rel&x != 0 {
			s += relStr(x)
		}
	}
	return "{" + s + "}"
}

// c12Counter: PrepareRead maintains C.
func (c *Ctx) c12Counter() {
	r := c.R
	for _, name := range []string{"Trait.PrepareRead", "TraitOf.PrepareRead"} {
		e, paths, _, err := c.runFunc(name, pw.Policy{})
		if err != nil {
			r.Unknown("R12.3", name, err.Error())
			continue
		}
		var found, entry *pw.Val
		for obj, v := range e.Params {
			if bt, ok := obj.Type().Underlying().(*types.Basic); ok && bt.Kind() == types.Bool {
				found = v
			}
			if _, ok := obj.Type().Underlying().(*types.Pointer); ok && strings.HasPrefix(namedTypeName(obj.Type()), "TraitEntry") {
				entry = v
			}
		}
		strategies := map[string]int64{"EvictMostExpired": 0, "EvictLeastRecentlyUsed": 1, "EvictLeastFrequentlyUsed": 2}
		seen := map[string]int{}
		bad := false
		for _, p := range paths {
			if t, known := p.Truth(found); !known || !t {
				continue
			}
			if n, known := p.NilFact(entry); known && n {
				continue
			}
			var strat *pw.Val
			var now *pw.Val
			var stores, adds []*pw.Event
			for _, ev := range p.Events {
				if ev.Kind == pw.EvFieldRead && ev.Field != nil && fname(ev.Field) == "EvictionStrategy" {
					strat = ev.Value
				}
				if ev.Kind == pw.EvCall && ev.Role == "Std:time.Time.UnixNano" && now == nil {
					now = ev.Results[0]
				}
				if ev.Kind == pw.EvCall && len(ev.Args) == 2 && ev.Args[0].Field != nil && fname(ev.Args[0].Field) == "C" {
					switch ev.Role {
					case "Std:atomic.StoreInt64":
						stores = append(stores, ev)
					case "Std:atomic.AddInt64":
						adds = append(adds, ev)
					}
				}
				if ev.Kind == pw.EvFieldWrite && ev.Field != nil && fname(ev.Field) == "C" {
					r.Bad("R12.3", name, "non-atomic-counter", c.Pos(ev.Pos), "entry.C is written without sync/atomic", shortTrace(p))
					bad = true
				}
			}
			if strat == nil {
				// an entry is served (as a hit or as a stale value carried by the expiry error) without consulting the strategy
				r.Bad("R12.3", name, "serve-without-usage-update", c.Pos(p.RetPos), "a path that serves a stored entry (fresh or expired-but-retained) does not maintain its usage counter: LRU/LFU ranks ignore these serves", shortTrace(p))
				bad = true
				continue
			}
			for sname, sv := range strategies {
				if rel := p.Rel(strat, e.IntConst(sv)); rel != pw.REq {
					// also the strategy of this path when every other strategy is excluded (the default arm of a switch,
					// the fall-through of an if chain) and this one is not
					if rel&pw.REq == 0 {
						continue
					}
					others := false
					for oname, ov := range strategies {
						if oname != sname && p.Rel(strat, e.IntConst(ov))&pw.REq != 0 {
							others = true
						}
					}
					if others {
						continue
					}
				}
				seen[sname]++
				switch sname {
				case "EvictMostExpired":
					if len(stores)+len(adds) != 0 {
						r.Bad("R12.3", name, "counter-on-default-strategy", c.Pos(p.RetPos), "EvictMostExpired must not touch the usage counter", shortTrace(p))
						bad = true
					}
				case "EvictLeastRecentlyUsed":
					if len(stores) != 1 || len(adds) != 0 || stores[0].Args[1] != now {
						r.Bad("R12.3", name, "lru-stamp", c.Pos(p.RetPos), "every LRU serve must store the current time into entry.C (exactly one atomic store of now)", shortTrace(p))
						bad = true
					}
				case "EvictLeastFrequentlyUsed":
					one := false
					if len(adds) == 1 {
						if cst, ok := poly.Of(adds[0].Args[1], nil).IsConst(); ok && cst.Cmp(big.NewRat(1, 1)) == 0 {
							one = true
						}
					}
					if !one || len(stores) != 0 {
						r.Bad("R12.3", name, "lfu-count", c.Pos(p.RetPos), "every LFU serve must add exactly 1 to entry.C atomically", shortTrace(p))
						bad = true
					}
				}
			}
		}
		if seen["EvictMostExpired"] == 0 || seen["EvictLeastRecentlyUsed"] == 0 || seen["EvictLeastFrequentlyUsed"] == 0 {
			r.Unknown("R12.3", name, fmt.Sprintf("strategy paths not all found: %v", seen))
		} else if !bad {
			r.OK("R12.3", name, fmt.Sprintf("counter maintenance per strategy on %v serve paths", seen))
		}
	}
}

// argForParam: obj is a parameter of the declared function fd; returns the argument a call of fd found in bodies passes for it (the
// call whose receiver / arguments belong to the backend analysed is the one in bodies[0], the constructor).
func (c *Ctx) argForParam(fd *ast.FuncDecl, obj types.Object, bodies []*ast.FuncDecl) ast.Expr {
	if obj == nil || fd == nil || fd.Type.Params == nil {
		return nil
	}
	info := c.Pkg.TypesInfo
	idx, n := -1, 0
	for _, f := range fd.Type.Params.List {
		for _, nm := range f.Names {
			if info.Defs[nm] == obj {
				idx = n
			}
			n++
		}
	}
	if idx < 0 {
		return nil
	}
	fobj := info.Defs[fd.Name]
	var found ast.Expr
	for _, bd := range bodies {
		ast.Inspect(bd.Body, func(x ast.Node) bool {
			call, ok := x.(*ast.CallExpr)
			if !ok || found != nil {
				return true
			}
			fun := ast.Unparen(call.Fun)
			if ix, ok := fun.(*ast.IndexExpr); ok {
				fun = ix.X
			}
			var callee types.Object
			switch f := fun.(type) {
			case *ast.Ident:
				callee = info.Uses[f]
			case *ast.SelectorExpr:
				callee = info.Uses[f.Sel]
			}
			if fo, _ := callee.(*types.Func); fo != nil && fobj != nil && fo.Origin() == fobj.(*types.Func).Origin() && idx < len(call.Args) {
				found = call.Args[idx]
			}
			return true
		})
		if found != nil {
			break
		}
	}
	return found
}
