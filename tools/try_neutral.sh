#!/bin/bash
# usage: try_neutral.sh <worktree> <diff>  — applies diff in the worktree, runs all 18 quick checks against it, reverts; prints only non-green results
W="$1"; D="$2"; SCR=$(mktemp -d /tmp/tryneutral.XXXX); cp /verif/known_findings.json "$SCR/"
git -C "$W" checkout -q -- . ; git -C "$W" apply "$D" || { echo "APPLY FAILED $D"; exit 3; }
bad=0
for p in C01 C02 C03 C04 C05 C06 C07 C08 C09 C10 C11 C12 C13 C14 C15 C16 C17 C18; do
  o=$(${CL:-/verif/bin/cachelint} -repo "$W" -verif "$SCR" -prop $p 2>&1); rc=$?
  if [ $rc -ne 0 ]; then bad=1; echo "--- $p exit=$rc"; echo "$o" | grep -E "violated|BROKEN|UNDECIDED" | cut -c1-300 | head -6; fi
done
[ $bad -eq 0 ] && echo "all 18 green"
git -C "$W" apply -R "$D" 2>/dev/null; git -C "$W" checkout -q -- . ; rm -rf "$SCR"
