#!/usr/bin/env python3
"""usage: seed_prompts.py <round> <root dir> — writes <root>/<Cxx>.prompt.txt for a seeding round and creates a scratch worktree of
/repo HEAD at <root>/<Cxx> for each property. The prompt holds ONLY the property text (title, statement, quantifier), one-line
summaries of the ideas of earlier rounds (so that they are not repeated) and general instructions; nothing from /verif's rules."""
import json, os, subprocess, sys, glob
rnd, root = sys.argv[1], sys.argv[2]
props = [json.loads(l) for l in open('/verif/properties.jsonl')]
FOCUS = open(os.path.join(os.path.dirname(__file__), 'seed_focus_r%s.txt' % rnd)).read()
for p in props:
    pid = p['id']
    prior = []
    for d in sorted(glob.glob(f'/verif/seeded/{pid}-*/meta.json')):
        m = json.load(open(d))
        s = ' '.join((m.get('summary') or '').split())
        if s:
            prior.append('  - ' + s[:230])
    w = f'{root}/{pid}'
    if not os.path.exists(w):
        subprocess.check_call(['git', '-C', '/repo', 'worktree', 'add', '-q', '--detach', w, 'HEAD'])
    text = f"""You are working on the Go library github.com/bool64/cache (an in-memory cache: sharded-map and sync.Map backends with TTL, eviction, label invalidation, and a stampede-protecting Failover frontend that serves stale values). Your own scratch git worktree of it is at {w} — work ONLY inside that directory. Never read or touch /repo, /verif or other directories under /tmp. The sandbox has no network. Prefix every go command with:
  export GOFLAGS=-mod=mod GOPROXY=off GOSUMDB=off GOTOOLCHAIN=local; unset GOWORK
The existing test suite is run with: cd {w} && go test -vet=off -count=1 ./...   (about 20 s; the tests TestFailover_Get_BackgroundUpdateMaxExpiration / TestFailover_Get_BackgroundUpdate are timing-flaky on the unmodified tree under load: if only they fail, re-run). `go test -race` also works offline. go.mod says `go 1.18`.

Here is a semantic property of the library that is supposed to hold:

---
{pid} — {p['title']}

{p['statement']}

Quantified over: {p['quantifier']['text']}
---

TASK. Produce the requested number of different changes (see the round focus below; THREE unless it says otherwise) to the library's non-test source files, each of which BREAKS this property while the library still compiles and the whole existing test suite still passes, each with a demonstration (a new Go test file) that FAILS with the change applied and PASSES without it.

Other engineers already tried the following ideas for this property — do NOT repeat them or close variants (same function + same mechanism):
{chr(10).join(prior)}

{FOCUS}
Each change must need something SPECIFIC to manifest (particular values, sizes, timing, configuration, sequence) so that the existing tests still pass, and must look like an ordinary commit (refactoring, optimisation, clean-up, tweak, small feature) without sabotage comments. Keep it small (ideally 1–25 changed lines). Read the relevant source first.

DELIVERABLES, all written into {w}/ (do not commit anything): for i = 1..3
- seed<i>.diff: output of `git diff` for the library change only (NOT including the demo file), applicable with `git apply` to a clean checkout.
- seed<i>_demo_test.go.txt: the demonstration test source (keep the .txt suffix), with the exact command to run it in a header comment. Name the test functions TestSeed<i>_... .
- seed<i>_meta.json: {{"property": "{pid}", "clause": "...which clause / configuration of the property is attacked...", "summary": "...what was changed and why it breaks the property...", "needs_to_manifest": "...", "files_changed": [...], "demo_cmd": "...", "needs_race_detector": true/false, "verified": {{"suite_passes_with_change": true/false, "demo_fails_with_change": true/false, "demo_passes_without_change": true/false}}}}
You must actually run and verify all three facts for each change (apply change → full suite passes, demo fails; revert with `git checkout -- .` → demo passes). Make demos deterministic so they fail reliably (≥ 9 of 10 runs) with the change. At the end leave the worktree clean of library changes (only deliverable files remain untracked) and report briefly what you produced. If you can only find two solid changes, deliver two.
"""
    open(f'{root}/{pid}.prompt.txt', 'w').write(text)
print('prompts written to', root)
