// Package pw is engine B of cachelint: a path-sensitive typestate walker over the typed
// syntax tree of (mostly loop-free) functions. It enumerates every entry→exit path of a
// function, prunes infeasible ones with a finite predicate abstraction (nil-ness, truth of
// boolean atoms, order/equality relations between abstract values), inlines repo-internal
// helpers up to a bound, and summarises each surviving path as a sequence of typed events.
// Nothing is executed: values are abstract provenance terms, never data.
package pw

import (
	"fmt"
	"go/ast"
	"go/constant"
	"go/token"
	"go/types"
	"sort"
	"strings"
)

// Kind classifies an abstract value by provenance.
type Kind int

// Value kinds.
const (
	KUnknown  Kind = iota
	KConst         // literal or named constant (Const set) or the nil literal (IsNil)
	KZero          // zero value of a declared-but-unassigned variable
	KParam         // parameter or receiver of the entry function (or of a spawned closure)
	KCall          // Idx-th result of call event Ev
	KField         // value read from a field/heap location Path that was not written on this path
	KAlloc         // composite literal, make, new
	KAddr          // address of location Path
	KConv          // conversion of Src to Type
	KArith         // Src Op Src2
	KUnary         // Op Src
	KClosure       // function literal
	KRangeKey      // key/index variable of a range loop over Src
	KRangeVal      // value variable of a range loop over Src
	KIndex         // Src[Src2] (slice, array, string)
	KSlice         // Src[a:b]
	KAsTarget      // target of a successful errors.As(Src, &target)
	KAssert        // Src.(Type)
	KGlobal        // package level variable
	KFuncRef       // reference to a declared function or method value (Recv set for method values)
	KRecv          // value received from a channel
	KMapVal        // value result of a map lookup event Ev
	KMapOk         // ok result of a comma-ok map lookup / type assertion / receive
	KAppend        // append(Src, Elems...)
	KHavoc         // variable modified in a loop body, value after the loop
	KLen           // len(Src)
)

var kindNames = map[Kind]string{
	KUnknown: "unknown", KConst: "const", KZero: "zero", KParam: "param", KCall: "call", KField: "field",
	KAlloc: "alloc", KAddr: "addr", KConv: "conv", KArith: "arith", KUnary: "unary", KClosure: "closure",
	KRangeKey: "rangekey", KRangeVal: "rangeval", KIndex: "index", KSlice: "slice", KAsTarget: "astarget",
	KAssert: "assert", KGlobal: "global", KFuncRef: "funcref", KRecv: "recv", KMapVal: "mapval", KMapOk: "ok",
	KAppend: "append", KHavoc: "havoc", KLen: "len",
}

func (k Kind) String() string { return kindNames[k] }

// Val is an abstract value.
type Val struct {
	ID     int
	Kind   Kind
	Type   types.Type
	Const  constant.Value
	IsNil  bool
	Obj    types.Object
	Ev     *Event
	Idx    int
	Src    *Val
	Src2   *Val
	Op     token.Token
	Path   string
	Field  *types.Var
	Fields map[string]*Val
	Elems  []*Val
	Lit    *ast.FuncLit
	Recv   *Val
	NonNil bool
	Pos    token.Pos
	Canon  *Val // named constants: the value-interned constant used for relation facts
	// Escaped: the allocation was handed to opaque code (a decoder, a user callback): fields it was not given at its allocation site
	// are unknown afterwards, not zero
	Escaped bool
	InGo    bool // built while the body of a spawned (`go`) function was walked, i.e. possibly after the spawner returned
}

func (v *Val) String() string {
	if v == nil {
		return "<nil>"
	}
	switch v.Kind {
	case KConst:
		if v.IsNil {
			return "nil"
		}
		if v.Const != nil {
			return v.Const.ExactString()
		}
		if v.Obj != nil {
			return v.Obj.Name()
		}
		return "const"
	case KParam:
		return fmt.Sprintf("$%d:param(%s)", v.ID, v.Obj.Name())
	case KCall:
		n := "?"
		if v.Ev != nil {
			n = v.Ev.Name()
		}
		return fmt.Sprintf("$%d:%s#%d.%d", v.ID, n, v.Ev.Seq, v.Idx)
	case KField:
		return fmt.Sprintf("$%d:field(%s)", v.ID, v.Path)
	case KAddr:
		return fmt.Sprintf("$%d:&%s", v.ID, v.Path)
	case KConv:
		return fmt.Sprintf("$%d:conv(%s→%s)", v.ID, v.Src, typeStr(v.Type))
	case KArith:
		return fmt.Sprintf("$%d:(%s %s %s)", v.ID, v.Src, v.Op, v.Src2)
	case KZero:
		n := ""
		if v.Obj != nil {
			n = v.Obj.Name()
		}
		return fmt.Sprintf("$%d:zero(%s)", v.ID, n)
	case KGlobal, KFuncRef:
		return fmt.Sprintf("$%d:%s(%s)", v.ID, v.Kind, v.Obj.Name())
	case KAsTarget, KAssert, KSlice, KLen, KRangeKey, KRangeVal, KHavoc:
		return fmt.Sprintf("$%d:%s(%s)", v.ID, v.Kind, v.Src)
	case KIndex:
		return fmt.Sprintf("$%d:%s[%s]", v.ID, v.Src, v.Src2)
	case KMapVal, KMapOk, KRecv:
		return fmt.Sprintf("$%d:%s#%d", v.ID, v.Kind, v.Ev.Seq)
	}
	return fmt.Sprintf("$%d:%s", v.ID, v.Kind)
}

func typeStr(t types.Type) string {
	if t == nil {
		return "?"
	}
	return types.TypeString(t, func(p *types.Package) string { return p.Name() })
}

// Loc is the heap location a pointer-like value designates.
func (v *Val) Loc() string {
	if v.Kind == KAddr {
		return v.Path
	}
	return fmt.Sprintf("$%d", v.ID)
}

// EvKind is the kind of an event.
type EvKind int

// Event kinds.
const (
	EvCall EvKind = iota
	EvLock
	EvMapLookup
	EvMapInsert
	EvMapDelete
	EvMapIter
	EvMapLen
	EvFieldRead
	EvFieldWrite
	EvClose
	EvRecv
	EvSend
	EvGo
	EvDefer
	EvReturn
	EvEnter
	EvExit
	EvLoopBegin
	EvLoopEnd
	EvAssign
	EvPanic
	EvUnsupported
	EvIndexWrite
	EvDeref
	EvStructCopy
	EvLoopZero // a loop statement was reached and executed zero iterations on this path
)

var evNames = map[EvKind]string{
	EvCall: "call", EvLock: "lock", EvMapLookup: "maplookup", EvMapInsert: "mapinsert", EvMapDelete: "mapdelete",
	EvMapIter: "mapiter", EvMapLen: "maplen", EvFieldRead: "fieldread", EvFieldWrite: "fieldwrite", EvClose: "close",
	EvRecv: "recv", EvSend: "send", EvGo: "go", EvDefer: "defer", EvReturn: "return", EvEnter: "enter", EvExit: "exit",
	EvLoopBegin: "loopbegin", EvLoopEnd: "loopend", EvAssign: "assign", EvPanic: "panic", EvUnsupported: "unsupported",
	EvIndexWrite: "indexwrite", EvDeref: "deref", EvStructCopy: "structcopy", EvLoopZero: "loopzero",
}

func (k EvKind) String() string { return evNames[k] }

// Event is one step of a path summary.
type Event struct {
	Seq       int
	Kind      EvKind
	Pos       token.Pos
	Role      string
	Callee    *types.Func // origin of the resolved callee (nil for dynamic calls)
	CalleeVal *Val        // dynamic calls: the function value
	Recv      *Val
	Args      []*Val
	Results   []*Val
	Path      string
	Field     *types.Var
	Key       *Val
	Value     *Val
	Op        string
	Sub       []*Path // EvGo: paths of the spawned function
	Fn        *types.Func
	FnLit     *ast.FuncLit
	Frame     *Frame // frame in which the event happened
	Obj       types.Object
	Note      string
	Loop      ast.Node // innermost loop statement the event is in (nil if none)
	Write     bool     // EvLock: exclusive
	def       *deferred
}

// Name is a short printable name of a call event's callee.
func (e *Event) Name() string {
	if e.Callee != nil {
		return FuncName(e.Callee)
	}
	if e.CalleeVal != nil {
		if e.CalleeVal.Obj != nil {
			return "dyn:" + e.CalleeVal.Obj.Name()
		}
		if e.CalleeVal.Field != nil {
			return "dyn:" + e.CalleeVal.Field.Name()
		}
		return "dyn:" + e.CalleeVal.Kind.String()
	}
	return "?"
}

// FuncName renders pkg.Func or pkg.(Type).Method without type arguments.
// CanonFunc maps functions of the subject to the canonical name the rules know them by (set by the rule layer when an unexported
// helper was renamed or moved and has been re-identified by its shape).
var CanonFunc map[*types.Func]string

// CanonType maps named types of the subject to the canonical name the rules know them by (used in method names).
var CanonType map[*types.TypeName]string

func typeObjName(o *types.TypeName) string {
	if n, ok := CanonType[o]; ok {
		return n
	}
	return o.Name()
}

// CanonGlobal maps package-level variables of the subject to the canonical name the rules know them by.
var CanonGlobal map[types.Object]string

// GlobalName is the (canonical) name of a package-level variable.
func GlobalName(o types.Object) string {
	if n, ok := CanonGlobal[o]; ok {
		return n
	}
	return o.Name()
}

func FuncName(f *types.Func) string {
	if f == nil {
		return "?"
	}
	f = f.Origin()
	if n, ok := CanonFunc[f]; ok {
		return n
	}
	sig, _ := f.Type().(*types.Signature)
	pkg := ""
	if f.Pkg() != nil {
		pkg = f.Pkg().Name() + "."
	}
	if sig != nil && sig.Recv() != nil {
		t := sig.Recv().Type()
		if p, ok := t.(*types.Pointer); ok {
			t = p.Elem()
		}
		switch n := t.(type) {
		case *types.Named:
			return pkg + typeObjName(n.Obj()) + "." + f.Name()
		case *types.Alias:
			return pkg + typeObjName(n.Obj()) + "." + f.Name()
		}
		return pkg + "?." + f.Name()
	}
	return pkg + f.Name()
}

func (e *Event) String() string {
	var b strings.Builder
	fmt.Fprintf(&b, "#%d %s", e.Seq, e.Kind)
	if e.Role != "" {
		fmt.Fprintf(&b, "[%s]", e.Role)
	}
	switch e.Kind {
	case EvCall:
		fmt.Fprintf(&b, " %s", e.Name())
	case EvLock:
		fmt.Fprintf(&b, " %s %s", e.Op, e.Path)
	case EvEnter, EvExit:
		if e.Fn != nil {
			fmt.Fprintf(&b, " %s", FuncName(e.Fn))
		} else {
			b.WriteString(" closure")
		}
	case EvAssign:
		if e.Obj != nil {
			fmt.Fprintf(&b, " %s", e.Obj.Name())
		}
	default:
		if e.Path != "" {
			fmt.Fprintf(&b, " %s", e.Path)
		}
	}
	if e.Frame != nil && e.Frame.Deferred {
		b.WriteString(" (deferred)")
	}
	return b.String()
}

// Frame is one activation (entry function, inlined callee, closure, deferred closure).
type Frame struct {
	Fn       *types.Func
	Lit      *ast.FuncLit
	Parent   *Frame
	Depth    int
	Deferred bool // the frame (or an ancestor) runs as a deferred call
	Spawned  bool // the frame (or an ancestor) runs in a spawned goroutine
	CallEv   *Event
	results  []*types.Var
}

// InFunc reports whether the frame or an ancestor is an activation of a function with this name.
func (f *Frame) InFunc(name string) bool {
	for x := f; x != nil; x = x.Parent {
		if x.Fn != nil && FuncName(x.Fn) == name {
			return true
		}
	}
	return false
}

func (f *Frame) active(fn *types.Func) bool {
	for x := f; x != nil; x = x.Parent {
		if x.Fn == fn {
			return true
		}
	}
	return false
}

// Top returns the nearest enclosing declared-function name.
func (f *Frame) Top() string {
	for x := f; x != nil; x = x.Parent {
		if x.Fn != nil {
			return FuncName(x.Fn)
		}
	}
	return ""
}

type deferred struct {
	call *ast.CallExpr
	fn   *Val
	args []*Val
	recv *Val
	cal  *types.Func
	pos  token.Pos
}

type ctrl int

const (
	cNormal ctrl = iota
	cReturn
	cBreak
	cContinue
	cPanic
)

// State is the abstract state along one path.
type State struct {
	env     map[types.Object]*Val
	heap    map[string]*Val
	nilF    map[int]bool
	truth   map[int]bool
	rel     map[[2]int]uint8
	Events  []*Event
	Trace   []string
	ctrl    ctrl
	label   string
	ret     []*Val
	retPos  token.Pos
	frame   *Frame
	loops   []ast.Node
	Unsup   []string
	seq     int
	dead    bool
	written map[string]bool
}

// Relation bits.
const (
	RLt  uint8 = 1
	REq  uint8 = 2
	RGt  uint8 = 4
	RAny       = RLt | REq | RGt
)

func (s *State) clone() *State {
	n := &State{
		env: make(map[types.Object]*Val, len(s.env)), heap: make(map[string]*Val, len(s.heap)),
		nilF: make(map[int]bool, len(s.nilF)), truth: make(map[int]bool, len(s.truth)),
		rel: make(map[[2]int]uint8, len(s.rel)), written: make(map[string]bool, len(s.written)),
		ctrl: s.ctrl, label: s.label, ret: s.ret, retPos: s.retPos, frame: s.frame, seq: s.seq,
	}
	for k, v := range s.env {
		n.env[k] = v
	}
	for k, v := range s.heap {
		n.heap[k] = v
	}
	for k, v := range s.nilF {
		n.nilF[k] = v
	}
	for k, v := range s.truth {
		n.truth[k] = v
	}
	for k, v := range s.rel {
		n.rel[k] = v
	}
	for k, v := range s.written {
		n.written[k] = v
	}
	n.Events = append([]*Event(nil), s.Events...)
	n.Trace = append([]string(nil), s.Trace...)
	n.loops = append([]ast.Node(nil), s.loops...)
	n.Unsup = append([]string(nil), s.Unsup...)
	return n
}

// Path is a completed entry→exit path.
type Path struct {
	Events []*Event
	Ret    []*Val
	RetPos token.Pos
	Trace  []string
	Unsup  []string
	Panic  bool
	st     *State
}

// NilFact returns (isNil, known).
func (p *Path) NilFact(v *Val) (bool, bool) { return p.st.nilKnown(v) }

// Truth returns (value, known) of a boolean abstract value.
func (p *Path) Truth(v *Val) (bool, bool) { return p.st.truthKnown(v) }

// Rel returns the set of relations still possible between a and b on this path.
func (p *Path) Rel(a, b *Val) uint8 { return p.st.relOf(a, b) }

// RelFacts lists the recorded relation facts (pairs of value ids) of the path.
func (p *Path) RelFacts() map[[2]int]uint8 { return p.st.rel }

// NilFacts lists recorded nil facts.
func (p *Path) NilFacts() map[int]bool { return p.st.nilF }

// TruthFacts lists recorded truth facts.
func (p *Path) TruthFacts() map[int]bool { return p.st.truth }

// FieldOf returns the value a field of an allocation holds at the end of the path: the last value assigned through the
// allocation (entry := new(T); entry.K = k) or, failing that, the value given in its composite literal.
func (p *Path) FieldOf(v *Val, name string) *Val {
	if v == nil {
		return nil
	}
	base := v
	if v.Kind == KAddr && v.Src != nil {
		base = v.Src
	}
	for _, loc := range []string{v.Loc() + "." + name, base.Loc() + "." + name} {
		if hv, ok := p.st.heap[loc]; ok && hv != nil && p.st.written[loc] {
			return hv
		}
	}
	if base.Fields != nil {
		return base.Fields[name]
	}
	return nil
}

// Heap returns the final value stored at a heap location, if written or read on the path.
func (p *Path) Heap(loc string) *Val { return p.st.heap[loc] }

// EventsOf filters events by kind.
func (p *Path) EventsOf(k EvKind) []*Event {
	var out []*Event
	for _, e := range p.Events {
		if e.Kind == k {
			out = append(out, e)
		}
	}
	return out
}

// Calls returns call events with the given role.
func (p *Path) Calls(role string) []*Event {
	var out []*Event
	for _, e := range p.Events {
		if e.Kind == EvCall && e.Role == role {
			out = append(out, e)
		}
	}
	return out
}

// Summary renders the path compactly (for replay files).
func (p *Path) Summary(fset *token.FileSet) []string {
	var out []string
	for _, e := range p.Events {
		switch e.Kind {
		case EvFieldRead, EvAssign, EvDeref:
			continue
		}
		pos := fset.Position(e.Pos)
		out = append(out, fmt.Sprintf("%s:%d %s", shortFile(pos.Filename), pos.Line, e.String()))
	}
	return out
}

func shortFile(f string) string {
	if i := strings.LastIndex(f, "/"); i >= 0 {
		return f[i+1:]
	}
	return f
}

// SortedKeys is a small helper for deterministic output.
func SortedKeys[M ~map[string]V, V any](m M) []string {
	ks := make([]string, 0, len(m))
	for k := range m {
		ks = append(ks, k)
	}
	sort.Strings(ks)
	return ks
}
