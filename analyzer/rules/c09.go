package rules

import (
	"fmt"
	"go/ast"
	"go/types"
	"sort"
	"strings"

	"cachelint/pw"
)

func init() { register("C09", checkC09) }

// nonRetainingStd: standard/third-party callees that read a byte slice argument without keeping it.
var nonRetainingStd = map[string]bool{
	"Std:xxhash.Sum64": true, "Std:bytes.Equal": true, "Std:bytes.Compare": true, "Std:bytes.HasPrefix": true,
	"Std:len": true, "builtin.copy": true,
}

// reaches reports whether v (deeply: through literals, addresses, appends, slices) aliases src.
func reaches(v, src *pw.Val) bool {
	seen := 0
	var rec func(x *pw.Val) bool
	rec = func(x *pw.Val) bool {
		seen++
		if x == nil || seen > 200 {
			return false
		}
		if aliases(x, src) {
			return true
		}
		switch x.Kind {
		case pw.KAlloc:
			for _, f := range x.Fields {
				if rec(f) {
					return true
				}
			}
			for _, e := range x.Elems {
				if rec(e) {
					return true
				}
			}
		case pw.KAddr:
			return rec(x.Src)
		case pw.KAppend:
			// append(dst, src...) copies the bytes of a []byte src; append(dst, src) of a [][]byte keeps the reference
			if x.Src != nil && rec(x.Src) {
				return true
			}
			for _, e := range x.Elems {
				if x.Op.String() == "..." {
					if _, isByteSlice := e.Type.Underlying().(*types.Slice); isByteSlice && aliases(e, src) {
						continue // element-wise copy of bytes
					}
				}
				if rec(e) {
					return true
				}
			}
		case pw.KConv:
			if !isCopyConv(x) {
				return rec(x.Src)
			}
		}
		return false
	}
	return rec(v)
}

func checkC09(c *Ctx) {
	r := c.R
	r.Explanation = "Static ownership analysis of every function of the package that takes a key slice ([]byte parameter named key/k), with its " +
		"own-type helpers inlined, over all paths. (R09.1) no path retains the caller's slice: it is not stored in a field, map, slice " +
		"element or channel, not returned, not captured by a spawned goroutine, and not passed to a callee outside the checked set " +
		"(in-module key-taking functions are themselves subjects; Reader/Writer/Deleter interface calls resolve to in-module " +
		"implementations that are subjects; logger call-outs are user code and exempt; xxhash.Sum64/bytes.Equal/copy/append(…, k...) " +
		"do not retain). (R09.2) every Write stores a private copy of the key. (R09.3) in the sharded maps every path of Read that returns " +
		"a value or an expiry error, and every path of Delete that removes an entry, has taken the true edge of bytes.Equal(entry.K, key): " +
		"a hash collision can only become a miss. Does not decide xxhash itself or user backends."
	r.Rule("R09.1", "nobody retains the caller's key slice", 15)
	r.Rule("R09.2", "stored keys are private copies (every Write)", 3)
	r.Rule("R09.3", "hash lookups are confirmed by the full key before the entry is used or deleted", 4)
	r.Rule("R09.5", "label invalidation de-duplicates by the key itself, not by a digest of it", 1)
	r.Rule("R09.4", "Failover's per-key build locks are keyed by string(key) (not by a hash: colliding keys must not share a build)", 2)
	r.NotDecided = []string{"xxhash collisions themselves", "user backends / loggers keeping the slice"}
	c.c09Retention()
	for _, b := range backends {
		c.c09WriteCopies(b)
		if b.Sharded {
			c.c09Confirm(b)
		}
	}
	// R09.2 also for Restore: every restored entry owns its key (a decode target re-used across records shares one key buffer)
	c.borrow("C13", func() { checkC13(c) }, func(o *coreObl) (string, bool) { return "R09.2", o.Rule == "R13.1" })
	// R09.5: label invalidation remembers processed keys by the key itself (a digest would let a colliding key's entry survive)
	c.borrowKinds("C15", func() { c.c15Protocol() }, "R09.5", "InvalidationIndex.invalidateByLabels", []string{"R15.3"}, "dedup-key")
	// … and a key is associated with the labels it was given, only those: every label's list gets string(key) appended to that
	// label's own list (lists of different labels sharing storage would hand one label's key to another label's invalidation)
	c.borrowKinds("C15", func() { c.c15Labelling() }, "R09.5", "InvalidationIndex.AddLabels:own-list", []string{"R15.6"}, "label-not-recorded", "labels-filed-under-other-name")
	// a result handed out for key k stays k's: stored entries are never written again (a slot matched by hash only and updated in
	// place turns the expired entry a reader still holds into another key's value) (C08 R08.6 = C16 R16.1 on the entry types); and
	// "a collision may at most cost a cache miss": Delete of a key whose slot holds another key reports ErrNotFound itself (C07 R07.3)
	c.borrow("C16", func() { c.c16Classified(); c.c16Accesses() }, func(o *coreObl) (string, bool) {
		if o.Status != "violated" || o.Rule != "R16.1" || !strings.HasPrefix(o.Construct, "TraitEntry") || !strings.HasPrefix(o.What, "write-after-publication") {
			return "", false
		}
		if strings.HasSuffix(o.Construct, ".E") && strings.HasSuffix(o.What, "ExpireAll") {
			return "", false // the known in-place expiry stamp of SyncMap.ExpireAll keeps key and value
		}
		return "R09.2", true
	})
	c.R.OK("R09.2", "backends:stored-entries-immutable", "K and V of stored entries are never written after publication (C16 R16.1 restricted to the entry types)")
	c.borrowKinds("C07", func() {
		for _, b := range backends {
			c.c07Delete(b)
		}
	}, "R09.3", "backends.Delete:collision-is-a-miss", []string{"R07.3"}, "other-error", "removed-but-notfound", "nil-without-evidence")
	// the sync.Map backend has no key comparison of its own: it is keyed by the entire key (string(key)), so a slot IS a key (C07
	// R07.1) — keyed by a digest, Delete/LoadAndDelete removes a colliding key's live entry before any comparison can happen
	c.borrowKinds("C07", func() {
		for _, b := range backends {
			if !b.Sharded {
				c.c07Index(b)
			}
		}
	}, "R09.3", "syncMap:keyed-by-the-entire-key", []string{"R07.1"}, "string-of-key", "restore-index")
	// R09.4: the per-key build locks of the Failover frontends are keyed by the full key, not by a hash of it
	for _, sib := range siblings {
		fo := c.failover(sib)
		if fo.Err != nil {
			continue
		}
		c.borrowKinds("C01", func() { c.c01Sibling(fo) }, "R09.4", sib+".Get", []string{"R01.2", "R01.5"}, "insert-key", "lookup-key", "release-key")
		// … and the entry an owner releases is the one it registered: exactly one release at the end of the owner's own path, with the
		// key and entry of that path (a release done by a shared dispatcher goroutine through a loop variable deletes another key's lock)
		c.borrowKinds("C01", func() { c.c01Sibling(fo) }, "R09.4", sib+".Get:own-release", []string{"R01.4"}, "missing-release", "double-release")
	}
}

// c09WriteCopies: R09.2 for one backend.
func (c *Ctx) c09WriteCopies(b BK) {
	r := c.R
	{
		run := c.bk(b, b.Name+".Write", true)
		if run.err != nil {
			r.Unknown("R09.2", b.Name+".Write", run.err.Error())
			return
		}
		key := keyParamOf(run.e)
		bad := false
		n := 0
		for _, p := range run.paths {
			for _, ev := range p.Events {
				var ent *pw.Val
				if b.Sharded && ev.Kind == pw.EvMapInsert && isShardData(ev) {
					ent = pointee(ev.Value)
				}
				if !b.Sharded && isSyncStore(p, ev) {
					ent = pointee(ev.Args[1])
				}
				if ent == nil {
					continue
				}
				n++
				if ent.Kind != pw.KAlloc || !isFreshCopyOf(p.Events, p.FieldOf(ent, "K"), key) {
					r.Bad("R09.2", b.Name+".Write", "stored-key-not-copy", c.Pos(ev.Pos), "the stored entry's K is not a private copy of the key parameter: "+fmt.Sprint(p.FieldOf(ent, "K")), shortTrace(p))
					bad = true
				}
			}
		}
		if n == 0 {
			r.Unknown("R09.2", b.Name+".Write", "no store found")
		} else if !bad {
			r.OK("R09.2", b.Name+".Write", fmt.Sprintf("%d stores on %d paths", n, len(run.paths)))
		}
	}
}

// keyFuncs lists all functions of the package with a []byte parameter named key or k.
func (c *Ctx) keyFuncs() []*types.Func {
	var out []*types.Func
	c.eachFuncDecl(func(fd *ast.FuncDecl, fn *types.Func) {
		sig := fn.Type().(*types.Signature)
		for i := 0; i < sig.Params().Len(); i++ {
			p := sig.Params().At(i)
			if sl, ok := p.Type().Underlying().(*types.Slice); ok && (p.Name() == "key" || p.Name() == "k") {
				if b, ok := sl.Elem().Underlying().(*types.Basic); ok && b.Kind() == types.Byte {
					out = append(out, fn)
				}
			}
		}
	})
	sort.Slice(out, func(i, j int) bool { return pw.FuncName(out[i]) < pw.FuncName(out[j]) })
	return out
}

func (c *Ctx) c09Retention() {
	r := c.R
	funcs := c.keyFuncs()
	subject := map[string]bool{}
	for _, fn := range funcs {
		subject[strings.TrimPrefix(pw.FuncName(fn), "cache.")] = true
	}
	r.Count("key_taking_functions", len(funcs))
	for _, fn := range funcs {
		name := strings.TrimPrefix(pw.FuncName(fn), "cache.")
		var paths []*pw.Path
		var key *pw.Val
		recvType := ""
		if sig := fn.Type().(*types.Signature); sig.Recv() != nil {
			recvType = namedTypeName(sig.Recv().Type())
		}
		if name == "Failover.Get" || name == "FailoverOf.Get" {
			fo := c.failover(recvType)
			if fo.Err != nil {
				r.Unknown("R09.1", name, fo.Err.Error())
				continue
			}
			paths, key = fo.Paths, fo.Key
		} else {
			pol := pw.Policy{
				Inline: func(f *types.Func, d int) bool {
					if recvType != "" && sameRecvNamed(f, recvType) {
						return true
					}
					sig, _ := f.Type().(*types.Signature)
					return sig != nil && sig.Recv() == nil && !f.Exported() && f.Pkg() != nil && f.Pkg().Name() == "cache"
				},
				MaxDepth: 3,
			}
			e, ps, _, err := c.runFunc(name, pol)
			if err != nil {
				r.Unknown("R09.1", name, err.Error())
				continue
			}
			paths, key = ps, keyParamOf(e)
		}
		if key == nil {
			r.Unknown("R09.1", name, "key parameter not resolved")
			continue
		}
		bad := false
		report := func(kind string, ev *pw.Event, msg string, p *pw.Path) {
			bad = true
			r.Bad("R09.1", name, kind, c.Pos(ev.Pos), msg, shortTrace(p))
		}
		nSites := 0
		for _, p := range paths {
			check := func(evs []*pw.Event, spawned bool) {
				for _, ev := range evs {
					switch ev.Kind {
					case pw.EvFieldWrite, pw.EvIndexWrite, pw.EvSend:
						nSites++
						if reaches(ev.Value, key) {
							report("stored", ev, "the caller's key slice is stored ("+ev.String()+")", p)
						}
					case pw.EvMapInsert:
						nSites++
						if reaches(ev.Value, key) || aliases(ev.Key, key) {
							report("stored-in-map", ev, "the caller's key slice is stored in a map ("+ev.String()+")", p)
						}
					case pw.EvCall:
						nSites++
						args := ev.Args
						for _, a := range ev.Args {
							if a != nil && a.Kind == pw.KAlloc && a.Type != nil {
								if _, variadic := a.Type.Underlying().(*types.Slice); variadic {
									args = append(args, a.Elems...)
								}
							}
						}
						for _, a := range args {
							if a == nil || !reaches(a, key) {
								continue
							}
							if spawned {
								report("used-in-goroutine", ev, "a spawned goroutine uses the caller's key slice after the call may have returned: "+ev.String(), p)
								continue
							}
							role := ev.Role
							switch {
							case role == "Log":
								// user code, exempt (documented): loggers receive the key for diagnostics
							case nonRetainingStd[role]:
							case strings.HasPrefix(role, "Repo:") && subject[strings.TrimPrefix(role, "Repo:")]:
								// in-module key-taking function: a subject itself
							case role == "BackendRead" || role == "BackendWrite" || role == "IfaceRead" || role == "IfaceWrite" || role == "DeleterDelete" || role == "ErrorsRead" || role == "ErrorsWrite":
								// interface contract; in-module implementations are subjects
							case role == "Std:sync.Map.Load" || role == "Std:sync.Map.LoadAndDelete" || role == "Std:sync.Map.Delete":
								if aliases(ev.Args[0], key) {
									report("syncmap-key", ev, "sync.Map keyed by the caller's slice itself", p)
								}
							default:
								if a.Kind == pw.KConv && isCopyConv(a) {
									continue
								}
								report("passed-to-unchecked-callee", ev, "the caller's key slice is passed to "+ev.Name()+" ("+role+"), which is not known not to retain it", p)
							}
						}
					case pw.EvMapDelete, pw.EvMapLookup:
						if spawned && ev.Key != nil && ev.Key.Kind == pw.KConv && aliases(ev.Key.Src, key) {
							report("used-in-goroutine", ev, "a spawned goroutine converts the caller's key slice after the call may have returned: "+ev.String(), p)
						}
					}
				}
			}
			check(p.Events, false)
			for _, g := range goEvents(p) {
				for _, sp := range g.Sub {
					check(sp.Events, true)
					// a copy (append(nil, key...), string(key), key[i]) taken inside the goroutine reads the caller's buffer when the
					// caller may already own it again: the copy must be taken before the go statement
					if ev, v := readsInGo(sp.Events, key); ev != nil {
						report("read-in-goroutine", ev, "a spawned goroutine reads the bytes of the caller's key slice ("+v.String()+") after the call may have returned; the private copy has to be taken before the go statement", p)
					}
				}
			}
			for _, rv := range p.Ret {
				if reaches(rv, key) {
					bad = true
					r.Bad("R09.1", name, "returned", c.Pos(p.RetPos), "the caller's key slice is returned", shortTrace(p))
				}
			}
		}
		if !bad {
			r.OK("R09.1", name, fmt.Sprintf("%d paths, %d potential sinks", len(paths), nSites))
		}
	}
}

// readsInGo finds a value built inside a spawned function directly from the bytes of the caller's slice.
func readsInGo(evs []*pw.Event, key *pw.Val) (*pw.Event, *pw.Val) {
	seen := map[*pw.Val]bool{}
	var hit *pw.Val
	var rec func(x *pw.Val, d int)
	rec = func(x *pw.Val, d int) {
		if x == nil || hit != nil || seen[x] || d > 12 {
			return
		}
		seen[x] = true
		if x.InGo {
			switch x.Kind {
			case pw.KAppend:
				for _, e := range x.Elems {
					if aliases(e, key) {
						hit = x
						return
					}
				}
				if aliases(x.Src, key) {
					hit = x
					return
				}
			case pw.KConv, pw.KIndex, pw.KLen:
				if aliases(x.Src, key) && x.Kind != pw.KLen {
					hit = x
					return
				}
			}
		}
		rec(x.Src, d+1)
		for _, e := range x.Elems {
			rec(e, d+1)
		}
		for _, f := range x.Fields {
			rec(f, d+1)
		}
	}
	for _, ev := range evs {
		for _, a := range ev.Args {
			rec(a, 0)
		}
		rec(ev.Key, 0)
		rec(ev.Value, 0)
		rec(ev.Recv, 0)
		if hit != nil {
			return ev, hit
		}
		for _, sub := range ev.Sub {
			if e2, v := readsInGo(sub.Events, key); e2 != nil {
				return e2, v
			}
		}
	}
	return nil, nil
}

// c09Confirm: R09.3 on Read and Delete of a sharded backend.
func (c *Ctx) c09Confirm(b BK) {
	r := c.R
	for _, op := range []string{"Read", "Delete", "Load"} {
		name := b.Name + "." + op
		run := c.bk(b, name, true)
		if run.err != nil {
			r.Unknown("R09.3", name, run.err.Error())
			continue
		}
		key := keyParamOf(run.e)
		n := 0
		bad := false
		for _, p := range run.paths {
			var look *pw.Event
			for _, ev := range p.Events {
				if ev.Kind == pw.EvMapLookup && isShardData(ev) && len(ev.Results) == 2 {
					look = ev
				}
			}
			if look == nil {
				continue
			}
			uses := false
			switch op {
			case "Read":
				uses = len(p.Ret) == 2 && !isConstNamed(p.Ret[1], "ErrNotFound")
				// a read that removes what it found (lazy clean-up) uses the entry as well
				for _, ev := range p.Events {
					if ev.Kind == pw.EvMapDelete && isShardData(ev) {
						uses = true
					}
				}
			case "Load":
				if len(p.Ret) == 2 {
					if t, known := p.Truth(p.Ret[1]); !known || t {
						uses = true
					}
				}
			case "Delete":
				for _, ev := range p.Events {
					if ev.Kind == pw.EvMapDelete && isShardData(ev) {
						uses = true
					}
				}
				if n2, known := p.NilFact(p.Ret[0]); known && n2 {
					uses = true
				}
			}
			if !uses {
				continue
			}
			n++
			confirmed := false
			for _, ev := range p.Events {
				if ev.Kind == pw.EvCall && ev.Role == "Std:bytes.Equal" && len(ev.Args) == 2 {
					a, bb := ev.Args[0], ev.Args[1]
					isK := func(v *pw.Val) bool {
						return v.Kind == pw.KField && v.Field != nil && fname(v.Field) == "K" && v.Src == look.Results[0]
					}
					if isK(a) && aliases(bb, key) || isK(bb) && aliases(a, key) {
						if t, known := p.Truth(ev.Results[0]); known && t {
							confirmed = true
						}
					}
				}
			}
			if !confirmed {
				r.Bad("R09.3", name, "unconfirmed-hash-hit", c.Pos(p.RetPos), "the entry found under the key's hash is used without bytes.Equal(entry.K, key) having been true on this path: a colliding key's entry would be served/deleted", shortTrace(p))
				bad = true
			}
		}
		if n == 0 {
			r.Unknown("R09.3", name, "no path uses a looked-up entry")
		} else if !bad {
			r.OK("R09.3", name, fmt.Sprintf("%d entry-using paths, all confirmed by the full key", n))
		}
	}
}
