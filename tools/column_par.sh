#!/bin/bash
# usage: column_par.sh <Cxx> <out dir> [jobs] — after a rule change that touches ONE property's check only: re-runs that property's quick
# check (CL=<binary>) against every neutral diff (must stay green) and every stored seed (its matrix column), N scratch worktrees in
# parallel. Writes <out>/neutral.txt ("ok"/"FAIL" lines) and <out>/column.txt ("<seed id> <exit> <rule keys>").
set -u
P="$1"; OUT="$2"; N=${3:-12}; mkdir -p "$OUT"; : > "$OUT/neutral.txt"; : > "$OUT/column.txt"
T=$(mktemp -d /tmp/colpar.XXXX); cp /verif/known_findings.json "$T/"
{ ls /verif/neutral/*.diff; ls /verif/seeded/*/patch.diff; } > "$T/list"
split -n l/$N -d "$T/list" "$T/part."
for part in "$T"/part.*; do
  (
    W=$(mktemp -d /tmp/colw.XXXX); rmdir "$W"; git -C /repo worktree add -q --detach "$W" HEAD || exit 9
    S=$(mktemp -d /tmp/cols.XXXX); cp /verif/known_findings.json "$S/"
    trap 'git -C /repo worktree remove --force "$W" >/dev/null 2>&1; rm -rf "$S"' EXIT
    while read -r d; do
      git -C "$W" apply "$d" || { echo "APPLY-FAILED $d" >> "$OUT/neutral.txt"; continue; }
      o=$(${CL:-/verif/bin/cachelint} -repo "$W" -verif "$S" -prop "$P" 2>&1); rc=$?
      git -C "$W" checkout -q -- . ; git -C "$W" clean -fdq
      case "$d" in
        /verif/neutral/*) if [ $rc -eq 0 ]; then echo "ok   $(basename "$d")"; else echo "FAIL $(basename "$d") exit=$rc"; echo "$o" | grep -E "violated|UNDEC|BROKEN" | head -4; fi >> "$OUT/neutral.txt" ;;
        *) keys=$(echo "$o" | grep '^  violated' | sed 's/^  violated \([^ ]*\) .*/\1/' | sort -u | tr '\n' ',' | sed 's/,$//'); [ $rc -eq 1 ] && [ -z "$keys" ] && keys="UNDECIDED(fail-closed)"; [ $rc -gt 1 ] && keys="BROKEN(exit $rc)"
           echo "$(basename "$(dirname "$d")") $rc $keys" >> "$OUT/column.txt" ;;
      esac
    done < "$part"
  ) &
done
wait; rm -rf "$T"
echo "neutral: $(grep -c '^ok' "$OUT/neutral.txt") ok, $(grep -c '^FAIL\|^APPLY' "$OUT/neutral.txt") not ok; seeds: $(wc -l < "$OUT/column.txt")"
