package main

import (
	"flag"
	"fmt"
	"go/types"
	"os"
	"path/filepath"
	"sort"
	"strconv"
	"strings"
	"time"

	"cachelint/core"
	"cachelint/pw"
	"cachelint/rules"
)

func main() {
	t0 := time.Now()
	repo := flag.String("repo", "/repo", "repository root")
	verif := flag.String("verif", "/verif", "verif directory (evidence, replay, known findings)")
	prop := flag.String("prop", "", "property id (C01…)")
	tier := flag.String("tier", "quick", "quick|thorough")
	dump := flag.String("dump", "", "debug: dump paths of Type.Method")
	inl := flag.String("inline", "", "debug: comma separated function names to inline (* = all)")
	verbose := flag.Bool("v", false, "debug: verbose events")
	list := flag.Bool("list", false, "list properties")
	isWorker := flag.Bool("worker", false, "internal: thorough-tier worker")
	jobsFile := flag.String("jobs", "", "internal: worker job list")
	baseFile := flag.String("base", "", "internal: worker base verdict")
	var overlays multiFlag
	flag.Var(&overlays, "overlay", "repoFile=replacementFile (analyse with a file replaced in memory; may repeat)")
	flag.Parse()
	ov := map[string][]byte{}
	for _, o := range overlays {
		kv := strings.SplitN(o, "=", 2)
		b, err := os.ReadFile(kv[1])
		if err != nil {
			fmt.Fprintln(os.Stderr, "BROKEN:", err)
			os.Exit(2)
		}
		ov[kv[0]] = b
	}
	if *list {
		var ids []string
		for id := range rules.All {
			ids = append(ids, id)
		}
		sort.Strings(ids)
		fmt.Println(strings.Join(ids, " "))
		return
	}
	if *isWorker {
		worker(*prop, *repo, *jobsFile, *baseFile)
		return
	}
	prog, err := core.Load(core.LoadOpts{Repo: *repo, Overlay: ov})
	if err != nil {
		fmt.Fprintln(os.Stderr, "BROKEN:", err)
		os.Exit(2)
	}
	if *dump != "" {
		debugDump(prog, *dump, *inl, *verbose)
		return
	}
	p, ok := rules.All[*prop]
	if !ok {
		fmt.Fprintln(os.Stderr, "unknown property", *prop)
		os.Exit(2)
	}
	seed, _ := strconv.ParseInt(os.Getenv("VERIF_SEED"), 10, 64)
	rep := core.NewReport(p.ID, *tier, seed)
	rep.Start = t0
	rep.Count("packages_loaded", len(prog.Pkgs))
	rep.Count("files_loaded", len(prog.Files))
	ctx := &rules.Ctx{Prog: prog, Pkg: prog.Cache, R: rep, Tier: *tier}
	ctx.Prepare()
	func() {
		defer func() {
			if x := recover(); x != nil {
				rep.Broken(fmt.Sprintf("engine panic: %v", x))
			}
		}()
		p.Run(ctx)
	}()
	if sum := rules.Summary[p.ID]; sum != "" {
		rep.Explanation = sum + " — Rule by rule: " + rep.Explanation
	}
	rep.Assumptions = append(rep.Assumptions,
		"go/packages + go/types resolve identifiers, selections and callees as the compiler does",
		"the path walker's abstraction: facts on nil-ness, truth and order of abstract values only; loops analysed for zero and one iteration per path with loop-assigned variables havoc'd; helper inlining bounded (depth 3-4); built-in axioms: errors.Is/As(nil)=false, fmt.Errorf/errors.New/allocations non-nil, false comma-ok implies the zero value",
		"sync.Mutex/RWMutex, channels, sync/atomic, Go maps and sync.Map behave as documented; user-supplied builders, backends, loggers, trackers, deleters and callbacks are outside the subject",
	)
	if *tier == "thorough" && len(ov) == 0 {
		thorough(p.ID, *repo, rep)
	}
	findings, err := core.LoadFindings(filepath.Join(*verif, "known_findings.json"))
	if err != nil {
		fmt.Fprintln(os.Stderr, "BROKEN: known_findings.json:", err)
		os.Exit(2)
	}
	os.Exit(rep.Finish(*verif, findings))
}

type multiFlag []string

func (m *multiFlag) String() string     { return strings.Join(*m, ",") }
func (m *multiFlag) Set(s string) error { *m = append(*m, s); return nil }

func debugDump(prog *core.Program, dump, inl string, verbose bool) {
	set := map[string]bool{}
	for _, n := range strings.Split(inl, ",") {
		set[n] = true
	}
	pol := pw.Policy{
		Inline: func(fn *types.Func, d int) bool { return set[pw.FuncName(fn)] || set["*"] },
		Role:   rules.BaseRole,
		Pure: func(fn *types.Func) bool {
			switch pw.FuncName(fn) {
			case "errors.Is", "bytes.Equal", "cache.SkipRead", "cache.TTL":
				return true
			}
			return false
		},
	}
	e := pw.New(prog.Cache, pol)
	fn := e.FindFunc(dump)
	if fn == nil {
		fmt.Fprintln(os.Stderr, "not found", dump)
		os.Exit(2)
	}
	paths, err := e.Run(fn)
	fmt.Println("paths:", len(paths), "err:", err)
	for i, p := range paths {
		fmt.Printf("--- path %d ret=%v unsup=%v\n", i, p.Ret, p.Unsup)
		for _, t := range p.Trace {
			fmt.Println("   T", t)
		}
		if verbose {
			for _, s := range p.Summary(prog.Cache.Fset) {
				fmt.Println("   E", s)
			}
			for _, g := range p.EventsOf(pw.EvGo) {
				for j, sp := range g.Sub {
					fmt.Printf("   -- spawned path %d\n", j)
					for _, s := range sp.Summary(prog.Cache.Fset) {
						fmt.Println("      E", s)
					}
				}
			}
		}
	}
}
