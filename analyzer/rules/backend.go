package rules

import (
	"fmt"
	"go/types"
	"strings"

	"cachelint/pw"
)

// BK describes one in-module backend sibling.
type BK struct {
	Name    string // unexported implementation type
	Wrapper string // exported wrapper type (Dump/Restore live there)
	Sharded bool
	Entry   string // entry struct type
	Trait   string
}

var backends = []BK{
	{Name: "shardedMap", Wrapper: "ShardedMap", Sharded: true, Entry: "TraitEntry", Trait: "Trait"},
	{Name: "shardedMapOf", Wrapper: "ShardedMapOf", Sharded: true, Entry: "TraitEntryOf", Trait: "TraitOf"},
	{Name: "syncMap", Wrapper: "SyncMap", Sharded: false, Entry: "TraitEntry", Trait: "Trait"},
}

// backendPolicy inlines the backend's own methods, the shared Trait helpers and unexported package functions.
func backendPolicy(b BK, inlineTrait bool) pw.Policy {
	return pw.Policy{
		Inline: func(fn *types.Func, depth int) bool {
			if sameRecvNamed(fn, b.Name) || sameRecvNamed(fn, b.Wrapper) {
				return true
			}
			if inlineTrait && (sameRecvNamed(fn, "Trait") || sameRecvNamed(fn, "TraitOf")) {
				return true
			}
			if sameRecvNamed(fn, "Trait") || sameRecvNamed(fn, "TraitOf") || sameRecvNamed(fn, "logTrait") {
				return false
			}
			// unexported helpers of the package (functions and methods of helper types: per-shard methods, typed map wrappers,
			// visitor structs) belong to the operation that calls them
			return !fn.Exported() && fn.Pkg() != nil && fn.Pkg().Name() == "cache"
		},
		Pure:     basePure,
		Role:     BaseRole,
		MaxDepth: 4,
		Consistent: func(f *pw.FactView) bool {
			// a looked-up entry of a present key is non-nil (maps never store nil entries: every insert site stores &Entry{…},
			// checked by R07.5/R13), and PrepareRead is only called with found=true for such an entry.
			for _, ev := range f.Events() {
				if ev.Kind == pw.EvMapLookup && len(ev.Results) == 2 {
					ok, okKnown := f.Truth(ev.Results[1])
					n, nKnown := f.Nil(ev.Results[0])
					if okKnown && ok && nKnown && n {
						return false
					}
				}
				if ev.Kind == pw.EvCall && ev.Role == "Std:sync.Map.Load" && len(ev.Results) == 2 {
					ok, okKnown := f.Truth(ev.Results[1])
					n, nKnown := f.Nil(ev.Results[0])
					if okKnown && ok && nKnown && n {
						return false
					}
				}
				// what the sync.Map holds are non-nil *TraitEntry values (every store site stores one: R07.5, R13.1): a checked
				// type assertion of a loaded value succeeds and yields a non-nil entry
				if ev.Kind == pw.EvAssign && ev.Value != nil && ev.Value.Kind == pw.KMapOk && ev.Value.Src != nil && ev.Value.Src.Kind == pw.KAssert {
					as := ev.Value.Src
					if src := as.Src; src != nil && src.Kind == pw.KCall && src.Ev != nil && (src.Ev.Role == "Std:sync.Map.Load" || src.Ev.Role == "Std:sync.Map.LoadAndDelete") && src.Idx == 0 {
						if loaded, lk := f.Truth(src.Ev.Results[1]); lk && loaded {
							if t, known := f.Truth(ev.Value); known && !t {
								return false
							}
							if n, known := f.Nil(as); known && n {
								return false
							}
						}
					}
				}
			}
			return true
		},
	}
}

type bkRun struct {
	e     *pw.Engine
	paths []*pw.Path
	fn    *types.Func
	err   error
}

// bk runs (once) the path enumeration of Type.Method with the backend policy.
func (c *Ctx) bk(b BK, fn string, inlineTrait bool) *bkRun {
	key := fmt.Sprintf("%s|%v", fn, inlineTrait)
	if c.bkCache == nil {
		c.bkCache = map[string]*bkRun{}
	}
	if r, ok := c.bkCache[key]; ok {
		return r
	}
	e, paths, f, err := c.runFunc(fn, backendPolicy(b, inlineTrait))
	r := &bkRun{e, paths, f, err}
	c.bkCache[key] = r
	return r
}

func recvParam(e *pw.Engine) *pw.Val {
	for obj, v := range e.Params {
		if vv, ok := obj.(*types.Var); ok && vv.IsField() == false {
			_ = vv
		}
		_ = v
	}
	return nil
}

// keyParamOf finds the []byte parameter named key/k.
func keyParamOf(e *pw.Engine) *pw.Val {
	for obj, v := range e.Params {
		if _, ok := obj.Type().Underlying().(*types.Slice); ok && (obj.Name() == "key" || obj.Name() == "k") {
			return v
		}
	}
	return nil
}

func ctxParamOf(e *pw.Engine) *pw.Val {
	return paramByType(e, func(t types.Type) bool { return types.TypeString(t, nil) == "context.Context" })
}

// isShardData: a map event on a shard's data map.
func isShardData(ev *pw.Event) bool {
	return ev.Recv != nil && (ev.Recv.Kind == pw.KField || ev.Recv.Kind == pw.KAlloc) && ev.Recv.Field != nil && fname(ev.Recv.Field) == "data" &&
		(ev.Kind == pw.EvMapLookup || ev.Kind == pw.EvMapInsert || ev.Kind == pw.EvMapDelete || ev.Kind == pw.EvMapIter || ev.Kind == pw.EvMapLen)
}

// bucketOf returns the lock path of the shard a data-map event belongs to.
func bucketOf(ev *pw.Event) string { return strings.TrimSuffix(ev.Path, ".data") }

// bucketIndex returns the abstract index value used to select the shard of a data-map event (nil if unknown).
func bucketIndex(ev *pw.Event) *pw.Val {
	b := ev.Recv.Src
	if ev.Recv.Kind == pw.KAlloc {
		b = ev.Recv.Recv // a fresh map installed in the shard's field: the field's base
	}
	for i := 0; b != nil && i < 4; i++ {
		if b.Kind == pw.KAddr && b.Src2 != nil {
			return b.Src2
		}
		b = b.Src
	}
	return nil
}

func syncMapOp(ev *pw.Event) string {
	if ev.Kind == pw.EvCall && strings.HasPrefix(ev.Role, "Std:sync.Map.") {
		return strings.TrimPrefix(ev.Role, "Std:sync.Map.")
	}
	return ""
}

// isSyncStore: the event puts its value argument into the sync.Map on this path: Store, Swap, or a LoadOrStore that did not find
// an entry (its second result is false on the path).
func isSyncStore(p *pw.Path, ev *pw.Event) bool {
	switch syncMapOp(ev) {
	case "Store", "Swap":
		return true
	case "LoadOrStore":
		if p != nil && len(ev.Results) == 2 {
			if t, known := p.Truth(ev.Results[1]); known && !t {
				return true
			}
		}
	}
	return false
}

func isConstNamed(v *pw.Val, name string) bool {
	return v != nil && v.Kind == pw.KConst && v.Obj != nil && v.Obj.Name() == name
}

func metricName(ev *pw.Event) string {
	if ev.Kind == pw.EvCall && strings.HasPrefix(ev.Role, "Metric:") {
		return strings.TrimPrefix(ev.Role, "Metric:")
	}
	return ""
}
