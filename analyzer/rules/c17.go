package rules

import (
	"fmt"
	"go/ast"
	"go/token"
	"go/types"
	"strings"

	"cachelint/poly"
	"cachelint/pw"
)

func init() { register("C17", checkC17) }

func checkC17(c *Ctx) {
	r := c.R
	r.Explanation = "Clock behaviour is not decided. Decided statically on all paths of Invalidator.Invalidate: (R17.1) the interval test, the " +
		"update of lastRun and the whole callback loop lie in one critical section of the Invalidator's mutex on every path (so accepted " +
		"calls never overlap and test-and-set of lastRun is atomic), and every access to lastRun/SkipInterval is under that mutex; (R17.2) a " +
		"call is rejected ⇔ now − lastRun < SkipInterval (orderings of the two atoms; equality accepts), and on the accepting path lastRun " +
		"is assigned the current time before the first callback; (R17.3) the accepting path ranges once over Callbacks, calls exactly the " +
		"ranged element once per iteration with the caller's context, unconditionally (no branch, break, continue or return inside the " +
		"loop), and no other call of a callback exists in the package; (R17.4) the rejecting path calls none and returns an error wrapping " +
		"ErrAlreadyInvalidated with %w; without callbacks ErrNothingToInvalidate is returned and nothing else happens."
	r.Rule("R17.1", "one critical section from interval test through the callback loop; guarded fields only under the mutex", 1)
	r.Rule("R17.2", "reject ⇔ since(lastRun) < SkipInterval; lastRun := now before the first callback", 1)
	r.Rule("R17.3", "all callbacks, once each, in order, unconditionally", 1)
	r.Rule("R17.4", "reject runs none and wraps ErrAlreadyInvalidated; no callbacks ⇒ ErrNothingToInvalidate", 1)
	r.NotDecided = []string{"clock behaviour", "what callbacks do"}
	name := "Invalidator.Invalidate"
	e, paths, fnObj, err := c.runFunc(name, pw.Policy{Pure: func(fn *types.Func) bool { return false }})
	if err != nil {
		r.Unknown("R17.*", name, err.Error())
		return
	}
	var recv, ctx *pw.Val
	for obj, v := range e.Params {
		if namedTypeName(obj.Type()) == "Invalidator" {
			recv = v
		}
		if types.TypeString(obj.Type(), nil) == "context.Context" {
			ctx = v
		}
	}
	if recv == nil || ctx == nil {
		r.Unknown("R17.*", name, "receiver/context parameters not found")
		return
	}
	mu := fmt.Sprintf("$%d.Mutex", recv.ID)
	nAccept, nReject, nEmpty := 0, 0, 0
	for _, p := range paths {
		ls := Locksets(p.Events, nil)
		held := func(i int) bool { return ls[i].Has(mu, false) }
		var cbCalls []int
		var lastRunWrite = -1
		var since, skip *pw.Val
		var skipVals []*pw.Val
		var nowForLastRun *pw.Val
		for i, ev := range p.Events {
			// the clock is read inside the critical section: a caller that waited on the mutex behind a running invalidation must be
			// judged by (and must record) the time it is admitted, not the time it arrived
			if ev.Kind == pw.EvCall && ev.Role == "Std:time.Now" && !held(i) && (ev.Frame == nil || ev.Frame.Parent == nil) {
				r.Bad("R17.2", name, "clock-read-outside-lock", c.Pos(ev.Pos), "time.Now() is read without holding the mutex: a call that waited for the lock compares and records its arrival time, accepted calls are then spaced by less than SkipInterval", shortTrace(p))
			}
			switch {
			case ev.Kind == pw.EvCall && ev.CalleeVal != nil && ev.Callee == nil:
				cbCalls = append(cbCalls, i)
			case ev.Kind == pw.EvFieldWrite && ev.Field != nil && fname(ev.Field) == "lastRun":
				lastRunWrite = i
				nowForLastRun = ev.Value
				if !held(i) {
					r.Bad("R17.1", name, "lastRun-write-unlocked", c.Pos(ev.Pos), "lastRun is written without the mutex", shortTrace(p))
				}
			case ev.Kind == pw.EvFieldWrite && ev.Field != nil && fname(ev.Field) == "SkipInterval":
				// the default stands in for an unset (zero) interval only: any other configured value, negative ones included, is
				// the interval the calls are judged by
				if skip == nil || p.Rel(skip, e.IntConst(0)) != pw.REq {
					r.Bad("R17.2", name, "default-overrides-configured-interval", c.Pos(ev.Pos), "SkipInterval is overwritten on a path that does not establish that it was zero: calls are then spaced by another interval than the configured one", shortTrace(p))
				}
				skipVals = append(skipVals, ev.Value) // the default published into the field is the interval in effect
				if !held(i) {
					r.Bad("R17.1", name, "SkipInterval-write-unlocked", c.Pos(ev.Pos), "SkipInterval is defaulted without the mutex: concurrent Invalidate calls race on it", shortTrace(p))
				}
			case ev.Kind == pw.EvFieldRead && ev.Field != nil && (fname(ev.Field) == "lastRun" || fname(ev.Field) == "SkipInterval"):
				if fname(ev.Field) == "SkipInterval" {
					skip = ev.Value
					skipVals = append(skipVals, ev.Value)
				}
				if !held(i) {
					r.Bad("R17.1", name, fname(ev.Field)+"-read-unlocked", c.Pos(ev.Pos), fname(ev.Field)+" is read without the mutex", shortTrace(p))
				}
			case ev.Kind == pw.EvCall && ev.Role == "Std:time.Since":
				since = ev.Results[0]
				if len(ev.Args) != 1 || ev.Args[0].Field == nil || fname(ev.Args[0].Field) != "lastRun" {
					since = nil
				}
			case ev.Kind == pw.EvCall && ev.Role == "Std:time.Time.Sub" && len(ev.Args) == 1 && ev.Args[0].Field != nil && fname(ev.Args[0].Field) == "lastRun" &&
				ev.Recv != nil && ev.Recv.Kind == pw.KCall && ev.Recv.Ev != nil && ev.Recv.Ev.Role == "Std:time.Now":
				since = ev.Results[0] // time.Now().Sub(lastRun) is what time.Since(lastRun) is defined as
			}
		}
		if len(p.Ret) != 1 {
			r.Unknown("R17.*", name, "unexpected result count")
			return
		}
		// callbacks are user code: the mutex taken before them is released by a deferred unlock, so that a panicking callback
		// (recovered by the caller) does not leave every later Invalidate blocked — neither accepted nor rejected
		if len(cbCalls) > 0 {
			last := cbCalls[len(cbCalls)-1]
			for _, ev := range p.Events[last:] {
				if ev.Kind == pw.EvLock && ev.Op == "Unlock" && ev.Path == mu && ev.Note != "deferred" && !(ev.Frame != nil && ev.Frame.Deferred) {
					r.Bad("R17.1", name, "unlock-not-deferred", c.Pos(ev.Pos), "the mutex held across the callbacks is released by a plain call after them: a panicking callback leaves it locked and every later Invalidate hangs", shortTrace(p))
					break
				}
			}
		}
		// the mutex is released on every exit (the next call must be able to enter)
		if k := len(p.Events); k > 0 {
			final := ls[k-1].clone()
			if last := p.Events[k-1]; last.Kind == pw.EvLock && last.Path == mu {
				if last.Op == "Unlock" {
					final[mu]--
				} else {
					final[mu]++
				}
			}
			if final.Has(mu, false) {
				r.Bad("R17.1", name, "mutex-not-released", c.Pos(p.RetPos), "Invalidate returns with the Invalidator's mutex held: every later call blocks for ever", shortTrace(p))
			}
		}
		var cbField *pw.Val
		for _, ev := range p.Events {
			if ev.Kind == pw.EvFieldRead && ev.Field != nil && fname(ev.Field) == "Callbacks" && cbField == nil {
				cbField = ev.Value
			}
		}
		ret := p.Ret[0]
		retNil, _ := p.NilFact(ret)
		switch {
		case isConstNamed(ret, "ErrNothingToInvalidate"):
			nEmpty++
			if cbField == nil || nilTri(p, cbField) != triTrue {
				r.Bad("R17.4", name, "empty-error-with-callbacks", c.Pos(p.RetPos), "ErrNothingToInvalidate is returned on a path that does not establish that no callbacks are registered", shortTrace(p))
			}
			if len(cbCalls) != 0 || lastRunWrite >= 0 {
				r.Bad("R17.4", name, "empty-does-something", c.Pos(p.RetPos), "ErrNothingToInvalidate path calls callbacks or consumes the interval", shortTrace(p))
			}
		case retNil:
			nAccept++
			if cbField == nil || nilTri(p, cbField) != triFalse {
				r.Bad("R17.4", name, "accept-without-callbacks-test", c.Pos(p.RetPos), "a call is accepted (nil) on a path that does not establish that callbacks are registered: with none it must report ErrNothingToInvalidate", shortTrace(p))
			}
			// R17.2 accept ⇒ not (since < skip)
			if since == nil || skip == nil {
				r.Bad("R17.2", name, "accept-without-test", c.Pos(p.RetPos), "a call is accepted without comparing time.Since(lastRun) with SkipInterval", shortTrace(p))
			} else if !relWithAny(p, since, skipVals, func(rel uint8) bool { return rel&pw.RLt == 0 }) {
				r.Bad("R17.2", name, "accept-too-early", c.Pos(p.RetPos), "a call is accepted on a path where since(lastRun) < SkipInterval is possible", shortTrace(p))
			}
			if lastRunWrite < 0 || nowForLastRun == nil || !(nowForLastRun.Kind == pw.KCall && nowForLastRun.Ev.Role == "Std:time.Now") {
				r.Bad("R17.2", name, "lastRun-not-updated", c.Pos(p.RetPos), "an accepted call does not set lastRun to the current time", shortTrace(p))
			}
			for _, i := range cbCalls {
				if lastRunWrite < 0 || i < lastRunWrite {
					r.Bad("R17.2", name, "callback-before-lastRun", c.Pos(p.Events[i].Pos), "a callback runs before lastRun is updated", shortTrace(p))
				}
				if !held(i) {
					r.Bad("R17.1", name, "callback-outside-section", c.Pos(p.Events[i].Pos), "a callback runs outside the Invalidator's critical section: accepted calls can overlap", shortTrace(p))
				}
				ev := p.Events[i]
				cv := ev.CalleeVal
				isElem := cv.Kind == pw.KRangeVal && fromCallbacks(cv.Src) || cv.Kind == pw.KIndex && fromCallbacks(cv.Src)
				if !isElem {
					r.Bad("R17.3", name, "calls-other-function", c.Pos(ev.Pos), "the function called in the loop is not the ranged element of Callbacks itself", shortTrace(p))
				}
				if len(ev.Args) != 1 || ev.Args[0] != ctx {
					r.Bad("R17.3", name, "callback-ctx", c.Pos(ev.Pos), "callbacks must receive the caller's context", shortTrace(p))
				}
			}
			// the list of callbacks that is run is the one read inside the critical section (a snapshot taken before the
			// lock misses callbacks registered while the call was waiting for its turn)
			for i, ev := range p.Events {
				if (ev.Kind == pw.EvLoopBegin || ev.Kind == pw.EvLoopZero) && ev.Recv != nil && fromCallbacks(ev.Recv) {
					underLock := false
					for j := i - 1; j >= 0; j-- {
						e2 := p.Events[j]
						if e2.Kind == pw.EvFieldRead && e2.Field != nil && fname(e2.Field) == "Callbacks" {
							underLock = held(j)
							break
						}
					}
					if !underLock {
						r.Bad("R17.3", name, "callbacks-read-before-lock", c.Pos(ev.Pos), "the callbacks that are run were read before entering the critical section: an accepted call may miss callbacks registered while it waited", shortTrace(p))
					}
				}
			}
			// one iteration model: a path with an iteration must contain exactly one callback call in it
			for _, g := range iterations(p) {
				n := 0
				for _, ev := range g.events {
					if ev.Kind == pw.EvCall && ev.CalleeVal != nil && ev.Callee == nil {
						n++
					}
				}
				if n != 1 {
					r.Bad("R17.3", name, "iteration-without-call", c.Pos(g.begin.Pos), fmt.Sprintf("an iteration over Callbacks performs %d callback calls, expected exactly one", n), shortTrace(p))
				}
			}
		default:
			nReject++
			if len(cbCalls) != 0 {
				r.Bad("R17.4", name, "reject-runs-callbacks", c.Pos(p.RetPos), "a rejected (error) call has run callbacks", shortTrace(p))
			}
			if lastRunWrite >= 0 {
				r.Bad("R17.4", name, "reject-consumes-interval", c.Pos(p.RetPos), "a call that returns an error has updated lastRun: later calls are rejected although not every callback ran", shortTrace(p))
			}
			wraps := ret.Kind == pw.KCall && ret.Ev.Role == "Std:fmt.Errorf" && len(ret.Ev.Args) >= 2 && strings.Contains(constString(ret.Ev.Args[0]), "%w")
			if wraps {
				wraps = false
				for _, a := range ret.Ev.Args[1:] {
					for _, x := range append([]*pw.Val{a}, a.Elems...) {
						if isConstNamed(x, "ErrAlreadyInvalidated") {
							wraps = true
						}
					}
				}
			}
			if !wraps && !isConstNamed(ret, "ErrAlreadyInvalidated") {
				r.Bad("R17.4", name, "reject-error", c.Pos(p.RetPos), "a rejected call must return an error wrapping ErrAlreadyInvalidated", shortTrace(p))
			}
			if cbField == nil || nilTri(p, cbField) != triFalse {
				r.Bad("R17.4", name, "reject-without-callbacks-test", c.Pos(p.RetPos), "a call is rejected as already invalidated on a path that does not establish that callbacks are registered: with none it must report ErrNothingToInvalidate", shortTrace(p))
			}
			// SkipInterval is the *minimal* distance: a call that comes exactly SkipInterval (or more) after the last accepted one is
			// not rejected. (At equality this is observable: time.Since saturates at MaxInt64, so with SkipInterval = MaxInt64
			// — "once per lifetime" — a `<=` test rejects the very first call and every later one.)
			if since == nil || skip == nil || !relWithAny(p, since, skipVals, func(rel uint8) bool { return rel&(pw.RGt|pw.REq) == 0 }) {
				r.Bad("R17.2", name, "reject-without-reason", c.Pos(p.RetPos), "a call is rejected on a path where since(lastRun) >= SkipInterval is possible", shortTrace(p))
			}
		}
	}
	if nAccept == 0 || nReject == 0 || nEmpty == 0 {
		r.Unknown("R17.*", name, fmt.Sprintf("vacuous: accept=%d reject=%d empty=%d", nAccept, nReject, nEmpty))
	}
	// structural: the loop body is exactly the call (no branch/break/continue/return), one range over Callbacks, no other callback call in the package
	fd, _ := c.funcDecl(name)
	info := c.Pkg.TypesInfo
	nRange := 0
	// index form: for j := 0; j < len(cbs); j++ { cbs[j](ctx) }
	ast.Inspect(fd.Body, func(n ast.Node) bool {
		fs, ok := n.(*ast.ForStmt)
		if !ok || fs.Init == nil || fs.Cond == nil || fs.Post == nil {
			return true
		}
		init, ok1 := fs.Init.(*ast.AssignStmt)
		cond, ok2 := fs.Cond.(*ast.BinaryExpr)
		post, ok3 := fs.Post.(*ast.IncDecStmt)
		if !ok1 || !ok2 || !ok3 || len(init.Lhs) != 1 || len(init.Rhs) != 1 || cond.Op != token.LSS || post.Tok != token.INC {
			return true
		}
		iv, ok := init.Lhs[0].(*ast.Ident)
		zero, okz := init.Rhs[0].(*ast.BasicLit)
		if !ok || !okz || zero.Value != "0" {
			return true
		}
		iobj := info.Defs[iv]
		lenCall, ok := cond.Y.(*ast.CallExpr)
		if !ok || len(lenCall.Args) != 1 {
			return true
		}
		if id, ok := lenCall.Fun.(*ast.Ident); !ok || id.Name != "len" {
			return true
		}
		if cid, ok := cond.X.(*ast.Ident); !ok || info.Uses[cid] != iobj {
			return true
		}
		sliceStr := types.ExprString(lenCall.Args[0])
		if _, isLocal := ast.Unparen(lenCall.Args[0]).(*ast.Ident); !isLocal {
			// len(i.Callbacks) and i.Callbacks[n] are re-read on every iteration: a callback that replaces the list shifts the
			// remaining ones under the running index (range evaluates the list once)
			r.Bad("R17.3", name, "callbacks-reread-in-loop", c.Pos(fs.Pos()), "the index loop re-reads the Callbacks field on every iteration instead of ranging over the list as it was when the call was accepted", nil)
		}
		callsElem := false
		ast.Inspect(fs.Body, func(m ast.Node) bool {
			if call, ok := m.(*ast.CallExpr); ok {
				if ix, ok := ast.Unparen(call.Fun).(*ast.IndexExpr); ok && types.ExprString(ix.X) == sliceStr {
					if id, ok := ix.Index.(*ast.Ident); ok && info.Uses[id] == iobj {
						callsElem = true
					}
				}
			}
			return true
		})
		if !callsElem {
			return true
		}
		nRange++
		ast.Inspect(fs.Body, func(m ast.Node) bool {
			switch m.(type) {
			case *ast.IfStmt, *ast.BranchStmt, *ast.ReturnStmt, *ast.SwitchStmt, *ast.SelectStmt, *ast.GoStmt, *ast.DeferStmt, *ast.AssignStmt, *ast.IncDecStmt:
				r.Bad("R17.3", name, "conditional-loop-body", c.Pos(m.Pos()), "the loop over the callbacks contains control flow or index manipulation: some callbacks may be skipped, spawned or deferred", nil)
			}
			return true
		})
		return true
	})
	ast.Inspect(fd.Body, func(n ast.Node) bool {
		rs, ok := n.(*ast.RangeStmt)
		if !ok || rs.Value == nil {
			return true
		}
		vid, ok := rs.Value.(*ast.Ident)
		if !ok {
			return true
		}
		vobj := info.Defs[vid]
		callsElem := false
		ast.Inspect(rs.Body, func(m ast.Node) bool {
			if call, ok := m.(*ast.CallExpr); ok {
				if id, ok := ast.Unparen(call.Fun).(*ast.Ident); ok && info.Uses[id] == vobj && vobj != nil {
					callsElem = true
				}
			}
			return true
		})
		if !callsElem {
			return true
		}
		nRange++
		ast.Inspect(rs.Body, func(m ast.Node) bool {
			switch m.(type) {
			case *ast.IfStmt, *ast.BranchStmt, *ast.ReturnStmt, *ast.SwitchStmt, *ast.SelectStmt, *ast.GoStmt, *ast.DeferStmt:
				r.Bad("R17.3", name, "conditional-loop-body", c.Pos(m.Pos()), "the loop over the callbacks contains control flow: some callbacks may be skipped, spawned or deferred", nil)
			}
			return true
		})
		return true
	})
	if nRange != 1 {
		r.Bad("R17.3", name, "range-count", c.Pos(fd.Pos()), fmt.Sprintf("%d loops call their ranged element, expected exactly one (over Callbacks)", nRange), nil)
	}
	c.eachFuncDecl(func(fd2 *ast.FuncDecl, fn *types.Func) {
		if fd2 == fd {
			return
		}
		ast.Inspect(fd2.Body, func(n ast.Node) bool {
			if sel, ok := n.(*ast.SelectorExpr); ok && sel.Sel.Name == "Callbacks" {
				if s := info.Selections[sel]; s != nil && namedTypeName(s.Recv()) == "Invalidator" {
					r.Bad("R17.3", strings.TrimPrefix(pw.FuncName(fn), "cache."), "callbacks-used-elsewhere", c.Pos(sel.Pos()), "Invalidator.Callbacks is used outside Invalidate", nil)
				}
			}
			return true
		})
	})
	// callbacks run while a caller is inside an accepted Invalidate, and only then: the library itself never calls or schedules
	// Invalidate (a "trailing" invalidation armed by a rejected call runs every callback for a call that was rejected)
	c.eachFuncDecl(func(fd2 *ast.FuncDecl, fn2 *types.Func) {
		if c.isNewAPI(fn2) {
			return
		}
		ast.Inspect(fd2.Body, func(n ast.Node) bool {
			if sel, ok := n.(*ast.SelectorExpr); ok {
				if s := info.Selections[sel]; s != nil && (s.Kind() == types.MethodVal || s.Kind() == types.MethodExpr) {
					if m, _ := s.Obj().(*types.Func); m != nil && m.Origin() == fnObj.Origin() {
						r.Bad("R17.4", strings.TrimPrefix(pw.FuncName(fn2), "cache."), "invalidate-called-by-library", c.Pos(sel.Pos()), "the library itself calls or schedules Invalidator.Invalidate: callbacks run without (or beside) a caller's accepted call", nil)
					}
				}
			}
			return true
		})
	})
	_ = poly.Int
	for _, rule := range []string{"R17.1", "R17.2", "R17.3", "R17.4"} {
		if !hasViolation(r.Obls, rule, name) {
			r.OK(rule, name, fmt.Sprintf("%d paths: %d accepting, %d rejecting, %d without callbacks", len(paths), nAccept, nReject, nEmpty))
		}
	}
}

// fromCallbacks: v is the Callbacks field or a copy of it (append/slice).
// relWithAny: the relation between a and one of the candidate values (the interval as read, or as defaulted and published on this
// path) satisfies ok.
func relWithAny(p *pw.Path, a *pw.Val, cands []*pw.Val, ok func(rel uint8) bool) bool {
	for _, b := range cands {
		if b != nil && ok(p.Rel(a, b)) {
			return true
		}
	}
	return false
}

func fromCallbacks(v *pw.Val) bool {
	for i := 0; v != nil && i < 5; i++ {
		if v.Field != nil && fname(v.Field) == "Callbacks" {
			return true
		}
		switch v.Kind {
		case pw.KSlice:
			if v.Path != "full" {
				return false // a part of the list: some callbacks are left out
			}
			v = v.Src
		case pw.KAppend:
			// a copy: append(empty, Callbacks...)
			if len(v.Elems) == 1 && v.Op == token.ELLIPSIS && (v.Src == nil || v.Src.Kind == pw.KZero || v.Src.Kind == pw.KConst && v.Src.IsNil ||
				v.Src.Kind == pw.KConv && v.Src.Src != nil && v.Src.Src.IsNil || v.Src.Kind == pw.KAlloc && len(v.Src.Elems) == 0 || v.Src.Kind == pw.KSlice) {
				v = v.Elems[0]
			} else {
				return false
			}
		default:
			return false
		}
	}
	return false
}
