package pw

import (
	"go/constant"
	"go/token"
	"go/types"
)

func isNilable(t types.Type) bool {
	if t == nil {
		return true
	}
	switch u := t.Underlying().(type) {
	case *types.Pointer, *types.Map, *types.Chan, *types.Slice, *types.Signature, *types.Interface:
		_ = u
		return true
	case *types.Basic:
		return u.Kind() == types.UnsafePointer || u.Kind() == types.UntypedNil
	}
	if _, ok := t.(*types.TypeParam); ok {
		return false
	}
	return false
}

// nilKnown reports whether v is known nil / non-nil.
func (s *State) nilKnown(v *Val) (isNil, known bool) {
	if v == nil {
		return false, false
	}
	switch v.Kind {
	case KConst:
		if v.IsNil {
			return true, true
		}
		return false, true
	case KAlloc, KClosure, KAddr, KFuncRef:
		return false, true
	case KZero:
		if isNilable(v.Type) {
			return true, true
		}
	case KConv, KAssert:
		// conversion of a value to an interface / named type keeps nil-ness only for nil-able sources.
	}
	if v.NonNil {
		return false, true
	}
	if b, ok := s.nilF[v.ID]; ok {
		return b, true
	}
	return false, false
}

func (s *State) truthKnown(v *Val) (val, known bool) {
	if v == nil {
		return false, false
	}
	if v.Kind == KConst && v.Const != nil && v.Const.Kind() == constant.Bool {
		return constant.BoolVal(v.Const), true
	}
	if v.Kind == KZero {
		if b, ok := v.Type.Underlying().(*types.Basic); ok && b.Info()&types.IsBoolean != 0 {
			return false, true
		}
	}
	if b, ok := s.truth[v.ID]; ok {
		return b, true
	}
	return false, false
}

func flipRel(r uint8) uint8 {
	var o uint8
	if r&RLt != 0 {
		o |= RGt
	}
	if r&RGt != 0 {
		o |= RLt
	}
	if r&REq != 0 {
		o |= REq
	}
	return o
}

func numericConst(v *Val) (constant.Value, bool) {
	if v == nil {
		return nil, false
	}
	if v.Kind == KConst && !v.IsNil && v.Const != nil {
		return v.Const, true
	}
	if v.Kind == KZero && v.Type != nil {
		if b, ok := v.Type.Underlying().(*types.Basic); ok {
			switch {
			case b.Info()&types.IsNumeric != 0:
				return constant.MakeInt64(0), true
			case b.Info()&types.IsString != 0:
				return constant.MakeString(""), true
			case b.Info()&types.IsBoolean != 0:
				return constant.MakeBool(false), true
			}
		}
	}
	return nil, false
}

// relOf returns the set of relations possible between a and b.
func (s *State) relOf(a, b *Val) uint8 {
	if a == nil || b == nil {
		return RAny
	}
	if a.Canon != nil {
		a = a.Canon
	}
	if b.Canon != nil {
		b = b.Canon
	}
	if a == b || a.ID == b.ID {
		return REq
	}
	ca, oka := numericConst(a)
	cb, okb := numericConst(b)
	if oka && okb && ca.Kind() == cb.Kind() || oka && okb && isNum(ca) && isNum(cb) {
		switch {
		case ca.Kind() == constant.Bool:
			if constant.BoolVal(ca) == constant.BoolVal(cb) {
				return REq
			}
			return RLt | RGt
		case constant.Compare(ca, token.LSS, cb):
			return RLt
		case constant.Compare(ca, token.EQL, cb):
			return REq
		default:
			return RGt
		}
	}
	if a.ID < b.ID {
		if r, ok := s.rel[[2]int{a.ID, b.ID}]; ok {
			return r
		}
		return RAny
	}
	if r, ok := s.rel[[2]int{b.ID, a.ID}]; ok {
		return flipRel(r)
	}
	return RAny
}

func isNum(c constant.Value) bool {
	return c.Kind() == constant.Int || c.Kind() == constant.Float
}

func (s *State) setRel(a, b *Val, r uint8) {
	if a.Canon != nil {
		a = a.Canon
	}
	if b.Canon != nil {
		b = b.Canon
	}
	if a.ID < b.ID {
		s.rel[[2]int{a.ID, b.ID}] = r
	} else {
		s.rel[[2]int{b.ID, a.ID}] = flipRel(r)
	}
}

func opRel(op token.Token) uint8 {
	switch op {
	case token.LSS:
		return RLt
	case token.LEQ:
		return RLt | REq
	case token.GTR:
		return RGt
	case token.GEQ:
		return RGt | REq
	case token.EQL:
		return REq
	case token.NEQ:
		return RLt | RGt
	}
	return RAny
}
