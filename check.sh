#!/bin/bash
# usage: check.sh <property id> <quick|thorough>
# Static check of one property against /repo's current working tree. Exit 0 = every obligation discharged (or a
# listed known finding), 1 = VIOLATION (also when an obligation could not be decided or a rule lost its instances: the
# property was not shown to hold — fail closed, the replay file then lists the undecided obligations), 2 = the checker
# itself could not run (build or load failure of the analyser or of the subject).
set -u
HERE="$(cd "$(dirname "$0")" && pwd)"
export GOFLAGS=-mod=mod GOPROXY=off GOSUMDB=off GOTOOLCHAIN=local GOWORK=off
ID="${1:?property id}"; TIER="${2:-${VERIF_TIER:-quick}}"
REPO="${VERIF_REPO:-/repo}"
BIN="$HERE/bin/cachelint"
if [ ! -x "$BIN" ] || [ -n "$(find "$HERE/analyzer" -name '*.go' -newer "$BIN" -print -quit 2>/dev/null)" ]; then
  (cd "$HERE/analyzer" && go build -o "$BIN" ./cmd/cachelint) || { echo "BROKEN: cannot build cachelint"; exit 2; }
fi
exec "$BIN" -repo "$REPO" -verif "$HERE" -prop "$ID" -tier "$TIER"
