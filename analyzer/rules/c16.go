package rules

import (
	"fmt"
	"go/ast"
	"go/token"
	"go/types"
	"golang.org/x/tools/go/analysis"
	"golang.org/x/tools/go/analysis/passes/copylock"
	"golang.org/x/tools/go/analysis/passes/inspect"
	"golang.org/x/tools/go/ast/inspector"
	"golang.org/x/tools/go/types/typeutil"
	"sort"
	"strings"

	"cachelint/pw"
)

func init() { register("C16", checkC16) }

// Protection classes of struct fields (role table, DESIGN.md Appendix A).
const (
	clImmutable = "IMMUTABLE" // written only in the constructor set
	clGuarded   = "GUARDED"   // accessed only with the owning lock held (exclusive for writes)
	clAtomic    = "ATOMIC"    // accessed only through sync/atomic on its address
	clPublish   = "PUBLISH"   // construct-then-publish: written only before the object is stored/shared
	clChan      = "CHAN"      // published through a channel close (kl.val / kl.err)
	clSelfSync  = "SELFSYNC"  // sync.Map, mutexes, channels
	clValue     = "VALUE"     // plain value/configuration type, copied, never shared mutable
	clUser      = "USER"      // user-owned / registration-time, documented exemption
)

type fieldClass struct {
	class string
	lock  string // GUARDED: name of the lock field in the same struct ("" = embedded mutex)
	why   string
}

// fieldTable: Type.field → class. Types not listed at all are VALUE types (configs, local helper structs).
var fieldTable = map[string]fieldClass{
	"shardedMapLegacyWalkerOf.shardedMapOf": {clImmutable, "", "converted copy of the wrapper"},
	"Failover.keyLocks":                     {clGuarded, "lock", "comment 'Securing keyLocks'"}, "FailoverOf.keyLocks": {clGuarded, "lock", "comment 'Securing keyLocks'"},
	"Failover.lock": {clSelfSync, "", "sync.Mutex"}, "FailoverOf.lock": {clSelfSync, "", "sync.Mutex"},
	"Failover.Errors": {clImmutable, "", "set in NewFailover"}, "FailoverOf.Errors": {clImmutable, "", "set in NewFailoverOf"},
	"Failover.backend": {clImmutable, "", ""}, "FailoverOf.backend": {clImmutable, "", ""},
	"Failover.config": {clImmutable, "", ""}, "FailoverOf.config": {clImmutable, "", ""},
	"Failover.stat": {clImmutable, "", ""}, "FailoverOf.stat": {clImmutable, "", ""},
	"Failover.logTrait": {clImmutable, "", ""}, "FailoverOf.logTrait": {clImmutable, "", ""},
	"kl.val": {clChan, "lock", "owner writes before close, waiters read after receive"}, "kl.err": {clChan, "lock", ""}, "kl.lock": {clSelfSync, "", "channel"},
	"klOf.val": {clChan, "lock", ""}, "klOf.err": {clChan, "lock", ""}, "klOf.lock": {clSelfSync, "", "channel"},
	"hashedBucket.data": {clGuarded, "", "embedded RWMutex"}, "hashedBucketOf.data": {clGuarded, "", "embedded RWMutex"},
	"hashedBucket.RWMutex": {clSelfSync, "", ""}, "hashedBucketOf.RWMutex": {clSelfSync, "", ""},
	"shardedMap.InvalidationIndex": {clImmutable, "", ""}, "shardedMapOf.InvalidationIndex": {clImmutable, "", ""}, "syncMap.InvalidationIndex": {clImmutable, "", ""},
	"shardedMap.hashedBuckets": {clImmutable, "", "array of buckets; the buckets' maps are GUARDED"}, "shardedMapOf.hashedBuckets": {clImmutable, "", ""},
	"shardedMap.t": {clImmutable, "", ""}, "shardedMapOf.t": {clImmutable, "", ""}, "syncMap.t": {clImmutable, "", ""},
	"syncMap.data":          {clSelfSync, "", "sync.Map"},
	"ShardedMap.shardedMap": {clImmutable, "", ""}, "ShardedMapOf.shardedMapOf": {clImmutable, "", ""}, "SyncMap.syncMap": {clImmutable, "", ""},
	"Trait.Closed": {clImmutable, "", "channel created in the constructor"}, "Trait.DeleteExpired": {clImmutable, "", "set by constructor options before the janitor starts"},
	"Trait.Len": {clImmutable, "", ""}, "Trait.Evict": {clImmutable, "", ""}, "Trait.Config": {clImmutable, "", ""}, "Trait.Stat": {clImmutable, "", ""}, "Trait.Log": {clImmutable, "", ""},
	"Trait.expirationsSet": {clAtomic, "", ""},
	"TraitOf.Trait":        {clImmutable, "", "initialised in place"},
	"TraitEntry.K":         {clPublish, "", "lock-free readers exist"}, "TraitEntry.V": {clPublish, "", ""}, "TraitEntry.E": {clPublish, "", ""}, "TraitEntry.C": {clAtomic, "", ""},
	"TraitEntryOf.K": {clPublish, "", ""}, "TraitEntryOf.V": {clPublish, "", ""}, "TraitEntryOf.E": {clPublish, "", ""}, "TraitEntryOf.C": {clAtomic, "", ""},
	"errExpired.entry": {clImmutable, "", "literal"}, "errExpiredOf.entry": {clImmutable, "", "literal"},
	"detachedContext.parent":              {clImmutable, "", "literal"},
	"InvalidationIndex.deleters":          {clGuarded, "mu", "after the constructor"},
	"InvalidationIndex.labeledKeysByName": {clGuarded, "mu", "deep: inner maps and key lists too (R15.1)"},
	"InvalidationIndex.mu":                {clSelfSync, "", ""},
	"Invalidator.Mutex":                   {clSelfSync, "", ""},
	"Invalidator.lastRun":                 {clGuarded, "", "embedded Mutex"}, "Invalidator.SkipInterval": {clGuarded, "", "defaulted inside the critical section"},
	"Invalidator.Callbacks": {clUser, "", "exported slice the user fills before use; the unlocked nil test reads it"},
	"HTTPTransfer.Logger":   {clUser, "", "registration-time"}, "HTTPTransfer.Transport": {clUser, "", ""}, "HTTPTransfer.caches": {clUser, "", "AddCache is registration-time"},
	"writerCnt.w": {clImmutable, "", ""}, "writerCnt.n": {clAtomic, "", ""}, "readerCnt.r": {clImmutable, "", ""}, "readerCnt.n": {clAtomic, "", ""},
	"logTrait.logError": {clImmutable, "", "setup runs in constructors"}, "logTrait.logWarn": {clImmutable, "", ""}, "logTrait.logDebug": {clImmutable, "", ""}, "logTrait.logImportant": {clImmutable, "", ""},
	"tracker.add": {clImmutable, "", ""}, "tracker.set": {clImmutable, "", ""},
}

// valueTypes are plain value/configuration types: copied around, never shared mutable state of a component.
var valueTypes = map[string]string{
	"FailoverConfig": "configuration value", "FailoverConfigOf": "configuration value", "Config": "configuration value",
	"evictLeastEntry": "local sort record", "NoOp": "empty", "skipReadCtxKey": "empty", "ttlCtxKey": "empty", "en": "local sort record",
}

// constructors: functions (and closures inside them) allowed to write IMMUTABLE fields and to touch GUARDED fields of
// the object under construction before it is published.
var constructors = map[string]bool{
	"NewFailover": true, "NewFailoverOf": true, "NewShardedMap": true, "NewShardedMapOf": true, "NewSyncMap": true, "NewTrait": true,
	"Trait.init": true, "NewTraitOf": true, "logTrait.setup": true, "NewLogger": true, "NewStatsTracker": true, "NewInvalidationIndex": true,
	"ShardedMapOf.WalkDumpRestorer": true,
}

type unkAccess struct {
	write, ctor bool
	held        []string
	ev          *pw.Event
	fn          string
}

// userTypes: every field of these types is USER class (registration-time configuration of a transfer helper).
var userTypes = map[string]bool{"HTTPTransfer": true}

func checkC16(c *Ctx) {
	r := c.R
	r.Explanation = "A static race check in the guarded-by tradition: it does not claim 'no race exists' in general but decides that every field " +
		"of every struct type declared in the package is accessed according to one protection class (role table: IMMUTABLE after the " +
		"constructor set, GUARDED by a named lock, ATOMIC-only, construct-then-PUBLISH, CHAN-published, self-synchronised, plain VALUE " +
		"type, USER-owned exemption). A violation of a class is a pair of conflicting accesses with no common lock and no happens-before " +
		"edge, i.e. a data race under the Go memory model for some schedule. (R16.1) every access on every path of every function conforms " +
		"to the field's class (locksets replayed per path, unexported helpers inlined into their callers, constructors exempt for the object " +
		"under construction); (R16.2) IMMUTABLE fields are written only in the constructor set; (R16.3) structs with an ATOMIC field are not " +
		"read through whole-struct copies (value receivers through a pointer, *p copies, reflection-based encoders); (R16.4) the Walk idiom " +
		"(lock dropped around the callback, iterator steps under the lock) is accepted; (R16.5) key-lock values are written only by the " +
		"owner before its release and never by waiters; (R16.6) every field has a class (a new field must be classified)."
	r.Rule("R16.1", "every access conforms to the field's protection class (GUARDED: lock held; ATOMIC: only sync/atomic; PUBLISH: no write after publication)", 20)
	r.Rule("R16.2", "IMMUTABLE fields are written only in the constructor set", 1)
	r.Rule("R16.3", "no whole-struct read of a struct with an ATOMIC field while atomic writers exist", 1)
	r.Rule("R16.5", "key-lock values: written by the owner before release only", 2)
	r.Rule("R16.6", "every struct field of the package is classified", 1)
	r.Rule("R16.8", "no spawned goroutine reads the caller's key slice (obligations of C04 R04.4)", 2)
	r.Rule("R16.10", "no mutex, RWMutex or sync.Map is copied by value (copylock pass)", 1)
	r.Rule("R16.9", "no local variable captured by a goroutine literal is written by one side and used by the other after the go statement", 1)
	r.Rule("R16.7", "constructors initialise everything the background goroutines read before starting them", 3)
	r.NotDecided = []string{"races inside user code and the standard library", "fields of USER class (Invalidator.Callbacks, HTTPTransfer.*, gob registry globals: registration-time)",
		"goroutine start vs. later constructor writes (constructors publish fields the goroutines read before starting them: read by hand)"}
	c.c16Classified()
	c.c16Accesses()
	c.c16StructCopies()
	for _, sib := range siblings {
		c.c16KeyLock(sib)
	}
	c.c16PublishBeforeStart()
	// deep guard of the label index
	c.withAlias(map[string]string{"R15.1": "R16.1"}, func() { c.c15Guarded() })
	// R16.8: memory owned by the caller (the key slice) is not read by a goroutine that outlives the call: after Get returned the
	// caller may write to it, concurrently with that goroutine (obligations of C04 R04.4)
	c.borrow("C04", func() {
		for _, sib := range siblings {
			if fo := c.failover(sib); fo.Err == nil {
				c.c04Sibling(fo)
			}
		}
	}, func(o *coreObl) (string, bool) { return "R16.8", o.Rule == "R04.4" })
	// … also not by taking the private copy inside the goroutine (C09 R09.1), and the TTL cell of the caller's context — shared by
	// every goroutine using that context — is never written by Failover: the stale refresh derives its own cell (C06 R06.2)
	c.borrowKinds("C09", func() { c.c09Retention() }, "R16.8", "Failover.Get:key-read-after-return", []string{"R09.1"}, "read-in-goroutine", "used-in-goroutine")
	// … nor kept by a backend: every Write stores a private copy of the key (C09 R09.2) — a stored entry whose K is the caller's slice
	// is read by Walk / Dump / eviction while the caller, who is free to reuse the buffer, writes it
	c.borrowKinds("C09", func() {
		for _, b := range backends {
			c.c09WriteCopies(b)
		}
	}, "R16.8", "backends.Write:key-copied", []string{"R09.2"}, "stored-key-not-copy")
	// shard maps are read under the shard lock and written under its exclusive mode (C08 R08.1): a delete under RLock runs beside
	// the readers holding the same read lock
	c.borrowKinds("C08", func() {
		for _, b := range backends {
			c.c08Backend(b)
		}
	}, "R16.1", "shard maps:lock mode", []string{"R08.1"}, "write-unlocked", "read-unlocked")
	c.borrowKinds("C06", func() {
		for _, sib := range siblings {
			if fo := c.failover(sib); fo.Err == nil {
				c.c06Sibling(fo)
			}
		}
	}, "R16.8", "Failover.Get:caller-ttl-cell", []string{"R06.2"}, "refresh-ctx")
	// every context gets a TTL cell of its own: WithTTL without update allocates (a package-level default cell would be shared —
	// and written through WithTTL(…, true) — by every context seeded with that TTL) (C06 R06.3)
	c.borrowKinds("C06", func() { c.c06WithTTL() }, "R16.8", "WithTTL:cell-per-context", []string{"R06.3"}, "no-fresh-cell")
	c.c16CapturedVars()
	c.c16CopyLocks()
	c.c16ImmutableInClosures()
}

// c16ImmutableInClosures: the path walk judges field writes where a function's own code runs; a function literal that is only
// handed to somebody (sync.Once.Do, a callback) is not walked there. An assignment to an IMMUTABLE field inside such a literal,
// in a function outside the constructor set, is a write after publication all the same (e.g. lazy initialisation under a Once
// while other goroutines read the field directly).
func (c *Ctx) c16ImmutableInClosures() {
	r := c.R
	info := c.Pkg.TypesInfo
	n, bad := 0, false
	c.eachFuncDecl(func(fd *ast.FuncDecl, fn *types.Func) {
		name := strings.TrimPrefix(pw.FuncName(fn), "cache.")
		if constructors[name] || c.constructionOnly()(fn) {
			return
		}
		ast.Inspect(fd.Body, func(x ast.Node) bool {
			lit, ok := x.(*ast.FuncLit)
			if !ok {
				return true
			}
			ast.Inspect(lit.Body, func(y ast.Node) bool {
				as, ok := y.(*ast.AssignStmt)
				if !ok {
					return true
				}
				for _, l := range as.Lhs {
					sel, ok := ast.Unparen(l).(*ast.SelectorExpr)
					if !ok {
						continue
					}
					sl := info.Selections[sel]
					if sl == nil || sl.Kind() != types.FieldVal {
						continue
					}
					fv, _ := sl.Obj().(*types.Var)
					if fv == nil {
						continue
					}
					key := ownerOf(fv, c.Pkg.Types) + "." + fname(fv)
					fc, known := fieldTable[key]
					if !known || fc.class != clImmutable {
						continue
					}
					// a local declared inside the literal is not shared state
					if id, ok := ast.Unparen(sel.X).(*ast.Ident); ok {
						if o := info.ObjectOf(id); o != nil && o.Pos() >= lit.Pos() && o.Pos() < lit.End() {
							continue
						}
					}
					n++
					bad = true
					r.Bad("R16.2", key, "write-after-construction@"+name, c.Pos(as.Pos()), "IMMUTABLE field "+key+" is assigned inside a function literal of "+name+", outside the constructor set: readers access it without synchronisation", nil)
				}
				return true
			})
			return false
		})
	})
	if !bad {
		r.OK("R16.2", "package:closures", "no function literal outside the constructor set assigns an IMMUTABLE field")
	}
}

// c16CopyLocks: a sync.Mutex / RWMutex / sync.Map copied by value (assignment, conversion of a dereferenced struct, value
// receiver, range variable, argument) is a second, independent lock: whoever locks the copy excludes nobody who locks the original.
// Decided by the standard copylock pass (golang.org/x/tools/go/analysis/passes/copylock) run on the package's non-test files — the
// library's own lint configuration runs the tests with -vet=off, so nothing else looks at this.
func (c *Ctx) c16CopyLocks() {
	r := c.R
	var diags []analysis.Diagnostic
	files := c.Pkg.Syntax
	pass := &analysis.Pass{
		Analyzer:   copylock.Analyzer,
		Fset:       c.Pkg.Fset,
		Files:      files,
		Pkg:        c.Pkg.Types,
		TypesInfo:  c.Pkg.TypesInfo,
		TypesSizes: c.Pkg.TypesSizes,
		ResultOf:   map[*analysis.Analyzer]interface{}{inspect.Analyzer: inspector.New(files)},
		Report:     func(d analysis.Diagnostic) { diags = append(diags, d) },
	}
	var runErr error
	func() {
		defer func() {
			if x := recover(); x != nil {
				runErr = fmt.Errorf("copylock pass panicked: %v", x)
			}
		}()
		_, runErr = copylock.Analyzer.Run(pass)
	}()
	if runErr != nil {
		r.Unknown("R16.10", "package", runErr.Error())
		return
	}
	for _, d := range diags {
		r.Bad("R16.10", "package", "lock-copied:"+c.Pos(d.Pos), c.Pos(d.Pos), d.Message+" — the copy is an independent lock guarding the same shared data", nil)
	}
	if len(diags) == 0 {
		r.OK("R16.10", "package", fmt.Sprintf("no lock is copied by value (%d files)", len(files)))
	}
}

// c16CapturedVars: a function literal started with `go` shares the variables it captures with the function that started it. A
// captured local variable (not a field behind a pointer: those are classified by R16.1) that the goroutine writes and the spawner
// still uses after the go statement — or that the spawner writes after the go statement and the goroutine uses — is an
// unsynchronised conflict unless a join (WaitGroup.Wait, channel receive) separates them; the module has no such join inside a
// spawner, so every such pair is reported.
func (c *Ctx) c16CapturedVars() {
	r := c.R
	info := c.Pkg.TypesInfo
	nGo, bad := 0, false
	c.eachFuncDecl(func(fd *ast.FuncDecl, fn *types.Func) {
		name := strings.TrimPrefix(pw.FuncName(fn), "cache.")
		var walk func(body ast.Node, encl ast.Node)
		walk = func(body ast.Node, encl ast.Node) {
			ast.Inspect(body, func(x ast.Node) bool {
				g, ok := x.(*ast.GoStmt)
				if !ok {
					return true
				}
				lit, ok := ast.Unparen(g.Call.Fun).(*ast.FuncLit)
				if !ok {
					return true
				}
				nGo++
				// accesses inside the literal to variables declared outside it (and inside the enclosing declaration)
				type acc struct{ w, rd token.Pos }
				inside := map[*types.Var]*acc{}
				writes := writtenIdents(lit.Body, info)
				ast.Inspect(lit.Body, func(y ast.Node) bool {
					id, ok := y.(*ast.Ident)
					if !ok {
						return true
					}
					v, ok := info.Uses[id].(*types.Var)
					if !ok || v.IsField() || v.Pkg() == nil || v.Parent() == v.Pkg().Scope() {
						return true
					}
					if v.Pos() >= lit.Pos() && v.Pos() < lit.End() || v.Pos() < fd.Pos() || v.Pos() >= fd.End() {
						return true
					}
					a := inside[v]
					if a == nil {
						a = &acc{}
						inside[v] = a
					}
					if writes[id] {
						if a.w == 0 {
							a.w = id.Pos()
						}
					} else if a.rd == 0 {
						a.rd = id.Pos()
					}
					return true
				})
				if len(inside) == 0 {
					return true
				}
				// accesses of the spawner after the go statement (a go statement in a loop: the whole loop body counts)
				lo, hi := g.End(), fd.End()
				if l := enclosingLoop(fd.Body, g); l != nil {
					lo = l.Pos()
				}
				// a join after the go statement (WaitGroup.Wait, channel receive, errgroup Wait) orders what follows it after the goroutine
				ast.Inspect(fd.Body, func(y ast.Node) bool {
					if y == nil || y.Pos() < g.End() || y.Pos() >= hi {
						return y == nil || y.End() > g.End()
					}
					switch j := y.(type) {
					case *ast.UnaryExpr:
						if j.Op == token.ARROW && j.Pos() < hi {
							hi = j.Pos()
						}
					case *ast.CallExpr:
						if sel, ok := ast.Unparen(j.Fun).(*ast.SelectorExpr); ok && sel.Sel.Name == "Wait" && j.Pos() < hi {
							hi = j.Pos()
						}
					}
					return true
				})
				outW := writtenIdents(fd.Body, info)
				ast.Inspect(fd.Body, func(y ast.Node) bool {
					if y == ast.Node(lit) {
						return false
					}
					id, ok := y.(*ast.Ident)
					if !ok || id.Pos() < lo || id.Pos() >= hi {
						return true
					}
					v, ok := info.Uses[id].(*types.Var)
					if !ok {
						return true
					}
					a := inside[v]
					if a == nil {
						return true
					}
					if a.w != 0 || outW[id] {
						bad = true
						what := "reads"
						if outW[id] {
							what = "writes"
						}
						gw := a.w
						gwhat := "writes"
						if gw == 0 {
							gw, gwhat = a.rd, "reads"
						}
						r.Bad("R16.9", name, "captured-variable-conflict:"+v.Name(), c.Pos(id.Pos()), fmt.Sprintf("the goroutine started at %s %s the captured variable %s (%s) and the spawner %s it after the go statement without synchronisation", c.Pos(g.Pos()), gwhat, v.Name(), c.Pos(gw), what), nil)
						delete(inside, v)
					}
					return true
				})
				return true
			})
		}
		walk(fd.Body, fd)
	})
	r.Count("go_literals", nGo)
	if nGo == 0 {
		// goroutines started from declared functions only: their arguments are evaluated by the go statement, nothing is captured
		r.OK("R16.9", "package", "no goroutine is started from a function literal: no captured variables")
	} else if !bad {
		r.OK("R16.9", "package", fmt.Sprintf("%d goroutine literals: no captured local variable is written by one side and used by the other after the go statement", nGo))
	}
}

// writtenIdents: identifiers that are assigned (=, op=, ++/--, range =) or whose address is taken in n.
func writtenIdents(n ast.Node, info *types.Info) map[*ast.Ident]bool {
	out := map[*ast.Ident]bool{}
	mark := func(e ast.Expr) {
		if id, ok := ast.Unparen(e).(*ast.Ident); ok {
			out[id] = true
		}
	}
	ast.Inspect(n, func(x ast.Node) bool {
		switch s := x.(type) {
		case *ast.AssignStmt:
			if s.Tok != token.DEFINE {
				for _, l := range s.Lhs {
					mark(l)
				}
			} else {
				// := may re-assign an existing variable of the same scope
				for _, l := range s.Lhs {
					if id, ok := l.(*ast.Ident); ok && info.Defs[id] == nil {
						out[id] = true
					}
				}
			}
		case *ast.IncDecStmt:
			mark(s.X)
		case *ast.RangeStmt:
			if s.Tok == token.ASSIGN {
				if s.Key != nil {
					mark(s.Key)
				}
				if s.Value != nil {
					mark(s.Value)
				}
			}
		case *ast.UnaryExpr:
			if s.Op == token.AND {
				mark(s.X)
			}
		}
		return true
	})
	return out
}

func enclosingLoop(root ast.Node, target ast.Node) ast.Node {
	var found ast.Node
	var stack []ast.Node
	ast.Inspect(root, func(x ast.Node) bool {
		if x == nil {
			stack = stack[:len(stack)-1]
			return true
		}
		if x == target {
			for _, s := range stack {
				switch s.(type) {
				case *ast.ForStmt, *ast.RangeStmt:
					if found == nil {
						found = s
					}
				}
			}
		}
		stack = append(stack, x)
		return true
	})
	return found
}

func ownerOf(f *types.Var, pkg *types.Package) string {
	if o, ok := cn.fieldOwner[f.Origin()]; ok {
		return o
	}
	// find the named struct type declaring f
	for _, n := range pkg.Scope().Names() {
		tn, ok := pkg.Scope().Lookup(n).(*types.TypeName)
		if !ok {
			continue
		}
		st, ok := tn.Type().Underlying().(*types.Struct)
		if !ok {
			continue
		}
		for i := 0; i < st.NumFields(); i++ {
			if st.Field(i).Origin() == f.Origin() {
				return canonTypeName(tn)
			}
		}
	}
	return ""
}

// c16Classified: R16.6.
func (c *Ctx) c16Classified() {
	r := c.R
	pkg := c.Pkg.Types
	n := 0
	var missing []string
	for _, name := range pkg.Scope().Names() {
		tn, ok := pkg.Scope().Lookup(name).(*types.TypeName)
		if !ok {
			continue
		}
		st, ok := tn.Type().Underlying().(*types.Struct)
		if !ok {
			continue
		}
		if _, isValue := valueTypes[name]; isValue {
			continue
		}
		for i := 0; i < st.NumFields(); i++ {
			n++
			if _, ok := fieldTable[name+"."+st.Field(i).Name()]; !ok {
				missing = append(missing, name+"."+st.Field(i).Name())
			}
		}
	}
	r.Count("fields_classified", n-len(missing))
	c.unclassified = map[string]bool{}
	for _, m := range missing {
		c.unclassified[m] = true
	}
	if len(missing) > 0 {
		r.Notes = append(r.Notes, "fields not in the role table, class inferred from their accesses (R16.6): "+strings.Join(missing, ", "))
	} else {
		r.OK("R16.6", "package", fmt.Sprintf("%d fields of component types classified; %d value types exempt", n, len(valueTypes)))
	}
}

func c16Policy() pw.Policy {
	return pw.Policy{
		Inline: func(fn *types.Func, depth int) bool {
			return !fn.Exported() && fn.Pkg() != nil && fn.Pkg().Name() == "cache"
		},
		MaxDepth: 3,
		Pure:     func(fn *types.Func) bool { return pw.FuncName(fn) == "errors.Is" },
		// loggers and trackers do not matter for field discipline: fix them to nil to keep the path count low
		AssumeNil: map[string]bool{"logDebug": true, "logWarn": true, "logError": true, "logImportant": true, "stat": true, "Stat": true},
	}
}

// entryFuncs: every function that can be the outermost frame: exported ones, those used as values, constructors, goroutine bodies.
func (c *Ctx) entryFuncs() []*types.Func {
	info := c.Pkg.TypesInfo
	called, valued := map[*types.Func]int{}, map[*types.Func]int{}
	for _, f := range c.Pkg.Syntax {
		ast.Inspect(f, func(n ast.Node) bool {
			switch x := n.(type) {
			case *ast.CallExpr:
				var id *ast.Ident
				switch fx := ast.Unparen(x.Fun).(type) {
				case *ast.Ident:
					id = fx
				case *ast.SelectorExpr:
					id = fx.Sel
				}
				if id != nil {
					if fn, ok := info.Uses[id].(*types.Func); ok {
						called[fn.Origin()]++
						// a function handed to sync.Map.Range runs synchronously inside that call: it is part of the caller, not an
						// entry of its own
						if fn.Name() == "Range" && fn.Pkg() != nil && fn.Pkg().Path() == "sync" {
							for _, a := range x.Args {
								var aid *ast.Ident
								switch ax := ast.Unparen(a).(type) {
								case *ast.Ident:
									aid = ax
								case *ast.SelectorExpr:
									aid = ax.Sel
								}
								if aid != nil {
									if cb, ok := info.Uses[aid].(*types.Func); ok {
										called[cb.Origin()]++
									}
								}
							}
						}
					}
				}
			case *ast.GoStmt:
				var id *ast.Ident
				switch fx := ast.Unparen(x.Call.Fun).(type) {
				case *ast.Ident:
					id = fx
				case *ast.SelectorExpr:
					id = fx.Sel
				}
				if id != nil {
					if fn, ok := info.Uses[id].(*types.Func); ok {
						valued[fn.Origin()] += 2 // goroutine body: an entry of its own
					}
				}
			case *ast.Ident:
				if fn, ok := info.Uses[x].(*types.Func); ok {
					valued[fn.Origin()]++
				}
			}
			return true
		})
	}
	var out []*types.Func
	c.eachFuncDecl(func(fd *ast.FuncDecl, fn *types.Func) {
		if fn.Exported() || valued[fn] > called[fn] || fn.Name() == "init" {
			out = append(out, fn)
		}
	})
	sort.Slice(out, func(i, j int) bool { return pw.FuncName(out[i]) < pw.FuncName(out[j]) })
	return out
}

func inConstructor(ev *pw.Event) bool {
	for f := ev.Frame; f != nil; f = f.Parent {
		if f.Fn != nil && constructors[strings.TrimPrefix(pw.FuncName(f.Fn), "cache.")] {
			return true
		}
	}
	return false
}

// c16Accesses: R16.1 / R16.2 over all paths of all entry functions.
func (c *Ctx) c16Accesses() {
	r := c.R
	pkg := c.Pkg.Types
	entries := c.entryFuncs()
	r.Count("entry_functions", len(entries))
	nAcc := map[string]int{}
	viol := map[string]bool{}
	unk := map[string][]unkAccess{}
	ownerCache := map[*types.Var]string{}
	owner := func(f *types.Var) string {
		if o, ok := ownerCache[f.Origin()]; ok {
			return o
		}
		o := ownerOf(f, pkg)
		ownerCache[f.Origin()] = o
		return o
	}
	for _, fn := range entries {
		name := strings.TrimPrefix(pw.FuncName(fn), "cache.")
		var paths []*pw.Path
		if name == "Failover.Get" || name == "FailoverOf.Get" {
			fo := c.failover(strings.Split(name, ".")[0])
			if fo.Err != nil {
				r.Unknown("R16.1", name, fo.Err.Error())
				continue
			}
			paths = fo.Paths
		} else {
			_, ps, _, err := c.runFunc(name, c16Policy())
			if err != nil {
				r.Unknown("R16.1", name, err.Error())
				continue
			}
			paths = ps
		}
		isCtor := constructors[name] || c.constructionOnly()(fn)
		report := func(rule, cons, kind string, ev *pw.Event, msg string, p *pw.Path) {
			viol[cons] = true
			r.Bad(rule, cons, kind+"@"+name, c.Pos(ev.Pos), msg+" (in "+name+")", append(shortTrace(p), p.Summary(c.Pkg.Fset)...))
		}
		for _, p := range paths {
			check := func(evs []*pw.Event) {
				ls := shardLocksets(evs)
				published := map[*pw.Val]bool{}
				for i, ev := range evs {
					// publication of freshly built objects
					switch ev.Kind {
					case pw.EvMapInsert:
						published[pointee(ev.Value)] = true
						published[ev.Value] = true
					case pw.EvCall:
						for _, a := range ev.Args {
							if a != nil && (a.Kind == pw.KAlloc || a.Kind == pw.KAddr) && !strings.HasPrefix(ev.Role, "Std:gob.Decoder") && !strings.HasPrefix(ev.Role, "Std:atomic.") {
								published[a] = true
								published[pointee(a)] = true
							}
						}
					}
					if ev.Field == nil || (ev.Kind != pw.EvFieldRead && ev.Kind != pw.EvFieldWrite) {
						continue
					}
					own := owner(ev.Field)
					if own == "" {
						continue
					}
					key := own + "." + fname(ev.Field)
					fc, ok := fieldTable[key]
					if !ok {
						if c.unclassified[key] && !userTypes[own] {
							base := strings.TrimSuffix(ev.Path, "."+ev.Field.Name())
							var held []string
							for k, v := range ls[i] {
								if v > 0 && !strings.HasPrefix(k, "R:") && strings.HasPrefix(k, base) {
									held = append(held, strings.TrimPrefix(k, base))
								}
							}
							fresh := ev.Recv != nil && (ev.Recv.Kind == pw.KAlloc || ev.Recv.Kind == pw.KZero) && !published[ev.Recv]
							unk[key] = append(unk[key], unkAccess{write: ev.Kind == pw.EvFieldWrite, ctor: isCtor || inConstructor(ev) || fresh, held: held, ev: ev, fn: name})
						}
						continue
					}
					nAcc[fc.class]++
					write := ev.Kind == pw.EvFieldWrite
					switch fc.class {
					case clSelfSync:
						// a self-synchronising object (sync.Map, mutex, channel) protects its own contents, not the field that holds
						// it: assigning the field (swapping in a fresh map, re-making a channel) after construction is a plain write
						// that races with every method call made through the field
						if write && !isCtor && !inConstructor(ev) && !(ev.Recv != nil && (ev.Recv.Kind == pw.KAlloc || ev.Recv.Kind == pw.KZero) && !published[ev.Recv]) {
							report("R16.1", key, "selfsync-field-replaced", ev, "SELFSYNC field "+key+" is assigned outside the constructor set: the object synchronises its own contents, not the field holding it", p)
						}
					case clImmutable:
						if write && !isCtor && !inConstructor(ev) {
							// writes to a local copy or a fresh literal are not writes to shared state
							if ev.Recv != nil && (ev.Recv.Kind == pw.KAlloc || ev.Recv.Kind == pw.KZero) && !published[ev.Recv] {
								continue
							}
							report("R16.2", key, "write-after-construction", ev, "IMMUTABLE field "+key+" is written outside its constructor set", p)
						}
					case clGuarded:
						if isCtor || inConstructor(ev) {
							continue
						}
						// a field of the same name that now holds a helper struct owning the guarded data AND its lock (a key-lock table
						// with its own mutex) is a container: selecting through it touches nothing guarded — the data inside is judged
						// under its re-identified name
						if st, ok := ev.Field.Type().Underlying().(*types.Struct); ok && structHasLock(st) {
							continue
						}
						base := strings.TrimSuffix(ev.Path, "."+ev.Field.Name())
						lock := base
						switch {
						case fc.lock != "":
							lock = base + "." + actualField(own, fc.lock)
						case own == "Invalidator":
							lock = base + ".Mutex"
						}
						if !ls[i].Has(lock, !write) {
							kind := "read-unlocked"
							if write {
								kind = "write-unlocked"
							}
							report("R16.1", key, kind, ev, fmt.Sprintf("GUARDED field %s accessed without its lock %s (held: %s)", key, lock, ls[i]), p)
						}
					case clAtomic:
						if ev.Note == "addr" {
							continue
						}
						// initialising the field of a freshly built entry that nobody else can see yet is construction
						if write && ev.Recv != nil && (ev.Recv.Kind == pw.KAlloc || ev.Recv.Kind == pw.KZero) && !published[ev.Recv] {
							continue
						}
						report("R16.1", key, "non-atomic-access", ev, "ATOMIC field "+key+" is accessed without sync/atomic", p)
					case clPublish:
						if !write {
							continue
						}
						b := ev.Recv
						fresh := b != nil && (b.Kind == pw.KAlloc || b.Kind == pw.KZero || b.Kind == pw.KAddr && b.Obj != nil ||
							b.Kind == pw.KField && strings.HasSuffix(b.Path, ".*")) && !published[b] && !published[pointee(b)] // (*p copies are local values; the copy itself is R16.3's business)
						if !fresh {
							report("R16.1", key, "write-after-publication", ev, "field "+key+" of an entry that is already stored (readers access it without a lock) is written in place", p)
						}
					}
				}
				// map operations on GUARDED map fields (covered through the field read of the map header) and iterator steps
				for i, ev := range evs {
					if ev.Kind != pw.EvMapIter && ev.Kind != pw.EvMapLen {
						continue
					}
					if !isShardData(ev) || isCtor {
						continue
					}
					nAcc[clGuarded]++
					if !ls[i].Has(bucketOf(ev), true) {
						report("R16.1", ownerOfData(ev)+".data", "iter-unlocked", ev, "iterator step / len of a shard map without the shard lock", p)
					}
				}
			}
			check(p.Events)
			for _, g := range goEvents(p) {
				for _, sp := range g.Sub {
					check(sp.Events)
				}
			}
		}
	}
	for k, v := range nAcc {
		r.Count("accesses:"+k, v)
	}
	// R16.6: fields that are not in the role table get their class inferred from the accesses seen: written only during
	// construction ⇒ IMMUTABLE; otherwise every access outside constructors must share one lock of the same object.
	var ukeys []string
	for k := range c.unclassified {
		ukeys = append(ukeys, k)
	}
	sort.Strings(ukeys)
	for _, k := range ukeys {
		if userTypes[strings.Split(k, ".")[0]] {
			r.OK("R16.6", k, "field of a USER-class type (registration-time), exempt")
			continue
		}
		accs := unk[k]
		writesOutside := false
		for _, a := range accs {
			if a.write && !a.ctor {
				writesOutside = true
			}
		}
		if !writesOutside {
			r.OK("R16.6", k, fmt.Sprintf("inferred IMMUTABLE: %d accesses, no write outside construction", len(accs)))
			continue
		}
		common := map[string]int{}
		nOut := 0
		for _, a := range accs {
			if a.ctor {
				continue
			}
			nOut++
			for _, h := range a.held {
				common[h]++
			}
		}
		lock := ""
		for h, cnt := range common {
			if cnt == nOut {
				lock = h
			}
		}
		if lock != "" {
			r.OK("R16.6", k, "inferred GUARDED by "+lock+fmt.Sprintf(" (%d accesses)", nOut))
			continue
		}
		for _, a := range accs {
			if a.write && !a.ctor {
				r.Bad("R16.6", k, "unprotected-new-field@"+a.fn, c.Pos(a.ev.Pos), "field "+k+" is not in the role table and is written outside constructors without a lock common to all its accesses (and not through sync/atomic): concurrent public operations race on it", nil)
				break
			}
		}
	}
	// one obligation per classified field
	var keys []string
	for k := range fieldTable {
		keys = append(keys, k)
	}
	sort.Strings(keys)
	for _, k := range keys {
		fc := fieldTable[k]
		if fc.class == clSelfSync || fc.class == clUser || fc.class == clChan {
			continue
		}
		if !viol[k] {
			rule := "R16.1"
			if fc.class == clImmutable {
				rule = "R16.2"
			}
			r.OK(rule, k, fc.class)
		}
	}
}

func ownerOfData(ev *pw.Event) string {
	if ev.Recv != nil && ev.Recv.Field != nil {
		return "hashedBucket"
	}
	return "?"
}

// c16StructCopies: R16.3 — whole-struct reads of types with an ATOMIC field.
func (c *Ctx) c16StructCopies() {
	r := c.R
	info := c.Pkg.TypesInfo
	atomicTypes := map[string]bool{}
	for k, fc := range fieldTable {
		if fc.class == clAtomic {
			atomicTypes[strings.Split(k, ".")[0]] = true
		}
	}
	// … and every struct type of the package one of whose fields is handed to sync/atomic by address somewhere (a local counter
	// type wrapping an int64: a Load method with a value receiver copies the struct with a plain read first)
	for _, f := range c.Pkg.Syntax {
		ast.Inspect(f, func(x ast.Node) bool {
			call, ok := x.(*ast.CallExpr)
			if !ok || len(call.Args) == 0 {
				return true
			}
			cf, _ := typeutil.Callee(info, call).(*types.Func)
			if cf == nil || cf.Pkg() == nil || cf.Pkg().Path() != "sync/atomic" {
				return true
			}
			u, ok := ast.Unparen(call.Args[0]).(*ast.UnaryExpr)
			if !ok || u.Op != token.AND {
				return true
			}
			if sel, ok := ast.Unparen(u.X).(*ast.SelectorExpr); ok {
				if sl := info.Selections[sel]; sl != nil && sl.Kind() == types.FieldVal {
					if tn := namedTypeName(sl.Recv()); tn != "" {
						atomicTypes[tn] = true
					}
				}
			}
			return true
		})
	}
	isAtomicStruct := func(t types.Type) bool {
		if t == nil {
			return false
		}
		if _, isPtr := t.(*types.Pointer); isPtr {
			return false
		}
		return atomicTypes[namedTypeName(t)]
	}
	n := 0
	// (a) value receivers
	c.eachFuncDecl(func(fd *ast.FuncDecl, fn *types.Func) {
		sig := fn.Type().(*types.Signature)
		if sig.Recv() != nil && isAtomicStruct(sig.Recv().Type()) {
			n++
			tn := namedTypeName(sig.Recv().Type())
			r.Bad("R16.3", tn, "struct-copy-by-value-receiver:"+fn.Name(), c.Pos(fd.Pos()),
				fmt.Sprintf("%s.%s has a value receiver: calling it through a *%s copies the whole struct, reading its atomically updated field (C of the entry types, the counter of a wrapper type) without sync/atomic while other goroutines update it", tn, fn.Name(), tn), nil)
		}
	})
	// (b) explicit copies: *p in value context, assignment/argument of struct-typed expressions
	// (*p).f is the field access p.f written out, &*p is p: no copy is made
	notCopies := map[*ast.StarExpr]bool{}
	for _, f := range c.Pkg.Syntax {
		ast.Inspect(f, func(x ast.Node) bool {
			switch y := x.(type) {
			case *ast.SelectorExpr:
				if se, ok := ast.Unparen(y.X).(*ast.StarExpr); ok {
					if sl := info.Selections[y]; sl != nil && sl.Kind() == types.FieldVal {
						notCopies[se] = true
					}
				}
			case *ast.UnaryExpr:
				if se, ok := ast.Unparen(y.X).(*ast.StarExpr); ok && y.Op == token.AND {
					notCopies[se] = true
				}
			}
			return true
		})
	}
	for _, f := range c.Pkg.Syntax {
		ast.Inspect(f, func(x ast.Node) bool {
			se, ok := x.(*ast.StarExpr)
			if !ok || notCopies[se] {
				return true
			}
			tv, ok := info.Types[se]
			if !ok || !tv.IsValue() || !isAtomicStruct(tv.Type) {
				return true
			}
			n++
			r.Bad("R16.3", namedTypeName(tv.Type), "struct-copy-by-deref", c.Pos(se.Pos()),
				"a stored entry is copied by value (*p): its ATOMIC field C is read without sync/atomic", nil)
			return true
		})
	}
	// (c) reflection-based encoders given an entry
	for _, f := range c.Pkg.Syntax {
		ast.Inspect(f, func(x ast.Node) bool {
			call, ok := x.(*ast.CallExpr)
			if !ok || len(call.Args) != 1 {
				return true
			}
			sel, ok := call.Fun.(*ast.SelectorExpr)
			if !ok || sel.Sel.Name != "Encode" {
				return true
			}
			rt := info.TypeOf(sel.X)
			if rt == nil || namedTypeName(rt) != "Encoder" {
				return true
			}
			at := info.TypeOf(call.Args[0])
			if at == nil {
				return true
			}
			an := namedTypeName(at)
			if an == "Entry" || an == "EntryOf" || atomicTypes[an] {
				n++
				pkgName := "encoder"
				if named, ok := derefType(rt).(*types.Named); ok && named.Obj().Pkg() != nil {
					pkgName = named.Obj().Pkg().Name()
				}
				r.Bad("R16.3", "TraitEntry", "reflection-read-by-"+pkgName+"-encoder", c.Pos(call.Pos()),
					"a stored entry is handed to a reflection-based encoder, which reads every exported field including the ATOMIC field C without sync/atomic", nil)
			}
			return true
		})
	}
	r.Count("struct_copy_sites", n)
	if n == 0 {
		r.OK("R16.3", "package", "no whole-struct read of a struct with an ATOMIC field")
	}
}

func derefType(t types.Type) types.Type {
	if p, ok := t.(*types.Pointer); ok {
		return p.Elem()
	}
	return t
}

// c16KeyLock: R16.5.
func (c *Ctx) c16KeyLock(sib string) {
	r := c.R
	fo := c.failover(sib)
	cons := sib + ".Get"
	if fo.Err != nil {
		r.Unknown("R16.5", cons, fo.Err.Error())
		return
	}
	n := 0
	for _, p := range fo.Paths {
		cl, err := fo.classify(p)
		if err != nil {
			r.Unknown("R16.5", cons, err.Error())
			return
		}
		seqs, _ := fullSeqs(p)
		for _, seq := range seqs {
			released := false
			for _, se := range seq {
				ev := se.ev
				if isRelease(ev) {
					released = true
				}
				if ev.Kind != pw.EvFieldWrite || ev.Field == nil || (fname(ev.Field) != "val" && fname(ev.Field) != "err") {
					continue
				}
				if o := namedTypeName(derefType(ev.Recv.Type)); o != "kl" && o != "klOf" {
					continue
				}
				n++
				if cl.lookup == nil || cl.found {
					d, t := c.pathDetail(fo, p, "a Get that does not own the key lock writes "+fname(ev.Field)+" of the shared entry: it races with the owner's write and with other waiters' reads")
					r.Bad("R16.5", cons, "waiter-writes-"+fname(ev.Field), c.Pos(ev.Pos), d, t)
				} else if released {
					d, t := c.pathDetail(fo, p, "the owner writes the key lock's "+fname(ev.Field)+" after releasing it: waiters read it concurrently")
					r.Bad("R16.5", cons, "write-after-release", c.Pos(ev.Pos), d, t)
				}
			}
		}
	}
	if n == 0 {
		r.Unknown("R16.5", cons, "no write to key-lock values found")
	} else if !hasViolation(r.Obls, "R16.5", cons) {
		r.OK("R16.5", cons, fmt.Sprintf("%d writes, all by the owner before its release", n))
	}
	_ = token.NoPos
}

// c16PublishBeforeStart: R16.7 — the backend constructors hand their methods to NewTrait(Of), which starts the janitor and
// reporter goroutines; every field those methods read must be written before that call.
func (c *Ctx) c16PublishBeforeStart() {
	r := c.R
	for _, b := range backends {
		// fields read by the callbacks the janitor / reporter invoke
		readBy := map[string]bool{}
		cbs := []string{"deleteExpired", "Len", "evictMostExpired", "evictLeastCounter"}
		// plus whatever else of the backend's methods the constructor hands over as a value
		if fd, _ := c.funcDecl("New" + b.Wrapper); fd != nil {
			bodies := c.reachBodies(fd, 2)
			bodies = append(bodies, c.referencedFuncs(bodies)...)
			for _, bd := range bodies {
				called := map[ast.Expr]bool{}
				ast.Inspect(bd.Body, func(x ast.Node) bool {
					if call, ok := x.(*ast.CallExpr); ok {
						called[ast.Unparen(call.Fun)] = true
					}
					return true
				})
				ast.Inspect(bd.Body, func(x ast.Node) bool {
					sel, ok := x.(*ast.SelectorExpr)
					if !ok || called[sel] {
						return true
					}
					if sl := c.Pkg.TypesInfo.Selections[sel]; sl != nil && sl.Kind() == types.MethodVal && namedTypeName(sl.Recv()) == b.Name {
						have := false
						for _, m := range cbs {
							if m == sel.Sel.Name {
								have = true
							}
						}
						if !have {
							cbs = append(cbs, sel.Sel.Name)
						}
					}
					return true
				})
			}
		}
		for _, m := range cbs {
			run := c.bk(b, b.Name+"."+m, false)
			if run.err != nil {
				r.Unknown("R16.7", b.Name+"."+m, run.err.Error())
				continue
			}
			for _, p := range run.paths {
				for _, ev := range p.Events {
					if ev.Kind == pw.EvFieldRead && ev.Field != nil {
						readBy[fname(ev.Field)] = true
					}
				}
			}
		}
		ctor := "New" + b.Wrapper
		_, paths, _, err := c.runFunc(ctor, pw.Policy{Inline: noInline})
		if err != nil {
			r.Unknown("R16.7", ctor, err.Error())
			continue
		}
		bad := false
		nStart := 0
		for _, p := range paths {
			started := false
			for _, ev := range p.Events {
				if ev.Kind == pw.EvCall && (ev.Role == "Repo:NewTrait" || ev.Role == "Repo:NewTraitOf") {
					started = true
					nStart++
					continue
				}
				if !started {
					continue
				}
				var fld string
				switch ev.Kind {
				case pw.EvFieldWrite:
					if ev.Field != nil {
						fld = fname(ev.Field)
					}
				case pw.EvMapInsert, pw.EvIndexWrite:
					if ev.Recv != nil && ev.Recv.Field != nil {
						fld = fname(ev.Recv.Field)
					}
				}
				if fld != "" && readBy[fld] {
					r.Bad("R16.7", ctor, "write-after-goroutine-start:"+fld, c.Pos(ev.Pos), "the constructor writes "+fld+" after NewTrait started the janitor/reporter goroutines, which read it through the installed callbacks (unordered write/read)", shortTrace(p))
					bad = true
				}
			}
		}
		if nStart == 0 {
			r.Unknown("R16.7", ctor, "no NewTrait call found")
		} else if !bad {
			r.OK("R16.7", ctor, fmt.Sprintf("fields read by the janitor callbacks (%d) are all written before NewTrait", len(readBy)))
		}
	}
}

func structHasLock(st *types.Struct) bool {
	for i := 0; i < st.NumFields(); i++ {
		switch types.TypeString(st.Field(i).Type(), nil) {
		case "sync.Mutex", "sync.RWMutex":
			return true
		}
	}
	return false
}
