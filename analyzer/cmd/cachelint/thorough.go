package main

import (
	"encoding/json"
	"fmt"
	"os"
	"os/exec"
	"path/filepath"
	"regexp"
	"runtime"
	"sort"
	"strings"
	"sync"

	"cachelint/core"
	"cachelint/mutate"
	"cachelint/rules"
)

// scopes: functions whose source is varied for a property in the thorough tier (regular expressions on Type.Method / Func).
var scopes = map[string][]string{
	"C01": {`^Failover(Of)?\.`},
	"C02": {`^Failover(Of)?\.`, `^NewFailover(Of)?$`, `^(shardedMap|shardedMapOf|syncMap)\.(Read|Write)$`, `^(ShardedMap|ShardedMapOf|SyncMap)\.Restore$`},
	"C03": {`^Failover(Of)?\.`, `^NewFailover(Of)?$`, `^WithTTL$`, `^detachedContext\.`, `^Trait(Of)?\.PrepareRead$`, `^(shardedMap|shardedMapOf|syncMap)\.Read$`},
	"C04": {`^Failover(Of)?\.`, `^detachedContext\.`, `^NewFailover(Of)?$`, `^Trait\.(TTL|NotifyWritten|NotifyDeleted|countOverflow)$`, `^Trait(Of)?\.PrepareRead$`, `^(shardedMap|shardedMapOf|syncMap)\.(Read|Write|Delete|Walk)$`},
	"C05": {`^Failover(Of)?\.`, `^NewFailover(Of)?$`, `^WithTTL$`, `^(shardedMap|shardedMapOf)\.(Read|Write|Delete)$`, `^(ShardedMap|ShardedMapOf)\.Restore$`},
	"C06": {`^Failover(Of)?\.`, `^NewFailover(Of)?$`, `^WithTTL$`, `^TTL$`, `^SkipRead$`, `^detachedContext\.`, `^Trait\.TTL$`, `\.Read$`, `^(shardedMap|shardedMapOf|syncMap)\.Write$`},
	"C07": {`^(shardedMap|shardedMapOf|syncMap)\.(Read|Write|Delete|ExpireAll|DeleteAll|Len|Load|Store|Walk)$`, `^Trait(Of)?\.PrepareRead$`, `^Trait\.(TTL|expireAt)$`, `^WithTTL$`, `^TTL$`, `^SkipRead$`, `^NoOp\.`, `^errExpired(Of)?\.`, `^(ShardedMap|ShardedMapOf|SyncMap)\.Restore$`, `^New(ShardedMap|ShardedMapOf)$`, `\.deleteExpired$`, `^tsTime$`},
	"C08": {`^(shardedMap|shardedMapOf|syncMap|ShardedMap|ShardedMapOf|SyncMap|shardedMapLegacyWalkerOf)\.`},
	"C09": {`^(shardedMap|shardedMapOf|syncMap)\.(Read|Write|Delete|Load|Store)$`, `^(ShardedMap|ShardedMapOf|SyncMap)\.Restore$`, `^Failover(Of)?\.`, `^InvalidationIndex\.(Add|invalidateByLabels)`, `^Trait(Of)?\.Notify`},
	"C10": {`^Trait\.(TTL|expireAt|init)$`, `^NewTrait$`, `^ts$`, `^tsTime$`, `^WithTTL$`, `^TTL$`, `^Trait(Of)?\.PrepareRead$`, `\.(ExpireAt|ExpiredAt)$`, `\.Write$`, `^shardedMapLegacyWalkerOf\.Walk$`},
	"C11": {`^Trait\.(invokeCleanup|TTL|init|janitor|heapInUseOverflow|sysOverflow|countOverflow)$`, `\.deleteExpired$`, `^NewTraitOf$`, `^New(ShardedMap|ShardedMapOf|SyncMap|Failover|FailoverOf)$`, `^(shardedMap|shardedMapOf|syncMap)\.Len$`},
	"C12": {`^Trait\.(invokeCleanup|heapInUseOverflow|sysOverflow|countOverflow|init)$`, `\.evict`, `^New(ShardedMap|ShardedMapOf|SyncMap)$`, `^Trait(Of)?\.PrepareRead$`, `^(shardedMap|shardedMapOf|syncMap)\.(Len|ExpireAll|Load)$`},
	"C13": {`\.(Dump|Restore|Walk|WalkDumpRestorer)$`, `^ts$`, `^tsTime$`, `^GobRegister$`, `^HTTPTransfer\.Import$`, `^(shardedMap|shardedMapOf|syncMap)\.(Write|ExpireAll|DeleteAll)$`},
	"C14": {`^HTTPTransfer\.`, `^Gob`, `^recursiveTypeHash$`, `^init$`, `\.(Dump|Restore)$`},
	"C15": {`^InvalidationIndex\.`, `^New(ShardedMap|ShardedMapOf|SyncMap|InvalidationIndex)$`, `^(shardedMap|shardedMapOf|syncMap)\.Delete$`},
	"C16": {`^(shardedMap|shardedMapOf|syncMap|ShardedMap|ShardedMapOf|SyncMap)\.`, `^InvalidationIndex\.`, `^Invalidator\.`, `^Failover(Of)?\.Get$`, `^Trait(Of)?\.`, `^New(ShardedMap|ShardedMapOf|SyncMap)$`, `^WithTTL$`},
	"C17": {`^Invalidator\.`},
	"C18": {`^Trait(Of)?\.(PrepareRead|Notify\w+|invokeCleanup|init)$`, `^NewFailover(Of)?$`, `^(shardedMap|shardedMapOf|syncMap)\.(Read|Write|Delete|ExpireAll|DeleteAll|deleteExpired|evict\w*)$`, `^Failover(Of)?\.(doBuild|refreshStale|Get)$`, `^NewStatsTracker$`, `^tracker\.`},
}

func scopeFunc(prop string) func(string) bool {
	var res []*regexp.Regexp
	for _, p := range scopes[prop] {
		res = append(res, regexp.MustCompile(p))
	}
	return func(fn string) bool {
		for _, re := range res {
			if re.MatchString(fn) {
				return true
			}
		}
		return false
	}
}

// verdictKeys summarises a report as a sorted list of violated keys and undecided/broken markers.
func verdictKeys(rep *core.Report) []string {
	var out []string
	for _, o := range rep.Obls {
		switch o.Status {
		case core.Violated:
			out = append(out, "V:"+o.Key)
		case core.Undecided:
			out = append(out, "U:"+o.Rule+"|"+o.Construct)
		}
	}
	for _, b := range rep.BrokenReasons() {
		out = append(out, "B:"+b)
	}
	sort.Strings(out)
	return dedupe(out)
}

func dedupe(xs []string) []string {
	var out []string
	for i, x := range xs {
		if i == 0 || x != xs[i-1] {
			out = append(out, x)
		}
	}
	return out
}

func sameKeys(a, b []string) bool {
	if len(a) != len(b) {
		return false
	}
	for i := range a {
		if a[i] != b[i] {
			return false
		}
	}
	return true
}

// runRules loads the subject (optionally with an overlay / extra environment) and runs the property's rules.
func runRules(prop, repo string, overlay map[string][]byte, env []string, tier string) (*core.Report, error) {
	prog, err := core.Load(core.LoadOpts{Repo: repo, Overlay: overlay, Env: env})
	if err != nil {
		return nil, err
	}
	p := rules.All[prop]
	rep := core.NewReport(prop, tier, 0)
	ctx := &rules.Ctx{Prog: prog, Pkg: prog.Cache, R: rep, Tier: tier}
	ctx.Prepare()
	func() {
		defer func() {
			if x := recover(); x != nil {
				rep.Broken(fmt.Sprintf("engine panic: %v", x))
			}
		}()
		p.Run(ctx)
	}()
	rep.CheckMinimums()
	return rep, nil
}

type job struct {
	Kind  string `json:"kind"` // mutant | neutral
	File  string `json:"file"`
	Index int    `json:"index"`
	Name  string `json:"name"`
}

type jobResult struct {
	Job    job            `json:"job"`
	Mutant *mutate.Mutant `json:"mutant,omitempty"`
	Status string         `json:"status"` // skipped-typecheck | killed | survived | same | differs | no-sites
	Diff   []string       `json:"diff,omitempty"`
	Sites  int            `json:"sites,omitempty"`
}

func subjectFiles(repo string) []string {
	m, _ := filepath.Glob(filepath.Join(repo, "*.go"))
	var out []string
	for _, f := range m {
		if !strings.HasSuffix(f, "_test.go") {
			out = append(out, f)
		}
	}
	sort.Strings(out)
	return out
}

// worker processes a list of jobs sequentially and prints one JSON result per line.
func worker(prop, repo, jobsFile, baseFile string) {
	var jobs []job
	b, _ := os.ReadFile(jobsFile)
	_ = json.Unmarshal(b, &jobs)
	var base []string
	b, _ = os.ReadFile(baseFile)
	_ = json.Unmarshal(b, &base)
	in := scopeFunc(prop)
	enc := json.NewEncoder(os.Stdout)
	parsed := map[string]*mutate.File{}
	for _, j := range jobs {
		f := parsed[j.File]
		if f == nil {
			src, err := os.ReadFile(j.File)
			if err != nil {
				continue
			}
			f, err = mutate.Parse(j.File, src)
			if err != nil {
				continue
			}
			parsed[j.File] = f
		}
		res := jobResult{Job: j}
		var src []byte
		var err error
		switch j.Kind {
		case "mutant":
			ms := f.Mutants(in)
			if j.Index >= len(ms) {
				continue
			}
			m := ms[j.Index]
			res.Mutant = &m
			src, err = f.Render(in, j.Index)
		case "neutral":
			var n int
			src, n, err = f.Neutral(j.Name, in)
			res.Sites = n
			if n == 0 && j.Name != "reprint" {
				res.Status = "no-sites"
				_ = enc.Encode(res)
				continue
			}
		}
		if err != nil {
			res.Status = "skipped-typecheck"
			_ = enc.Encode(res)
			continue
		}
		rep, err := runRules(prop, repo, map[string][]byte{j.File: src}, nil, "thorough")
		if err != nil {
			res.Status = "skipped-typecheck"
			_ = enc.Encode(res)
			continue
		}
		keys := verdictKeys(rep)
		same := sameKeys(keys, base)
		switch j.Kind {
		case "mutant":
			if same {
				res.Status = "survived"
			} else {
				res.Status = "killed"
			}
		case "neutral":
			if same {
				res.Status = "same"
			} else {
				res.Status = "differs"
				res.Diff = diffKeys(base, keys)
			}
		}
		_ = enc.Encode(res)
	}
}

func diffKeys(a, b []string) []string {
	in := func(x string, s []string) bool {
		for _, y := range s {
			if x == y {
				return true
			}
		}
		return false
	}
	var out []string
	for _, x := range b {
		if !in(x, a) {
			out = append(out, "+"+x)
		}
	}
	for _, x := range a {
		if !in(x, b) {
			out = append(out, "-"+x)
		}
	}
	return out
}

// thorough extends a finished quick report with the build-configuration matrix, the liveness sweep and the neutral sweep.
func thorough(prop, repo string, rep *core.Report) {
	base := verdictKeys(rep)
	// 1. second build configuration
	if alt, err := runRules(prop, repo, nil, []string{"GOARCH=386"}, "thorough"); err != nil {
		rep.Broken("GOARCH=386 load failed: " + err.Error())
	} else if k := verdictKeys(alt); !sameKeys(k, base) {
		rep.Broken("verdict differs under GOARCH=386: " + strings.Join(diffKeys(base, k), "; "))
	} else {
		rep.Extra["config_matrix"] = map[string]any{"GOARCH=386": "same verdict", "obligations": len(alt.Obls)}
	}
	// 2. jobs
	in := scopeFunc(prop)
	var jobs []job
	nSites := 0
	for _, path := range subjectFiles(repo) {
		src, err := os.ReadFile(path)
		if err != nil {
			continue
		}
		f, err := mutate.Parse(path, src)
		if err != nil {
			continue
		}
		ms := f.Mutants(in)
		nSites += len(ms)
		for i := range ms {
			jobs = append(jobs, job{Kind: "mutant", File: path, Index: i})
		}
		if len(ms) > 0 {
			for _, k := range mutate.NeutralKinds {
				jobs = append(jobs, job{Kind: "neutral", File: path, Name: k})
			}
		}
	}
	// bound the sweep deterministically (every k-th mutant) to keep the thorough tier within minutes
	const maxMutants = 1200
	if nSites > maxMutants {
		step := (nSites + maxMutants - 1) / maxMutants
		var kept []job
		i := 0
		for _, j := range jobs {
			if j.Kind != "mutant" {
				kept = append(kept, j)
				continue
			}
			if i%step == 0 {
				kept = append(kept, j)
			}
			i++
		}
		jobs = kept
	}
	tmp, err := os.MkdirTemp("", "cachelint-thorough")
	if err != nil {
		rep.Broken("cannot create scratch dir: " + err.Error())
		return
	}
	defer os.RemoveAll(tmp)
	bb, _ := json.Marshal(base)
	baseFile := filepath.Join(tmp, "base.json")
	_ = os.WriteFile(baseFile, bb, 0o644)
	nw := runtime.NumCPU()
	if nw > 16 {
		nw = 16
	}
	if nw > len(jobs) {
		nw = len(jobs)
	}
	if nw == 0 {
		rep.Broken("thorough tier: no mutation site in scope")
		return
	}
	chunks := make([][]job, nw)
	for i, j := range jobs {
		chunks[i%nw] = append(chunks[i%nw], j)
	}
	var mu sync.Mutex
	var results []jobResult
	var wg sync.WaitGroup
	self, _ := os.Executable()
	for w := 0; w < nw; w++ {
		jf := filepath.Join(tmp, fmt.Sprintf("jobs%d.json", w))
		jb, _ := json.Marshal(chunks[w])
		_ = os.WriteFile(jf, jb, 0o644)
		wg.Add(1)
		go func(jf string) {
			defer wg.Done()
			cmd := exec.Command(self, "-worker", "-prop", prop, "-repo", repo, "-jobs", jf, "-base", baseFile)
			cmd.Stderr = nil
			out, err := cmd.Output()
			if err != nil && len(out) == 0 {
				mu.Lock()
				rep.Broken("thorough worker failed: " + err.Error())
				mu.Unlock()
				return
			}
			dec := json.NewDecoder(strings.NewReader(string(out)))
			for dec.More() {
				var r jobResult
				if dec.Decode(&r) != nil {
					break
				}
				mu.Lock()
				results = append(results, r)
				mu.Unlock()
			}
		}(jf)
	}
	wg.Wait()
	sort.Slice(results, func(i, j int) bool {
		if results[i].Job.File != results[j].Job.File {
			return results[i].Job.File < results[j].Job.File
		}
		return results[i].Job.Index < results[j].Job.Index
	})
	killed, survived, skipped, neutralSame, neutralDiff := 0, 0, 0, 0, 0
	var survivors, killedSamples []any
	var killedAll []string
	byOp := map[string][2]int{}
	for _, r := range results {
		switch r.Status {
		case "killed":
			killed++
			killedAll = append(killedAll, fmt.Sprintf("%s:%d %s %s %s", filepath.Base(r.Mutant.File), r.Mutant.Line, r.Mutant.Func, r.Mutant.Op, r.Mutant.Desc))
			if len(killedSamples) < 12 {
				killedSamples = append(killedSamples, r.Mutant)
			}
		case "survived":
			survived++
			survivors = append(survivors, r.Mutant)
		case "skipped-typecheck":
			skipped++
		case "same":
			neutralSame++
		case "differs":
			neutralDiff++
			rep.Broken(fmt.Sprintf("behaviour-preserving rewrite %q of %s changes the verdict (false alarm or lost report): %s", r.Job.Name, filepath.Base(r.Job.File), strings.Join(r.Diff, "; ")))
		}
		if r.Mutant != nil && (r.Status == "killed" || r.Status == "survived") {
			c := byOp[r.Mutant.Op]
			if r.Status == "killed" {
				c[0]++
			} else {
				c[1]++
			}
			byOp[r.Mutant.Op] = c
		}
	}
	ops := map[string]string{}
	for k, v := range byOp {
		ops[k] = fmt.Sprintf("%d killed / %d survived", v[0], v[1])
	}
	rep.Count("thorough:mutation_sites_in_scope", nSites)
	rep.Count("thorough:mutants_analysed", killed+survived)
	rep.Count("thorough:mutants_reported", killed)
	rep.Count("thorough:mutants_silent", survived)
	rep.Count("thorough:mutants_not_typechecking", skipped)
	rep.Count("thorough:neutral_variants_same_verdict", neutralSame)
	rep.Count("thorough:neutral_variants_different_verdict", neutralDiff)
	rep.Extra["thorough_sweep"] = map[string]any{
		"what": "every syntactic mutation site (statement deletion, condition negation, relational/logical/arithmetic operator change, operand drop, " +
			"lock-mode swap, boolean/0-1 constant flip) of the functions in this property's scope is applied to the current source through an " +
			"in-memory overlay and the property's rules are re-run; a mutant is 'reported' when the verdict differs from today's. Silent " +
			"mutants are listed: they are equivalent, outside what the property constrains (logging, metrics of other properties, …), or a " +
			"gap. Behaviour-preserving rewrites (operand swap of ==/!=, if/else inversion, double negation, re-print) must keep the verdict.",
		"scope":           scopes[prop],
		"per_operator":    ops,
		"reported_sample": killedSamples,
		"reported_all":    killedAll,
		"silent_mutants":  survivors,
	}
	if killed == 0 {
		rep.Broken("thorough tier: no mutant in scope changes the verdict (rules are not sensitive to their anchors)")
	}
}
