package rules

import (
	"fmt"
	"go/ast"
	"go/token"
	"go/types"
	"math/big"
	"os"
	"strings"
	"time"

	"cachelint/pw"
)

func init() { register("C06", checkC06) }

// sameTTLCell: v exposes the same TTL cell as ctx: ctx itself, detachedContext{ctx}, or a value-adding wrapper that
// is not WithTTL (WithTTL(…, false) installs a new cell and hides the caller's).
func sameTTLCell(v, ctx *pw.Val) bool {
	for i := 0; v != nil && i < 6; i++ {
		if v == ctx {
			return true
		}
		if v.Kind == pw.KAlloc && namedTypeName(v.Type) == "detachedContext" {
			v = soleField(v)
			continue
		}
		if v.Kind == pw.KCall && v.Ev != nil && len(v.Ev.Args) > 0 {
			switch v.Ev.Role {
			case "Std:context.WithValue", "Repo:WithSkipRead", "Repo:withoutSkipRead":
				v = v.Ev.Args[0]
				continue
			}
		}
		return false
	}
	return false
}

// keepsSkipRead: v is the caller's context or a wrapper of it through which the caller's SkipRead flag is still visible (not through
// withoutSkipRead, which masks it).
func keepsSkipRead(v, ctx *pw.Val) bool {
	for i := 0; v != nil && i < 6; i++ {
		if v == ctx {
			return true
		}
		if v.Kind == pw.KAlloc && namedTypeName(v.Type) == "detachedContext" {
			v = soleField(v)
			continue
		}
		if v.Kind == pw.KCall && v.Ev != nil && len(v.Ev.Args) > 0 {
			switch v.Ev.Role {
			case "Std:context.WithValue":
				// (withoutSkipRead inlined) a value installed under the SkipRead key hides the caller's flag
				if len(v.Ev.Args) == 3 && v.Ev.Args[1] != nil && strings.Contains(strings.ToLower(namedTypeName(v.Ev.Args[1].Type)), "skipread") {
					return false
				}
				v = v.Ev.Args[0]
				continue
			case "Repo:WithTTL", "Repo:WithSkipRead":
				v = v.Ev.Args[0]
				continue
			}
		}
		return false
	}
	return false
}

func checkC06(c *Ctx) {
	r := c.R
	r.Explanation = "Static context-provenance analysis. (R06.1) on every execution of Get the builder and the final backend write receive the " +
		"same context value, and that value exposes the caller's TTL cell (the caller's ctx, or detachedContext{ctx}); so a TTL lowered by " +
		"the builder through WithTTL(ctx, ttl, true) is the TTL the backend sees. (R06.2) the stale refresh writes under " +
		"WithTTL(ctx, config.UpdateTTL, false): a private child cell, so neither the caller's cell nor the final store is affected. " +
		"(R06.3) WithTTL's merge rule is decided exhaustively: all paths of WithTTL are enumerated and, for each of the weak orderings of " +
		"(*existing, ttl, 0) consistent with a path's comparison facts, the value left in the cell is compared with 'smallest non-zero of the " +
		"two' (equal values: either). (R06.4) background builds run under detachedContext{caller ctx}, whose Deadline/Done/Err are declared " +
		"on the type itself and return (zero,false)/nil/nil while Value delegates to the parent. (R06.5) every in-module Read tests SkipRead " +
		"first and returns ErrNotFound without touching storage. (R06.6) Trait.TTL picks the context TTL when non-zero, else the configured " +
		"one, 0 for UnlimitedTTL. Not decided: whether a builder's TTL is honoured when the caller installed no TTL cell (the statement and " +
		"WithTTL's own doc differ; left unconstrained), cancel timing."
	r.Rule("R06.1", "builder and final store share one context that exposes the caller's TTL cell", 2)
	r.Rule("R06.2", "stale refresh writes under WithTTL(caller ctx, config.UpdateTTL, false)", 2)
	r.Rule("R06.3", "WithTTL merge rule over all weak orderings of (*existing, ttl, 0)", 1)
	r.Rule("R06.4", "background context is detachedContext{caller}; its methods are constant/delegating and declared on the type", 3)
	r.Rule("R06.5", "every in-module Read tests SkipRead(ctx) before touching storage and then returns ErrNotFound", 3)
	r.Rule("R06.6", "Trait.TTL: context TTL if non-zero, else configured TTL, UnlimitedTTL ⇒ 0", 1)
	r.Rule("R06.7", "context accessors: TTL(ctx) is the value of the installed cell (0 without one); SkipRead(ctx) is true exactly when the flag is present and true; the failure cache is consulted with the caller's context (so SkipRead bypasses it too)", 2)
	r.NotDecided = []string{"builder TTL when the caller installed no TTL cell", "cancel timing", "user backends honouring the context TTL"}
	for _, sib := range siblings {
		fo := c.failover(sib)
		if fo.Err != nil {
			r.Unknown("R06.*", sib+".Get", fo.Err.Error())
			continue
		}
		c.c06Sibling(fo)
		// config.UpdateTTL as read by the refresh is the configured value, 1 minute when left zero (the constructor's copy into the
		// instance is taken after the defaults were applied)
		c.ctorDefaults("R06.2", "New"+sib, "config", map[string]*big.Rat{"UpdateTTL": big.NewRat(60*1000000000, 1)})
	}
	// "a built value is stored …": the final store happens for every successful build (C05 R05.2), whatever the caller's context
	// did meanwhile
	c.borrow("C05", func() {
		for _, sib := range siblings {
			if fo := c.failover(sib); fo.Err == nil {
				c.c05Sibling(fo)
			}
		}
	}, func(o *coreObl) (string, bool) { return "R06.1", o.Rule == "R05.2" })
	// … and a store issued by Failover stores: Write of every in-module backend performs its store on every path that passes the
	// argument checks (C08 R08.3) — it does not look at the context's cancellation state, which for the caller's own context may
	// change at any time
	c.borrowKinds("C08", func() {
		for _, b := range backends {
			c.c08Backend(b)
		}
	}, "R06.1", "backends.Write:stores", []string{"R08.3"}, "write-effect")
	// … with the TTL it was given: every Write stores the expiry expireAt(ctx) computed from that TTL — E = now + ttl for every
	// non-zero ttl, negative ones included (C10 R10.3)
	// "never alters … the caller's context": also the failure entry is written under a cell of its own — WithTTL(ctx, DefaultTTL,
	// false) — never by updating the caller's cell (C05 R05.6)
	for _, sib := range siblings {
		if fo := c.failover(sib); fo.Err == nil {
			fo := fo
			c.borrowKinds("C05", func() { c.c05Sibling(fo) }, "R06.2", sib+".Get:failure-write-own-cell", []string{"R05.6"}, "failure-ttl-from-context")
		}
	}
	// "SkipRead forces a rebuild whose result is still stored" — and returned: a Get under SkipRead is a miss like any other (the
	// backend answers ErrNotFound); a frontend that skips the read itself leaves "no error" behind, which reads as "nothing to
	// wait for": Get then returns a value nobody built (C02 R02.1) and the single read of the SyncRead section is gone (C05 R05.1)
	for _, sib := range siblings {
		if fo := c.failover(sib); fo.Err == nil {
			fo := fo
			c.borrowKinds("C02", func() { c.c02Sibling(fo) }, "R06.5", sib+".Get:skipread-is-a-miss", []string{"R02.1"}, "fabricated-Zero", "fabricated-ReadZero")
			c.borrowKinds("C05", func() { c.c05Sibling(fo) }, "R06.5", sib+".Get:skipread-read-issued", []string{"R05.1"}, "read-count")
			c.c06SkipReadWaiter(fo)
		}
	}
	c.borrowKinds("C10", func() { c.c10ExpireAt() }, "R06.1", "backends.Write:stored-expiry", []string{"R10.3"}, "stored-E", "no-ttl", "expiry-value")
	// … and the TTL a Write applies is the effective TTL with the documented jitter T + J·T·(r − 1/2), one draw of the documented
	// source, for negative TTLs too ("stored as already expired") (C10 R10.2)
	// "backend default if none": the backend's TimeToLive is the configured one — 5 minutes exactly when 0, UnlimitedTTL (−1) stays
	// unlimited (C10 R10.2 defaults)
	c.borrowKinds("C10", func() {
		c.defaultsRule("R10.2", map[string]*big.Rat{"ExpirationJitter": big.NewRat(1, 10), "TimeToLive": big.NewRat(5*60*1000000000, 1)})
	}, "R06.1", "Trait.init:TimeToLive-default", []string{"R10.2"}, "TimeToLive")
	c.borrowKinds("C10", func() { c.c10Jitter() }, "R06.1", "Trait.TTL:jitter", []string{"R10.2"}, "jitter-formula", "rand-count", "jitter-untested", "jitter-when-disabled")
	// "the temporary re-store of a stale value uses UpdateTTL": an acceptable stale value IS re-stored before the build, by a backend
	// Write under the UpdateTTL cell (C03 R03.1) — a refresh by another backend operation (prolonging the old expiry) can leave a
	// value that expired long ago expired
	for _, sib := range siblings {
		if fo := c.failover(sib); fo.Err == nil {
			fo := fo
			c.borrowKinds("C03", func() { c.c03Sibling(fo) }, "R06.2", sib+".Get:stale-value-re-stored", []string{"R03.1"}, "an-acceptable-stale-value-must")
		}
	}
	c.c06WithTTL()
	c.c06Accessors()
	c.c06Detached()
	c.c06SkipRead()
	c.c06TraitTTL()
}

func (c *Ctx) c06Sibling(fo *FO) {
	r := c.R
	cons := fo.Name + ".Get"
	nBuild, nRefresh, nBg := 0, 0, 0
	// "neither cancelled nor deadlined by it": Get and the helpers of the frontend never consult the cancellation of a context
	// themselves (ctx.Done / ctx.Err / ctx.Deadline) — what happens to a build is decided by the builder alone. A scheduler that
	// waits on the caller's Done channel drops the background update of a caller that went away
	if fo.Decl != nil {
		info := c.Pkg.TypesInfo
		for _, bd := range c.reachBodies(fo.Decl, 3) {
			if bfn, _ := info.Defs[bd.Name].(*types.Func); bfn == nil || c.isNewAPI(bfn) {
				continue
			}
			if !c.frontendFiles()(bd.Pos()) {
				continue
			}
			ast.Inspect(bd.Body, func(x ast.Node) bool {
				call, ok := x.(*ast.CallExpr)
				if !ok {
					return true
				}
				sel, ok := ast.Unparen(call.Fun).(*ast.SelectorExpr)
				if !ok || sel.Sel.Name != "Done" && sel.Sel.Name != "Err" && sel.Sel.Name != "Deadline" {
					return true
				}
				if t := info.TypeOf(sel.X); t != nil && types.TypeString(t, nil) == "context.Context" {
					r.Bad("R06.4", cons, "context-cancellation-consulted", c.Pos(call.Pos()), "the frontend consults "+sel.Sel.Name+"() of a context itself ("+c.fnNameOf(bd)+"): whether a (background) build runs then depends on the caller's cancellation or deadline", nil)
				}
				return true
			})
		}
	}
	for _, p := range fo.Paths {
		seqs, _ := fullSeqs(p)
		for si, seq := range seqs {
			var bctx *pw.Val
			var bev *pw.Event
			for _, se := range seq {
				ev := se.ev
				if si == 0 && se.bg {
					continue
				}
				if isBuilderCall(fo, ev) && len(ev.Args) > 0 {
					nBuild++
					bctx, bev = ev.Args[0], ev
					if !sameTTLCell(bctx, fo.Ctx) {
						d, t := c.pathDetail(fo, p, "the builder's context does not expose the caller's TTL cell: "+bctx.String())
						r.Bad("R06.1", cons, "builder-ctx", c.Pos(ev.Pos), d, t)
					}
					if se.bg {
						nBg++
						if !isDetachedOf(bctx, fo.Ctx) {
							d, t := c.pathDetail(fo, p, "background builder does not run under detachedContext{caller ctx}: "+bctx.String())
							r.Bad("R06.4", cons, "bg-ctx-not-detached", c.Pos(ev.Pos), d, t)
						}
					} else if bctx.Kind == pw.KAlloc {
						// sync builds keep the caller's cancellation
						d, t := c.pathDetail(fo, p, "synchronous build runs under a detached context")
						r.Bad("R06.4", cons, "sync-ctx-detached", c.Pos(ev.Pos), d, t)
					}
				}
				if ev.Kind == pw.EvCall && ev.Role == "BackendWrite" && len(ev.Args) > 0 {
					if isTTLChild(ev.Args[0]) {
						nRefresh++
						w := ev.Args[0].Ev
						ok := len(w.Args) == 3 && sameTTLCell(w.Args[0], fo.Ctx) && w.Args[1] == fo.cfgVal(p, "UpdateTTL")
						if ok {
							if t, known := p.Truth(w.Args[2]); !known || t {
								ok = false
							}
						}
						if !ok {
							d, t := c.pathDetail(fo, p, "stale refresh does not write under WithTTL(caller ctx, config.UpdateTTL, false)")
							r.Bad("R06.2", cons, "refresh-ctx", c.Pos(ev.Pos), d, t)
						}
						if bev != nil {
							d, t := c.pathDetail(fo, p, "stale refresh after the build")
							r.Bad("R06.2", cons, "refresh-after-build", c.Pos(ev.Pos), d, t)
						}
						continue
					}
					if bev != nil && ev.Args[0] != bctx {
						d, t := c.pathDetail(fo, p, fmt.Sprintf("final store uses context %s, the builder used %s", ev.Args[0], bctx))
						r.Bad("R06.1", cons, "store-ctx-differs", c.Pos(ev.Pos), d, t)
					}
					if bev == nil {
						d, t := c.pathDetail(fo, p, "backend write that is neither the stale refresh (WithTTL child context) nor the store of a built value")
						r.Bad("R06.2", cons, "unexpected-write", c.Pos(ev.Pos), d, t)
					}
				}
			}
		}
	}
	r.Count("builds_checked:"+cons, nBuild)
	r.Count("background_builds:"+cons, nBg)
	r.Count("refresh_writes:"+cons, nRefresh)
	if nBuild > 0 && nRefresh > 0 && nBg == 0 {
		// stale values are refreshed but no path ever hands the build to a goroutine: every update of a stale value runs in the
		// caller's goroutine under the caller's context — cancelled and deadlined by it
		r.Bad("R06.4", cons, "stale-update-never-detached", c.declPos(cons), "no path runs the build of a refreshed stale value in the background under a detached context: the update is always synchronous under the caller's context (e.g. the refresh no longer resets the error that decides between the two)", nil)
	} else if nBuild == 0 || nRefresh == 0 || nBg == 0 {
		r.Unknown("R06.1", cons, fmt.Sprintf("vacuous: builds=%d refreshes=%d background=%d", nBuild, nRefresh, nBg))
	}
	for _, rule := range []string{"R06.1", "R06.2", "R06.4"} {
		if !hasViolation(r.Obls, rule, cons) {
			r.OK(rule, cons, fmt.Sprintf("%d build executions (%d background), %d refresh writes", nBuild, nBg, nRefresh))
		}
	}
}

// weakOrderings enumerates all rank assignments of n atoms (ranks 0..n-1, every weak ordering at least once).
func weakOrderings(n int) [][]int {
	var out [][]int
	seen := map[string]bool{}
	cur := make([]int, n)
	var rec func(i int)
	rec = func(i int) {
		if i == n {
			// normalise ranks to dense form to deduplicate
			used := map[int]bool{}
			for _, x := range cur {
				used[x] = true
			}
			m := map[int]int{}
			k := 0
			for v := 0; v < n; v++ {
				if used[v] {
					m[v] = k
					k++
				}
			}
			norm := make([]int, n)
			key := ""
			for j, x := range cur {
				norm[j] = m[x]
				key += fmt.Sprint(norm[j], ",")
			}
			if !seen[key] {
				seen[key] = true
				out = append(out, norm)
			}
			return
		}
		for v := 0; v < n; v++ {
			cur[i] = v
			rec(i + 1)
		}
	}
	rec(0)
	return out
}

func relOfRanks(a, b int) uint8 {
	switch {
	case a < b:
		return pw.RLt
	case a == b:
		return pw.REq
	}
	return pw.RGt
}

func (c *Ctx) runFunc(name string, pol pw.Policy) (*pw.Engine, []*pw.Path, *types.Func, error) {
	_, fn := c.funcDecl(name)
	if fn == nil {
		return nil, nil, nil, fmt.Errorf("anchor %s does not resolve", name)
	}
	if pol.Role == nil {
		pol.Role = BaseRole
	}
	if pol.Inline == nil {
		pol.Inline = inlineUnexported
	}
	if pol.Pure == nil {
		pol.Pure = basePure
	}
	e := pw.New(c.Pkg, pol)
	t0 := time.Now()
	paths, err := e.Run(fn)
	if os.Getenv("CACHELINT_TIMING") != "" {
		fmt.Fprintf(os.Stderr, "timing %s: %d paths %.2fs\n", name, len(paths), time.Since(t0).Seconds())
	}
	if err != nil {
		return e, paths, fn, err
	}
	for _, p := range paths {
		if len(p.Unsup) > 0 {
			return e, paths, fn, fmt.Errorf("unmodelled construct in %s: %s", name, p.Unsup[0])
		}
	}
	c.curEngine = e
	paths = c.dropFeaturePaths(name, paths)
	c.R.Func(name)
	c.R.Count("paths:"+name, len(paths))
	return e, paths, fn, nil
}

func paramVal(e *pw.Engine, name string) *pw.Val {
	for obj, v := range e.Params {
		if obj.Name() == name {
			return v
		}
	}
	return nil
}

func paramByType(e *pw.Engine, pred func(t types.Type) bool) *pw.Val {
	var found *pw.Val
	for obj, v := range e.Params {
		if pred(obj.Type()) {
			if found != nil && found.Pos < v.Pos {
				continue
			}
			found = v
		}
	}
	return found
}

// c06WithTTL decides the merge rule of WithTTL.
func (c *Ctx) c06WithTTL() {
	r := c.R
	e, paths, _, err := c.runFunc("WithTTL", pw.Policy{Inline: inlineUnexported, MaxDepth: 2})
	if err != nil {
		r.Unknown("R06.3", "WithTTL", err.Error())
		return
	}
	ttl := paramByType(e, func(t types.Type) bool { return namedTypeName(t) == "Duration" })
	upd := paramByType(e, func(t types.Type) bool {
		b, ok := t.Underlying().(*types.Basic)
		return ok && b.Kind() == types.Bool
	})
	ctx := paramByType(e, func(t types.Type) bool { return types.TypeString(t, nil) == "context.Context" })
	if ttl == nil || upd == nil || ctx == nil {
		r.Unknown("R06.3", "WithTTL", "cannot identify (ctx, ttl, updateExisting) parameters")
		return
	}
	zero := e.IntConst(0)
	orderings := weakOrderings(3) // atoms: existing, ttl, zero
	nCases, nUpdate, nFresh := 0, 0, 0
	for _, p := range paths {
		// is there a cell on this path? a comma-ok assertion of ctx.Value(...) to *Duration
		var cellPtr, cellOK *pw.Val
		for _, v := range p.Ret {
			_ = v
		}
		for _, ev := range p.Events {
			if ev.Kind == pw.EvAssign && ev.Value != nil && ev.Value.Kind == pw.KAssert {
				cellPtr = ev.Value
			}
			if ev.Kind == pw.EvAssign && ev.Value != nil && ev.Value.Kind == pw.KMapOk && ev.Value.Src != nil && ev.Value.Src.Kind == pw.KAssert {
				cellOK = ev.Value
			}
		}
		updT, updKnown := p.Truth(upd)
		present := false
		if cellOK != nil {
			if t, known := p.Truth(cellOK); known && t {
				present = true
			}
		}
		// writes to the existing cell
		var write *pw.Event
		var existing *pw.Val
		for _, ev := range p.Events {
			if ev.Kind == pw.EvFieldWrite && ev.Note == "deref" && cellPtr != nil && ev.Recv == cellPtr {
				write = ev
			}
			if ev.Kind == pw.EvDeref && cellPtr != nil && ev.Recv == cellPtr && existing == nil {
				existing = ev.Value
			}
		}
		ret := p.Ret[0]
		fresh := ret != nil && ret.Kind == pw.KCall && ret.Ev.Role == "Std:context.WithValue" && len(ret.Ev.Args) == 3 &&
			ret.Ev.Args[0] == ctx && ret.Ev.Args[2].Kind == pw.KAddr && (ret.Ev.Args[2].Obj == ttl.Obj || ret.Ev.Args[2].Src == ttl)
		if !(updKnown && updT && present) {
			// must install a fresh cell holding ttl, old cell untouched
			nFresh++
			nCases++
			if write != nil {
				r.Bad("R06.3", "WithTTL", "write-without-update", c.Pos(write.Pos), "existing TTL cell modified although updateExisting is false or no cell was found", shortTrace(p))
			}
			if !fresh {
				r.Bad("R06.3", "WithTTL", "no-fresh-cell", c.Pos(p.RetPos), "without update the result must be context.WithValue(ctx, ttlCtxKey{}, &ttl)", shortTrace(p))
			}
			if updKnown && updT && cellOK == nil {
				r.Bad("R06.3", "WithTTL", "no-cell-lookup", c.Pos(p.RetPos), "updateExisting path never looks for an existing cell", shortTrace(p))
			}
			continue
		}
		nUpdate++
		if ret != ctx {
			r.Bad("R06.3", "WithTTL", "update-returns-other-ctx", c.Pos(p.RetPos), "update of an existing cell must return the original context", shortTrace(p))
		}
		if write != nil && write.Value != ttl {
			r.Bad("R06.3", "WithTTL", "writes-other-value", c.Pos(write.Pos), "the existing cell is assigned something other than ttl", shortTrace(p))
		}
		if existing == nil {
			// the path never looked at the old value: it must be correct for every ordering
			existing = e.IntConst(123456789) // placeholder atom with no facts
		}
		for _, o := range orderings {
			re, rt, rz := o[0], o[1], o[2]
			if p.Rel(existing, ttl)&relOfRanks(re, rt) == 0 || p.Rel(existing, zero)&relOfRanks(re, rz) == 0 || p.Rel(ttl, zero)&relOfRanks(rt, rz) == 0 {
				continue
			}
			nCases++
			// expected final value (as a rank): smallest non-zero of the two; both zero ⇒ zero
			var want int
			switch {
			case re == rz && rt == rz:
				want = rz
			case re == rz:
				want = rt
			case rt == rz:
				want = re
			case re < rt:
				want = re
			default:
				want = rt
			}
			got := re
			if write != nil {
				got = rt
			}
			if got != want {
				r.Bad("R06.3", "WithTTL", fmt.Sprintf("merge:%s", orderName(re, rt, rz)), c.Pos(p.RetPos),
					fmt.Sprintf("ordering %s: the cell ends up holding %s, the smallest non-zero TTL is %s", orderName(re, rt, rz),
						map[bool]string{true: "ttl", false: "*existing"}[write != nil], map[bool]string{true: "ttl", false: "*existing"}[want == rt && want != re]), shortTrace(p))
			}
		}
	}
	r.Count("withttl_cases", nCases)
	if nUpdate == 0 || nFresh == 0 {
		r.Unknown("R06.3", "WithTTL", fmt.Sprintf("vacuous: %d update paths, %d fresh paths", nUpdate, nFresh))
	}
	// the cell is written by WithTTL only: nothing else in the package assigns through a *time.Duration (a backend that "reports" a
	// remaining TTL into the reader's cell makes every later Write with that context use it)
	info := c.Pkg.TypesInfo
	c.eachFuncDecl(func(fd *ast.FuncDecl, fn *types.Func) {
		fname := strings.TrimPrefix(pw.FuncName(fn), "cache.")
		if fname == "WithTTL" || c.isNewAPI(fn) {
			return
		}
		ast.Inspect(fd.Body, func(x ast.Node) bool {
			as, ok := x.(*ast.AssignStmt)
			if !ok {
				return true
			}
			for _, l := range as.Lhs {
				st, ok := ast.Unparen(l).(*ast.StarExpr)
				if !ok {
					continue
				}
				if t := info.TypeOf(st.X); t != nil && types.TypeString(t, nil) == "*time.Duration" && !c.addressOfFieldOrLocal(info, fd, st.X) {
					r.Bad("R06.3", fname, "ttl-cell-written-outside-WithTTL", c.Pos(as.Pos()), "a *time.Duration is assigned through outside WithTTL: the TTL cell of a caller's context is rewritten behind the caller's back", nil)
				}
			}
			return true
		})
	})
	// who derives a TTL context: inside the library only the failover frontend does (UpdateTTL for a stale refresh, DefaultTTL for the
	// failure cache), always as a fresh derived context (updateExisting = false). A backend / Trait function that calls WithTTL either
	// rewrites the caller's cell (update = true: a later Write with that context takes the reported value as its TTL) or shadows the
	// TTL the caller put into the context (the value's own TTL instead of the context's)
	withTTLObj := c.Pkg.Types.Scope().Lookup("WithTTL")
	fromFailover := c.onlyCalledFrom(func(name string) bool {
		return strings.HasPrefix(name, "Failover.") || strings.HasPrefix(name, "FailoverOf.") || strings.HasPrefix(name, "NewFailover")
	})
	nCalls := 0
	c.eachFuncDecl(func(fd *ast.FuncDecl, fn *types.Func) {
		fname := strings.TrimPrefix(pw.FuncName(fn), "cache.")
		if fname == "WithTTL" || c.isNewAPI(fn) || withTTLObj == nil {
			return
		}
		ast.Inspect(fd.Body, func(x ast.Node) bool {
			call, ok := x.(*ast.CallExpr)
			if !ok {
				return true
			}
			id, _ := ast.Unparen(call.Fun).(*ast.Ident)
			if id == nil || info.Uses[id] != withTTLObj || len(call.Args) != 3 {
				return true
			}
			nCalls++
			if tv, ok := info.Types[call.Args[2]]; !ok || tv.Value == nil || tv.Value.String() != "false" {
				r.Bad("R06.3", fname, "library-updates-existing-cell", c.Pos(call.Pos()), "the library calls WithTTL with updateExisting other than the constant false: the TTL cell of the caller's context is rewritten behind the caller's back", nil)
			}
			if !fromFailover(fn) {
				r.Bad("R06.3", fname, "ttl-context-derived-outside-failover", c.Pos(call.Pos()), "WithTTL is called outside the failover frontend: a backend/Trait function that derives its own TTL context replaces the TTL the caller's context carries", nil)
			}
			return true
		})
	})
	r.Count("withttl_library_calls", nCalls)
	if !hasViolation(r.Obls, "R06.3", "WithTTL") {
		r.OK("R06.3", "WithTTL", fmt.Sprintf("%d paths, %d (path, ordering) cases, 13 weak orderings of (*existing, ttl, 0)", len(paths), nCases))
	}
}

// addressOfFieldOrLocal: the pointer written through is a parameter that every caller in the package fills with the address of a
// struct field or a local variable (a helper that completes configuration fields through pointers), or is itself such an address:
// then it is not a cell taken out of a context.
func (c *Ctx) addressOfFieldOrLocal(info *types.Info, fd *ast.FuncDecl, x ast.Expr) bool {
	x = ast.Unparen(x)
	if u, ok := x.(*ast.UnaryExpr); ok && u.Op == token.AND {
		return true
	}
	id, ok := x.(*ast.Ident)
	if !ok {
		return false
	}
	obj := info.Uses[id]
	if obj == nil || fd.Type.Params == nil {
		return false
	}
	// a parameter of a non-exported function: what the package's call sites pass
	idx, n := -1, 0
	for _, f := range fd.Type.Params.List {
		for _, nm := range f.Names {
			if info.Defs[nm] == obj {
				idx = n
			}
			n++
		}
	}
	if idx < 0 || fd.Name.IsExported() {
		return false
	}
	fobj := info.Defs[fd.Name]
	sites, ok2 := 0, true
	for _, file := range c.Pkg.Syntax {
		ast.Inspect(file, func(nd ast.Node) bool {
			call, isCall := nd.(*ast.CallExpr)
			if !isCall {
				return true
			}
			var callee types.Object
			switch f := ast.Unparen(call.Fun).(type) {
			case *ast.Ident:
				callee = info.Uses[f]
			case *ast.SelectorExpr:
				callee = info.Uses[f.Sel]
			}
			if callee == nil || callee != fobj || idx >= len(call.Args) {
				return true
			}
			sites++
			if u, isAddr := ast.Unparen(call.Args[idx]).(*ast.UnaryExpr); !isAddr || u.Op != token.AND {
				ok2 = false
			}
			return true
		})
	}
	return sites > 0 && ok2
}

func orderName(re, rt, rz int) string {
	type a struct {
		n string
		r int
	}
	xs := []a{{"existing", re}, {"ttl", rt}, {"0", rz}}
	for i := 0; i < 3; i++ {
		for j := i + 1; j < 3; j++ {
			if xs[j].r < xs[i].r {
				xs[i], xs[j] = xs[j], xs[i]
			}
		}
	}
	s := xs[0].n
	for i := 1; i < 3; i++ {
		if xs[i].r == xs[i-1].r {
			s += "=" + xs[i].n
		} else {
			s += "<" + xs[i].n
		}
	}
	return s
}

// c06Detached checks the four methods of detachedContext.
func (c *Ctx) c06Detached() {
	r := c.R
	var obj types.Object
	if tn := c.lookupType("detachedContext"); tn != nil {
		obj = tn
	}
	if obj == nil {
		r.Unknown("R06.4", "detachedContext", "type does not resolve")
		return
	}
	ms := types.NewMethodSet(obj.Type())
	for _, m := range []string{"Deadline", "Done", "Err", "Value"} {
		sel := ms.Lookup(c.Pkg.Types, m)
		cons := "detachedContext." + m
		if sel == nil {
			r.Bad("R06.4", cons, "missing", "-", "detachedContext has no method "+m, nil)
			continue
		}
		if len(sel.Index()) > 1 {
			if m == "Value" {
				r.OK("R06.4", cons, "promoted from the parent context (delegation)")
				continue
			}
			r.Bad("R06.4", cons, "promoted-from-parent", c.Pos(obj.Pos()), m+" is promoted from the embedded parent context: the caller's deadline/cancellation leaks into background builds", nil)
			continue
		}
		e, paths, _, err := c.runFunc("detachedContext."+m, pw.Policy{})
		if err != nil {
			r.Unknown("R06.4", cons, err.Error())
			continue
		}
		bad := ""
		for _, p := range paths {
			switch m {
			case "Deadline":
				if len(p.Ret) != 2 {
					bad = "unexpected result count"
					break
				}
				t0 := p.Ret[0]
				zeroTime := t0.Kind == pw.KZero || t0.Kind == pw.KAlloc && len(t0.Fields) == 0 && len(t0.Elems) == 0
				if ok, known := p.Truth(p.Ret[1]); !zeroTime || !known || ok {
					bad = "Deadline must return (time.Time{}, false)"
				}
			case "Done", "Err":
				if n, known := p.NilFact(p.Ret[0]); !known || !n {
					bad = m + " must return nil"
				}
			case "Value":
				v := p.Ret[0]
				key := paramByType(e, func(t types.Type) bool { _, ok := t.Underlying().(*types.Interface); return ok })
				if !(v.Kind == pw.KCall && pw.FuncName(v.Ev.Callee) == "context.Context.Value" && v.Ev.Recv != nil && v.Ev.Recv.Kind == pw.KField && len(v.Ev.Args) == 1 && v.Ev.Args[0] == key) {
					bad = "Value must delegate to parent.Value(key)"
				}
			}
			for _, ev := range p.Events {
				if ev.Kind == pw.EvCall && m != "Value" && ev.Callee != nil && ev.Callee.Pkg() != nil && ev.Callee.Pkg().Path() == "context" {
					bad = m + " consults the parent context"
				}
			}
		}
		if bad != "" {
			_, fn := c.funcDecl("detachedContext." + m)
			r.Bad("R06.4", cons, "shape", c.Pos(fn.Pos()), bad, nil)
		} else {
			r.OK("R06.4", cons, "constant/delegating as required")
		}
	}
}

// c06SkipReadWaiter: "SkipRead forces a rebuild": a Get that finds the key locked returns what the owner published. That is a build
// result on every owner path but one: with SyncRead an owner whose read inside the section hits publishes the value it READ. A
// waiter that returns the publication without having established that its own context does not ask to skip reads is then served a
// cached value although no rebuild took place.
func (c *Ctx) c06SkipReadWaiter(fo *FO) {
	r := c.R
	cons := fo.Name + ".Get"
	var hitPub *pw.Event
	var waiter *pw.Path
	nOwner, nWaiter := 0, 0
	for _, p := range fo.Paths {
		cl, err := fo.classify(p)
		if err != nil || cl.lookup == nil || cl.kl == nil {
			continue
		}
		if !cl.found {
			nOwner++
			for i, ev := range p.Events {
				if !isRelease(ev) {
					continue
				}
				if w := lastFieldWrite(p.Events[:i], cl.kl, "val"); w != nil && w.Value != nil {
					if pv := fo.valueProv(p, p.Events[:i], cl, w.Value); pv.tag == "ReadVal" && hitPub == nil {
						hitPub = w
					}
				}
			}
			continue
		}
		// waiter: returns the publication with a nil or unknown error
		if len(p.Ret) != 2 || p.Ret[0] == nil {
			continue
		}
		if pv := fo.valueProv(p, p.Events, cl, p.Ret[0]); pv.tag != "Published" {
			continue
		}
		nWaiter++
		guarded := false
		for _, ev := range p.Events {
			if ev.Kind == pw.EvCall && ev.Role == "Repo:SkipRead" && len(ev.Results) == 1 {
				if t, known := p.Truth(ev.Results[0]); known && !t {
					guarded = true
				}
			}
		}
		if !guarded && waiter == nil {
			waiter = p
		}
	}
	if nOwner == 0 || nWaiter == 0 {
		r.Unknown("R06.5", cons, fmt.Sprintf("vacuous: %d owner paths, %d waiter paths returning the publication", nOwner, nWaiter))
		return
	}
	if hitPub != nil && waiter != nil {
		d, t := c.pathDetail(fo, waiter, "a Get that found the key locked returns the owner's publication without having established SkipRead(ctx) = false, and an owner (SyncRead hit at "+c.Pos(hitPub.Pos)+") publishes the value it read from the backend: a SkipRead Get waiting behind a plain reader is served the cached value, no rebuild is forced")
		r.Bad("R06.5", cons, "skipread-waiter-served-cached-hit", c.Pos(waiter.RetPos), d, t)
		return
	}
	r.OK("R06.5", cons+":skipread-waiter", fmt.Sprintf("%d owner paths, %d waiter paths: no read value is published to a waiter that may carry SkipRead", nOwner, nWaiter))
}

// c06SkipRead: every in-module Read tests SkipRead first.
func (c *Ctx) c06SkipRead() {
	c.skipReadRule("R06.5")
}

func (c *Ctx) skipReadRule(rule string) {
	r := c.R
	for _, name := range []string{"shardedMap.Read", "shardedMapOf.Read", "syncMap.Read"} {
		e, paths, _, err := c.runFunc(name, pw.Policy{Inline: func(fn *types.Func, d int) bool {
			return pw.FuncName(fn) == "cache.Trait.PrepareRead" || pw.FuncName(fn) == "cache.TraitOf.PrepareRead"
		}})
		if err != nil {
			r.Unknown(rule, name, err.Error())
			continue
		}
		ctx := paramByType(e, func(t types.Type) bool { return types.TypeString(t, nil) == "context.Context" })
		nSkip := 0
		bad := false
		for _, p := range paths {
			var skip *pw.Event
			for _, ev := range p.Events {
				if ev.Kind == pw.EvCall && ev.Role == "Repo:SkipRead" && len(ev.Args) == 1 && ev.Args[0] == ctx {
					skip = ev
					break
				}
			}
			notFound := len(p.Ret) == 2 && isConstNamed(p.Ret[1], "ErrNotFound")
			if skip == nil {
				if !notFound {
					r.Bad(rule, name, "no-skipread-test", c.Pos(p.RetPos), "Read returns a value or an expiry error on a path that never tests SkipRead(ctx)", shortTrace(p))
					bad = true
					break
				}
				continue
			}
			t, known := p.Truth(skip.Results[0])
			switch {
			case known && t:
				nSkip++
				if !notFound {
					r.Bad(rule, name, "skipread-not-honoured", c.Pos(p.RetPos), "with SkipRead(ctx) the Read must return ErrNotFound", shortTrace(p))
					bad = true
				}
			case !known && !notFound:
				r.Bad(rule, name, "skipread-untested", c.Pos(skip.Pos), "result of SkipRead(ctx) is not branched on before a value is returned", shortTrace(p))
				bad = true
			}
			if bad {
				break
			}
		}
		if !bad && nSkip == 0 {
			r.Unknown(rule, name, "no path with SkipRead true")
		} else if !bad {
			r.OK(rule, name, fmt.Sprintf("%d paths, %d with SkipRead", len(paths), nSkip))
		}
	}
}

func touchesStorage(ev *pw.Event) bool {
	switch ev.Kind {
	case pw.EvMapLookup, pw.EvMapInsert, pw.EvMapDelete, pw.EvMapIter, pw.EvMapLen, pw.EvLock:
		return true
	case pw.EvCall:
		if ev.Callee != nil {
			n := pw.FuncName(ev.Callee)
			if len(n) > 9 && n[:9] == "sync.Map." {
				return true
			}
		}
	}
	return false
}

// c06TraitTTL: selection of the effective TTL.
func (c *Ctx) c06TraitTTL() { c.traitTTLRule("R06.6") }

func (c *Ctx) traitTTLRule(rule string) {
	r := c.R
	e, paths, _, err := c.runFunc("Trait.TTL", pw.Policy{})
	if err != nil {
		r.Unknown(rule, "Trait.TTL", err.Error())
		return
	}
	zero := e.IntConst(0)
	minus1 := e.IntConst(-1)
	n := 0
	for _, p := range paths {
		var ctxTTL, cfgTTL *pw.Val
		for _, ev := range p.Events {
			if ev.Kind == pw.EvCall && ev.Role == "Repo:TTL" {
				ctxTTL = ev.Results[0]
			}
			if ev.Kind == pw.EvFieldRead && ev.Field != nil && fname(ev.Field) == "TimeToLive" {
				cfgTTL = ev.Value
			}
		}
		if ctxTTL == nil {
			r.Bad(rule, "Trait.TTL", "no-context-ttl", c.Pos(p.RetPos), "path never consults TTL(ctx)", shortTrace(p))
			continue
		}
		base := p.Ret[0]
		for base.Kind == pw.KArith && base.Op.String() == "+" {
			base = base.Src
		}
		n++
		relCtx := p.Rel(ctxTTL, zero)
		switch {
		case relCtx&pw.REq == 0: // ctx TTL non-zero
			if base != ctxTTL {
				r.Bad(rule, "Trait.TTL", "ctx-ttl-ignored", c.Pos(p.RetPos), "a non-zero context TTL must be the effective TTL", shortTrace(p))
			}
		case relCtx == pw.REq:
			if cfgTTL == nil {
				r.Bad(rule, "Trait.TTL", "config-ttl-ignored", c.Pos(p.RetPos), "without context TTL the configured TimeToLive must be consulted", shortTrace(p))
				continue
			}
			relCfg := p.Rel(cfgTTL, minus1)
			switch {
			case relCfg == pw.REq:
				if !(base.Kind == pw.KConst && p.Rel(base, zero) == pw.REq) {
					r.Bad(rule, "Trait.TTL", "unlimited-not-zero", c.Pos(p.RetPos), "UnlimitedTTL without context TTL must yield 0 (never expires)", shortTrace(p))
				}
			case relCfg&pw.REq == 0:
				if base != cfgTTL {
					r.Bad(rule, "Trait.TTL", "config-ttl-not-used", c.Pos(p.RetPos), "the configured TimeToLive must be the effective TTL", shortTrace(p))
				}
			default:
				r.Bad(rule, "Trait.TTL", "unlimited-untested", c.Pos(p.RetPos), "path does not distinguish UnlimitedTTL", shortTrace(p))
			}
		default:
			r.Bad(rule, "Trait.TTL", "ctx-ttl-untested", c.Pos(p.RetPos), "path does not test whether the context carries a TTL", shortTrace(p))
		}
	}
	if n == 0 {
		r.Unknown(rule, "Trait.TTL", "no path analysed")
	} else if !hasViolation(r.Obls, rule, "Trait.TTL") {
		r.OK(rule, "Trait.TTL", fmt.Sprintf("%d paths", n))
	}
}

// inlineUnexported is the default inlining policy: unexported functions and methods of the subject package are
// interpreted at their call sites, so extracting a helper (or merging one) does not change what a rule sees.
func inlineUnexported(fn *types.Func, depth int) bool {
	return !fn.Exported() && fn.Pkg() != nil && fn.Pkg().Name() == "cache"
}

func noInline(*types.Func, int) bool { return false }

// c06Accessors: R06.7 — TTL(ctx), SkipRead(ctx), and the context handed to the failure-cache lookup.
func (c *Ctx) c06Accessors() {
	r := c.R
	// TTL(ctx)
	if e, paths, _, err := c.runFunc("TTL", pw.Policy{Inline: inlineUnexported, MaxDepth: 2, Pure: func(*types.Func) bool { return false }}); err != nil {
		r.Unknown("R06.7", "TTL", err.Error())
	} else {
		zero := e.IntConst(0)
		bad := false
		nOK, nNo := 0, 0
		for _, p := range paths {
			var cell, ok *pw.Val
			for _, ev := range p.Events {
				if ev.Kind == pw.EvAssign && ev.Value != nil {
					switch ev.Value.Kind {
					case pw.KAssert:
						cell = ev.Value
					case pw.KMapOk:
						ok = ev.Value
					}
				}
			}
			if cell == nil || ok == nil {
				r.Bad("R06.7", "TTL", "no-cell-lookup", c.Pos(p.RetPos), "TTL(ctx) does not look up the TTL cell with a comma-ok assertion", shortTrace(p))
				bad = true
				continue
			}
			t, known := p.Truth(ok)
			ret := p.Ret[0]
			switch {
			case known && t:
				nOK++
				if !(ret.Kind == pw.KField && ret.Src == cell) {
					r.Bad("R06.7", "TTL", "cell-value", c.Pos(p.RetPos), "with a TTL cell installed TTL(ctx) must return the cell's value", shortTrace(p))
					bad = true
				}
			case known && !t:
				nNo++
				if p.Rel(ret, zero) != pw.REq {
					r.Bad("R06.7", "TTL", "default-value", c.Pos(p.RetPos), "without a TTL cell TTL(ctx) must return 0 (DefaultTTL)", shortTrace(p))
					bad = true
				}
			default:
				r.Bad("R06.7", "TTL", "ok-untested", c.Pos(p.RetPos), "the comma-ok result is not tested", shortTrace(p))
				bad = true
			}
		}
		if nOK == 0 || nNo == 0 {
			r.Unknown("R06.7", "TTL", "vacuous")
		} else if !bad {
			r.OK("R06.7", "TTL", "cell value when installed, 0 otherwise")
		}
	}
	// SkipRead(ctx)
	if e, paths, _, err := c.runFunc("SkipRead", pw.Policy{Inline: inlineUnexported, MaxDepth: 2, Pure: func(*types.Func) bool { return false }}); err != nil {
		r.Unknown("R06.7", "SkipRead", err.Error())
	} else {
		bad := false
		seen := map[string]int{}
		for _, p := range paths {
			var v, ok *pw.Val
			for _, ev := range p.Events {
				if ev.Kind == pw.EvAssign && ev.Value != nil {
					switch ev.Value.Kind {
					case pw.KAssert:
						v = ev.Value
					case pw.KMapOk:
						ok = ev.Value
					}
				}
			}
			if v != nil && ok == nil {
				// `v, _ := x.(bool); return v` — the zero value of a failed comma-ok assertion is false: same function
				commaOK := false
				for _, ov := range e.Vals {
					if ov.Kind == pw.KMapOk && ov.Src == v {
						commaOK = true
					}
				}
				if commaOK && p.Ret[0] == v {
					seen["flag"]++
					continue
				}
			}
			if v == nil || ok == nil {
				r.Bad("R06.7", "SkipRead", "no-flag-lookup", c.Pos(p.RetPos), "SkipRead(ctx) does not look up the flag with a comma-ok assertion", shortTrace(p))
				bad = true
				continue
			}
			ret, retKnown := p.Truth(p.Ret[0])
			okT, okK := p.Truth(ok)
			vT, vK := p.Truth(v)
			if !retKnown {
				// returned value is the flag itself: allowed only when ok is known true
				if !(okK && okT && p.Ret[0] == v) {
					r.Bad("R06.7", "SkipRead", "result", c.Pos(p.RetPos), "SkipRead(ctx) must be true exactly when the flag is present and true", shortTrace(p))
					bad = true
				}
				continue
			}
			want := okK && okT && vK && vT
			if okK && !okT {
				want = false
			} else if okK && okT && !vK {
				continue
			}
			seen[fmt.Sprint(want)]++
			if ret != want {
				r.Bad("R06.7", "SkipRead", "result", c.Pos(p.RetPos), fmt.Sprintf("SkipRead(ctx) returns %v on a path where the flag is present=%v value=%v", ret, okT, vT), shortTrace(p))
				bad = true
			}
		}
		if !bad {
			r.OK("R06.7", "SkipRead", fmt.Sprintf("true exactly when present and true (%v)", seen))
		}
	}
	// failure-cache lookups receive the caller's context
	for _, sib := range siblings {
		fo := c.failover(sib)
		if fo.Err != nil {
			continue
		}
		cons := sib + ".Get"
		n, bad := 0, false
		for _, p := range fo.Paths {
			for _, ev := range p.Events {
				if ev.Kind != pw.EvCall || !hasField(ev.Recv, "Errors") {
					continue
				}
				name := ""
				if ev.Callee != nil {
					name = ev.Callee.Name()
				}
				switch name {
				case "Read":
					n++
					if len(ev.Args) < 1 || !keepsSkipRead(ev.Args[0], fo.Ctx) {
						d, t := c.pathDetail(fo, p, "the failure cache is consulted under a context that is not the caller's: SkipRead no longer forces a rebuild")
						r.Bad("R06.7", cons, "failure-lookup-ctx", c.Pos(ev.Pos), d, t)
						bad = true
					}
				case "Load", "Walk", "Len":
					d, t := c.pathDetail(fo, p, "the failure cache is consulted through "+name+", which ignores the caller's context (SkipRead no longer forces a rebuild)")
					r.Bad("R06.7", cons, "failure-lookup-without-ctx", c.Pos(ev.Pos), d, t)
					bad = true
				}
			}
		}
		if n == 0 && !bad {
			r.Unknown("R06.7", cons, "no failure-cache lookup found")
		} else if !bad {
			r.OK("R06.7", cons, fmt.Sprintf("%d failure-cache lookups under the caller's context", n))
		}
	}
}
