package rules

import (
	"fmt"
	"go/ast"
	"go/constant"
	"go/token"
	"go/types"
	"golang.org/x/tools/go/types/typeutil"
	"sort"
	"strings"

	"cachelint/pw"
)

func init() { register("C14", checkC14) }

func checkC14(c *Ctx) {
	r := c.R
	r.Explanation = "Decided statically: (R14.1) in the Export handler every path that reaches Dump has passed the true edge of 'name is " +
		"registered' (comma-ok lookup of caches keyed by the name query value, and the dumped cache is that lookup's result) and the equal " +
		"edge of 'typesHash query value == strconv.FormatUint(GobTypesHash(), 10)' evaluated with the current hash on that request; every " +
		"refusing path ends in http.Error with a non-200 status; (R14.2) Import restores only on the StatusCode==StatusOK edge, into the " +
		"cache of the same loop iteration whose name was sent, from the body of that iteration's response, and sends the hash rendered the " +
		"same way; (R14.3) the types hash is updated only by ^= (commutative, associative, self-inverse) with a per-type fingerprint from a " +
		"hasher created for that value, dominated by the not-yet-registered test and paired with recording the type; functions that assign " +
		"one of the two registry globals keep the other consistent; (R14.4) nothing reachable from the fingerprint computation reads a " +
		"nondeterministic source (math/rand, time, os, runtime, unsafe, pointer values) or ranges over a map. Not decided: 64-bit " +
		"collisions, truncated bodies (gob run-time behaviour), entry equality (C13)."
	r.Rule("R14.1", "Export gates dominate Dump; refusals are non-200", 1)
	r.Rule("R14.2", "Import: restore only on 200, cache/name/response of the same iteration, same hash rendering; no goroutine captures the loop's variables", 2)
	r.Rule("R14.3", "hash update discipline: ^= of a fresh per-value fingerprint, guarded by and paired with the type set; globals reset together", 2)
	r.Rule("R14.4", "fingerprint is a function of the type only (no nondeterministic source reachable, no map iteration)", 1)
	r.NotDecided = []string{"fingerprint collisions", "truncated response bodies", "equality of transferred entries (C13)"}
	c.c14Export()
	c.c14Import()
	c.c14AddCache()
	c.c14Register()
	c.c14InitRegistration()
	c.c14Determinism()
	// "exactly the exporter's entries": every Dump writes and every Restore reads the same stream — one gob record per entry and
	// nothing else — so that any backend can import from any other (C13 R13.2)
	c.borrowKinds("C13", func() { checkC13(c) }, "R14.2", "Dump/Restore:one-wire-format", []string{"R13.2", "R13.3", "R13.4"}, "dump-re-encodes", "dump-count", "wire-format", "dump-skips-entry",
		"decoded-record-dropped", "restore-count", "decode-error-swallowed", "eof-returned-as-error",
		// "the importer holds exactly those entries": Restore stores each decoded record where Read will look for it, in whatever state
		// the importing cache is (a shard map released by DeleteAll must be re-made before Restore inserts into it) — C13 R13.4
		"insert-into-possibly-nil-map", "restore-index")
	c.rangeVarCapturedByGo("R14.2", func(name string) bool { return strings.HasPrefix(name, "HTTPTransfer.") })
}

func transferPolicy() pw.Policy {
	return pw.Policy{Inline: func(fn *types.Func, d int) bool { return sameRecvNamed(fn, "HTTPTransfer") }, MaxDepth: 3, Pure: func(fn *types.Func) bool {
		switch pw.FuncName(fn) {
		case "errors.Is", "bytes.Equal":
			return true
		}
		return false
	}}
}

// isCurrentHashString: v is strconv.FormatUint(GobTypesHash(), 10) computed on this path.
func isCurrentHashString(v *pw.Val) bool {
	// string(strconv.AppendUint(buf[:0], GobTypesHash(), 10)) renders the same digits
	if v != nil && v.Kind == pw.KConv && v.Src != nil && v.Src.Kind == pw.KCall && v.Src.Ev != nil && v.Src.Ev.Role == "Std:strconv.AppendUint" && len(v.Src.Ev.Args) == 3 {
		a := v.Src.Ev.Args
		if a[1].Kind == pw.KCall && a[1].Ev.Role == "Repo:GobTypesHash" && a[2].Const != nil {
			if n, ok := constant.Int64Val(a[2].Const); ok && n == 10 {
				// the destination must be empty (buf[:0] / nil): anything already in it would be part of the string
				d := a[0]
				return d.Kind == pw.KSlice || d.Kind == pw.KZero || d.Kind == pw.KConst
			}
		}
		return false
	}
	if v == nil || v.Kind != pw.KCall || v.Ev.Role != "Std:strconv.FormatUint" || len(v.Ev.Args) != 2 {
		return false
	}
	h, base := v.Ev.Args[0], v.Ev.Args[1]
	if h.Kind != pw.KCall || h.Ev.Role != "Repo:GobTypesHash" {
		return false
	}
	if base.Const == nil {
		return false
	}
	n, ok := constant.Int64Val(base.Const)
	return ok && n == 10
}

// isParsedHash: the number strconv.ParseUint(<typesHash query value>, 10, 64) yields.
func isParsedHash(v *pw.Val) bool {
	if v == nil || v.Kind != pw.KCall || v.Ev == nil || v.Ev.Role != "Std:strconv.ParseUint" || v.Idx != 0 || len(v.Ev.Args) != 3 {
		return false
	}
	if !queryGet(v.Ev.Args[0], "typesHash") || v.Ev.Args[1].Const == nil {
		return false
	}
	n, ok := constant.Int64Val(v.Ev.Args[1].Const)
	return ok && n == 10
}

func queryGet(v *pw.Val, key string) bool {
	return v != nil && v.Kind == pw.KCall && v.Ev.Role == "Std:url.Values.Get" && len(v.Ev.Args) == 1 && constString(v.Ev.Args[0]) == key
}

func (c *Ctx) c14Export() {
	r := c.R
	fd, fn := c.funcDecl("HTTPTransfer.Export")
	if fd == nil {
		r.Unknown("R14.1", "HTTPTransfer.Export", "does not resolve")
		return
	}
	var lit *ast.FuncLit
	ast.Inspect(fd.Body, func(n ast.Node) bool {
		if l, ok := n.(*ast.FuncLit); ok && lit == nil && len(l.Type.Params.List) >= 1 {
			lit = l
		}
		return true
	})
	if lit == nil {
		r.Unknown("R14.1", "HTTPTransfer.Export", "handler literal not found")
		return
	}
	pol := transferPolicy()
	pol.Role = BaseRole
	e := pw.New(c.Pkg, pol)
	paths, err := e.RunLit(lit, fn)
	if err != nil {
		r.Unknown("R14.1", "HTTPTransfer.Export", err.Error())
		return
	}
	c.R.Func("HTTPTransfer.Export(handler)")
	c.R.Count("paths:HTTPTransfer.Export(handler)", len(paths))
	nDump, nRefuse := 0, 0
	for _, p := range paths {
		if len(p.Unsup) > 0 {
			r.Unknown("R14.1", "HTTPTransfer.Export", "unmodelled construct: "+p.Unsup[0])
			return
		}
		var dump *pw.Event
		var errs []*pw.Event
		for _, ev := range p.Events {
			if ev.Kind == pw.EvCall && ev.Role == "Repo:Dumper.Dump" {
				dump = ev
			}
			if ev.Kind == pw.EvCall && ev.Role == "Std:http.Error" {
				errs = append(errs, ev)
			}
		}
		if dump == nil {
			nRefuse++
			// a refusal has one of the documented reasons: no / unknown name, no (or unparsable) typesHash parameter, or a hash that
			// differs from the current one. A request that names a registered cache and carries the current hash is served — also
			// when that hash is 0 (nothing registered with GobRegister on either side)
			reason := false
			for _, ev := range p.Events {
				if ev.Kind == pw.EvMapLookup && ev.Recv != nil && ev.Recv.Kind == pw.KField && fname(ev.Recv.Field) == "caches" && len(ev.Results) == 2 {
					if t, known := p.Truth(ev.Results[1]); known && !t {
						reason = true
					}
				}
				if ev.Kind == pw.EvCall && ev.Role == "Std:strconv.ParseUint" && len(ev.Results) == 2 && nilTri(p, ev.Results[1]) == triFalse {
					reason = true
				}
			}
			for pair, rel := range p.RelFacts() {
				a, b := e.Vals[pair[0]], e.Vals[pair[1]]
				if a == nil || b == nil {
					continue
				}
				for _, xy := range [][2]*pw.Val{{a, b}, {b, a}} {
					x, y := xy[0], xy[1]
					isQ := queryGet(x, "name") || queryGet(x, "typesHash")
					if isQ && rel == pw.REq && y.Kind == pw.KConst && constString(y) == "" && y.Const != nil {
						reason = true // parameter missing
					}
					if queryGet(x, "typesHash") && isCurrentHashString(y) && rel&pw.REq == 0 {
						reason = true
					}
					if isParsedHash(x) && y.Kind == pw.KCall && y.Ev != nil && y.Ev.Role == "Repo:GobTypesHash" && rel&pw.REq == 0 {
						reason = true
					}
				}
			}
			if !reason {
				r.Bad("R14.1", "HTTPTransfer.Export", "refusal-without-reason", c.Pos(p.RetPos), "a request is refused on a path that establishes neither a missing/unknown name, a missing typesHash parameter nor a hash different from the current one (e.g. the legitimate hash value 0 taken for \"missing\")", shortTrace(p))
			}
			if len(errs) == 0 {
				r.Bad("R14.1", "HTTPTransfer.Export", "silent-refusal", c.Pos(p.RetPos), "a path neither dumps nor answers with an error status", shortTrace(p))
			}
			for _, ev := range errs {
				if len(ev.Args) == 3 && ev.Args[2].Const != nil {
					if n, ok := constant.Int64Val(ev.Args[2].Const); ok && n >= 200 && n < 300 {
						r.Bad("R14.1", "HTTPTransfer.Export", "refusal-with-2xx", c.Pos(ev.Pos), "a refusal is answered with a success status", shortTrace(p))
					}
				}
			}
			continue
		}
		nDump++
		if len(errs) > 0 {
			r.Bad("R14.1", "HTTPTransfer.Export", "error-and-dump", c.Pos(dump.Pos), "a path both reports an error and dumps", shortTrace(p))
		}
		// gate 1: name registered, and the dumped cache is the looked-up one
		okName := false
		for _, ev := range p.Events {
			if ev.Kind == pw.EvMapLookup && ev.Recv != nil && ev.Recv.Kind == pw.KField && fname(ev.Recv.Field) == "caches" && len(ev.Results) == 2 && queryGet(ev.Key, "name") {
				if t, known := p.Truth(ev.Results[1]); known && t && dump.Recv == ev.Results[0] {
					okName = true
				}
			}
		}
		if !okName {
			r.Bad("R14.1", "HTTPTransfer.Export", "dump-without-name-gate", c.Pos(dump.Pos), "Dump is reached without having found the requested name among the registered caches (or another cache is dumped)", shortTrace(p))
		}
		// gate 2: typesHash equality with the current hash
		okHash := false
		for pair, rel := range p.RelFacts() {
			a, b := e.Vals[pair[0]], e.Vals[pair[1]]
			if rel != pw.REq || a == nil || b == nil {
				continue
			}
			if queryGet(a, "typesHash") && isCurrentHashString(b) || queryGet(b, "typesHash") && isCurrentHashString(a) {
				okHash = true
			}
			// the same gate on numbers: ParseUint(typesHash, 10, 64) == GobTypesHash()
			isCur := func(v *pw.Val) bool { return v.Kind == pw.KCall && v.Ev != nil && v.Ev.Role == "Repo:GobTypesHash" }
			if isParsedHash(a) && isCur(b) || isParsedHash(b) && isCur(a) {
				okHash = true
			}
		}
		if !okHash {
			r.Bad("R14.1", "HTTPTransfer.Export", "dump-without-hash-gate", c.Pos(dump.Pos), "Dump is reached without the typesHash query value having been found equal to strconv.FormatUint(GobTypesHash(), 10) of the current registry", shortTrace(p))
		}
	}
	if nDump == 0 || nRefuse == 0 {
		r.Unknown("R14.1", "HTTPTransfer.Export", fmt.Sprintf("vacuous: %d dumping paths, %d refusing paths", nDump, nRefuse))
	} else if !hasViolation(r.Obls, "R14.1", "HTTPTransfer.Export") {
		r.OK("R14.1", "HTTPTransfer.Export", fmt.Sprintf("%d dumping paths gated by name and hash, %d refusing paths with error status", nDump, nRefuse))
	}
}

func (c *Ctx) c14Import() {
	r := c.R
	e, paths, _, err := c.runFunc("HTTPTransfer.Import", transferPolicy())
	if err != nil {
		r.Unknown("R14.2", "HTTPTransfer.Import", err.Error())
		return
	}
	nRestore, nSkip := 0, 0
	for _, p := range paths {
		for _, g := range iterations(p) {
			if !g.overData {
				continue
			}
			var restore, rt *pw.Event
			var setName, setHash *pw.Event
			for _, ev := range g.events {
				if ev.Kind != pw.EvCall {
					continue
				}
				switch ev.Role {
				case "Repo:Restorer.Restore":
					restore = ev
				case "Std:http.RoundTripper.RoundTrip":
					rt = ev
				case "Std:url.Values.Set":
					if len(ev.Args) == 2 {
						switch constString(ev.Args[0]) {
						case "name":
							setName = ev
						case "typesHash":
							setHash = ev
						}
					}
				}
			}
			if rt == nil {
				reqFailed := false
				for _, ev := range g.events {
					if ev.Kind == pw.EvCall && strings.HasPrefix(ev.Role, "Std:http.NewRequest") && len(ev.Results) == 2 && nilTri(p, ev.Results[1]) == triFalse {
						reqFailed = true
					}
				}
				if !g.open && !reqFailed {
					r.Bad("R14.2", "HTTPTransfer.Import", "cache-skipped", c.Pos(g.begin.Pos), "an iteration over the registered caches goes on to the next cache without requesting this one from the exporter: Import must (try to) fill every registered cache", shortTrace(p))
				}
				continue
			}
			// the query is installed into the URL before the request is built from it
			installed := false
			for _, ev := range g.events {
				if ev.Kind == pw.EvFieldWrite && ev.Field != nil && fname(ev.Field) == "RawQuery" && ev.Value != nil && ev.Value.Kind == pw.KCall && ev.Value.Ev.Role == "Std:url.Values.Encode" {
					installed = true
				}
				if ev.Kind == pw.EvCall && strings.HasPrefix(ev.Role, "Std:http.NewRequest") && !installed {
					r.Bad("R14.2", "HTTPTransfer.Import", "query-not-sent", c.Pos(ev.Pos), "the request is built before (or without) installing the name/typesHash query into the URL", shortTrace(p))
				}
			}
			// a context made for the request stays alive until the body was read: cancelling it (net/http then closes the connection)
			// before Restore truncates every dump that does not fit the first buffer
			for i, ev := range g.events {
				if ev.Kind != pw.EvCall || ev.CalleeVal == nil || ev.Callee != nil {
					continue
				}
				cv := ev.CalleeVal
				if cv.Kind == pw.KCall && cv.Idx == 1 && cv.Ev != nil && (cv.Ev.Role == "Std:context.WithTimeout" || cv.Ev.Role == "Std:context.WithCancel" || cv.Ev.Role == "Std:context.WithDeadline") && (ev.Frame == nil || !ev.Frame.Deferred) {
					for _, later := range g.events[i+1:] {
						if later.Kind == pw.EvCall && later.Role == "Repo:Restorer.Restore" {
							r.Bad("R14.2", "HTTPTransfer.Import", "request-context-cancelled-before-body-read", c.Pos(ev.Pos), "the request's context is cancelled before the response body is handed to Restore: large dumps are cut off", shortTrace(p))
						}
					}
				}
			}
			// what is sent
			if setName == nil || setName.Args[1].Kind != pw.KRangeKey {
				r.Bad("R14.2", "HTTPTransfer.Import", "name-param", c.Pos(rt.Pos), "the request does not carry the iterated cache's own name", shortTrace(p))
			}
			if setHash == nil || !isCurrentHashString(setHash.Args[1]) {
				r.Bad("R14.2", "HTTPTransfer.Import", "hash-param", c.Pos(rt.Pos), "the request does not carry strconv.FormatUint(GobTypesHash(), 10)", shortTrace(p))
			}
			resp := rt.Results[0]
			var status *pw.Val
			for _, ev := range g.events {
				if ev.Kind == pw.EvFieldRead && ev.Field != nil && fname(ev.Field) == "StatusCode" && ev.Recv == resp {
					status = ev.Value
				}
			}
			// net/http decodes a compressed response transparently only when the request did not ask for an encoding itself: an
			// explicit Accept-Encoding hands the still-encoded body to Restore whenever anything between the peers compresses
			for _, ev := range g.events {
				if ev.Kind == pw.EvCall && (ev.Role == "Std:http.Header.Set" || ev.Role == "Std:http.Header.Add") && len(ev.Args) == 2 && strings.EqualFold(constString(ev.Args[0]), "Accept-Encoding") {
					decoded := false
					if restore != nil {
						for _, e2 := range g.events {
							if e2.Kind == pw.EvCall && (strings.HasPrefix(e2.Role, "Std:gzip.NewReader") || strings.HasPrefix(e2.Role, "Std:flate.NewReader") || strings.HasPrefix(e2.Role, "Std:zlib.NewReader")) {
								decoded = true
							}
						}
					}
					if !decoded {
						r.Bad("R14.2", "HTTPTransfer.Import", "accept-encoding-set", c.Pos(ev.Pos), "the request sets Accept-Encoding itself, which switches off the transport's transparent decoding, and the body is handed to Restore undecoded: behind any compressing middleware nothing is imported", shortTrace(p))
					}
				}
			}
			if restore == nil {
				nSkip++
				// a skipped restore needs a reason: transport error or a status other than 200
				if nilTri(p, rt.Results[1]) == triTrue && status != nil && p.Rel(status, e.IntConst(200)) == pw.REq {
					r.Bad("R14.2", "HTTPTransfer.Import", "success-response-not-restored", c.Pos(rt.Pos), "an iteration that received status 200 without transport error ends without handing the body to Restore: the cache stays empty although the exporter served its dump", shortTrace(p))
				}
				continue
			}
			nRestore++
			okStatus := false
			if status != nil {
				for pair, rel := range p.RelFacts() {
					a, b := e.Vals[pair[0]], e.Vals[pair[1]]
					if rel != pw.REq || a == nil || b == nil {
						continue
					}
					other := b
					if b == status {
						other = a
					} else if a != status {
						continue
					}
					if other.Const != nil {
						if n, ok := constant.Int64Val(other.Const); ok && n == 200 {
							okStatus = true
						}
					}
				}
			}
			if !okStatus {
				r.Bad("R14.2", "HTTPTransfer.Import", "restore-without-200", c.Pos(restore.Pos), "Restore is reached without the response status having been found equal to 200", shortTrace(p))
			}
			if restore.Recv == nil || restore.Recv.Kind != pw.KRangeVal {
				r.Bad("R14.2", "HTTPTransfer.Import", "restore-other-cache", c.Pos(restore.Pos), "the cache restored is not the one of this iteration", shortTrace(p))
			}
			// body of this iteration's response
			okBody := false
			if len(restore.Args) == 1 {
				rd := pointee(restore.Args[0])
				for x, i := rd, 0; x != nil && i < 4; i++ {
					if x.Kind == pw.KAlloc {
						for _, f := range x.Fields {
							if f != nil && f.Kind == pw.KField && f.Field != nil && fname(f.Field) == "Body" && f.Src == resp {
								okBody = true
							}
						}
					}
					if x.Kind == pw.KField && x.Field != nil && fname(x.Field) == "Body" && x.Src == resp {
						okBody = true
					}
					x = x.Src
				}
			}
			if !okBody {
				r.Bad("R14.2", "HTTPTransfer.Import", "restore-other-body", c.Pos(restore.Pos), "Restore does not read the body of this iteration's response", shortTrace(p))
			}
		}
	}
	for _, p := range paths {
		for _, g := range iterations(p) {
			if g.overData && g.open {
				r.Bad("R14.2", "HTTPTransfer.Import", "import-stops-early", c.Pos(p.RetPos), "Import returns from inside the loop over its caches: the caches after a refused or failed one are never requested and stay empty", shortTrace(p))
			}
		}
		for _, ev := range p.Events {
			if ev.Kind == pw.EvLoopEnd && ev.Note == "break" && ev.Loop != nil {
				if _, isRange := ev.Loop.(*ast.RangeStmt); isRange {
					r.Bad("R14.2", "HTTPTransfer.Import", "import-stops-early", c.Pos(ev.Pos), "Import breaks out of the loop over its caches", shortTrace(p))
				}
			}
		}
	}
	// a path that never gets to the loop over the registered caches imports nothing: it needs a reason — the URL does not parse, or
	// there is no registered cache (a guard like GobTypesHash() == 0 refuses the legitimate "nothing registered on either side")
	zero14 := e.IntConst(0)
	for _, p := range paths {
		reached, reason := false, false
		for _, ev := range p.Events {
			if ev.Kind == pw.EvMapIter {
				reached = true
			}
			if ev.Kind == pw.EvCall && ev.Role == "Std:url.Parse" && len(ev.Results) == 2 && nilTri(p, ev.Results[1]) == triFalse {
				reason = true
			}
		}
		if reached || reason {
			continue
		}
		for pair, rel := range p.RelFacts() {
			a, b := e.Vals[pair[0]], e.Vals[pair[1]]
			if a == nil || b == nil || rel != pw.REq {
				continue
			}
			if a.Kind == pw.KLen && b == zero14 || b.Kind == pw.KLen && a == zero14 {
				reason = true
			}
		}
		if !reason && !c.featurePath(p) {
			r.Bad("R14.2", "HTTPTransfer.Import", "import-refused-without-reason", c.Pos(p.RetPos), "Import returns before the loop over its registered caches on a path where the URL parsed: nothing is requested although hashes may be equal and names known", shortTrace(p))
		}
	}
	if nRestore == 0 || nSkip == 0 {
		r.Unknown("R14.2", "HTTPTransfer.Import", fmt.Sprintf("vacuous: %d restoring iterations, %d skipping iterations", nRestore, nSkip))
	} else if !hasViolation(r.Obls, "R14.2", "HTTPTransfer.Import") {
		r.OK("R14.2", "HTTPTransfer.Import", fmt.Sprintf("%d restoring iterations gated by status 200, %d skipping", nRestore, nSkip))
	}
}

// c14AddCache: "every registered cache": AddCache files the cache it was given under the name it was given, on every path.
func (c *Ctx) c14AddCache() {
	r := c.R
	name := "HTTPTransfer.AddCache"
	e, paths, fn, err := c.runFunc(name, transferPolicy())
	if err != nil || fn == nil {
		r.Unknown("R14.2", name, "does not resolve")
		return
	}
	sig := fn.Type().(*types.Signature)
	if sig.Params().Len() != 2 {
		r.Unknown("R14.2", name, "unexpected signature")
		return
	}
	pName, pCache := e.Params[sig.Params().At(0)], e.Params[sig.Params().At(1)]
	bad := false
	for _, p := range paths {
		if p.Panic {
			continue
		}
		ok := false
		for _, ev := range p.Events {
			if ev.Kind == pw.EvMapInsert && ev.Recv != nil && ev.Recv.Field != nil && fname(ev.Recv.Field) == "caches" && ev.Key == pName && ev.Value == pCache {
				ok = true
			}
		}
		if !ok && !bad {
			bad = true
			r.Bad("R14.2", name, "cache-not-registered", c.Pos(p.RetPos), "AddCache returns without filing the given cache under the given name: Export does not know it and Import never fills it", shortTrace(p))
		}
	}
	if !bad {
		r.OK("R14.2", name, fmt.Sprintf("%d paths file the given cache under the given name", len(paths)))
	}
}

// c14InitRegistration: the types every decoded-JSON value is made of (map[string]interface{}, []interface{}) are registered with
// encoding/gob when the package is loaded — in an init function or a package-level initialiser, not lazily on the first
// GobRegister: a process that caches such values without registering types of its own could otherwise neither dump nor
// restore them although both peers agree on the types hash.
func (c *Ctx) c14InitRegistration() {
	r := c.R
	info := c.Pkg.TypesInfo
	want := map[string]bool{"map[string]interface{}": false, "[]interface{}": false}
	var roots []*ast.FuncDecl
	c.eachFuncDecl(func(fd *ast.FuncDecl, fn *types.Func) {
		if fd.Recv == nil && fd.Name.Name == "init" {
			roots = append(roots, fd)
		}
	})
	scan := func(n ast.Node) {
		ast.Inspect(n, func(x ast.Node) bool {
			call, ok := x.(*ast.CallExpr)
			if !ok || len(call.Args) != 1 {
				return true
			}
			if fn, _ := typeutil.Callee(info, call).(*types.Func); fn == nil || pw.FuncName(fn) != "encoding/gob.Register" && pw.FuncName(fn) != "gob.Register" {
				return true
			}
			t := types.TypeString(info.TypeOf(call.Args[0]), nil)
			t = strings.ReplaceAll(t, "any", "interface{}")
			if _, ok := want[t]; ok {
				want[t] = true
			}
			return true
		})
	}
	// package-level initialisers and what they call
	for _, f := range c.Pkg.Syntax {
		for _, d := range f.Decls {
			gd, ok := d.(*ast.GenDecl)
			if !ok || gd.Tok != token.VAR {
				continue
			}
			for _, sp := range gd.Specs {
				vs := sp.(*ast.ValueSpec)
				for _, v := range vs.Values {
					scan(v)
					ast.Inspect(v, func(x ast.Node) bool {
						if call, ok := x.(*ast.CallExpr); ok {
							if fn, _ := typeutil.Callee(info, call).(*types.Func); fn != nil && fn.Pkg() == c.Pkg.Types {
								if fd := c.declOf(fn); fd != nil {
									roots = append(roots, fd)
								}
							}
						}
						return true
					})
				}
			}
		}
	}
	for _, root := range roots {
		for _, fd := range c.reachBodies(root, 2) {
			scan(fd.Body)
		}
	}
	var missing []string
	for t, ok := range want {
		if !ok {
			missing = append(missing, t)
		}
	}
	sort.Strings(missing)
	if len(missing) > 0 {
		r.Bad("R14.3", "package init", "common-types-not-registered-at-load", "-", "not registered with encoding/gob when the package is loaded: "+strings.Join(missing, ", ")+" — values decoded from JSON can then be dumped/restored only after somebody called GobRegister", nil)
	} else {
		r.OK("R14.3", "package init", "map[string]interface{} and []interface{} are registered with encoding/gob at package load")
	}
}

func isGlobal(v *pw.Val, name string) bool {
	return v != nil && (v.Kind == pw.KGlobal || v.Kind == pw.KField) && v.Path == "g:"+name
}

func (c *Ctx) c14Register() {
	r := c.R
	_, paths, _, err := c.runFunc("GobRegister", pw.Policy{Inline: func(fn *types.Func, d int) bool {
		return inlineUnexported(fn, d) && !strings.HasSuffix(pw.FuncName(fn), ".recursiveTypeHash")
	}})
	if err != nil {
		r.Unknown("R14.3", "GobRegister", err.Error())
		return
	}
	nNew, nKnown := 0, 0
	earlyExit := false
	for _, p := range paths {
		for _, ev := range p.Events {
			if ev.Kind == pw.EvLoopEnd && ev.Note == "break" && !earlyExit {
				earlyExit = true
				r.Bad("R14.3", "GobRegister", "registration-stops-early", c.Pos(ev.Pos), "GobRegister breaks out of the loop over its values", shortTrace(p))
			}
		}
		loopStart := map[*iterGroup]int{}
		idx := map[*pw.Event]int{}
		for i, ev := range p.Events {
			idx[ev] = i
		}
		for _, g := range iterations(p) {
			if !g.inner {
				continue
			}
			// every value given is processed: the loop over the values is not left early (a `return` for an already registered
			// type would silently skip the values after it)
			if g.open && !earlyExit {
				earlyExit = true
				r.Bad("R14.3", "GobRegister", "registration-stops-early", c.Pos(g.begin.Pos), "GobRegister returns from inside the loop over its values: the values after that one are neither fingerprinted nor registered with gob", shortTrace(p))
			}
			loopStart[g] = idx[g.begin]
			var look *pw.Event
			var hashWrites, setInserts []*pw.Event
			var typ *pw.Val
			for _, ev := range g.events {
				if ev.Kind == pw.EvCall && ev.Role == "Std:reflect.TypeOf" {
					typ = ev.Results[0]
				}
				if ev.Kind == pw.EvMapLookup && ev.Path == "g:gobTypes" {
					look = ev
				}
				if ev.Kind == pw.EvFieldWrite && ev.Path == "g:gobTypesHash" {
					hashWrites = append(hashWrites, ev)
				}
				if ev.Kind == pw.EvMapInsert && ev.Path == "g:gobTypes" {
					setInserts = append(setInserts, ev)
				}
			}
			if typ == nil && look == nil && !g.open && !c.featurePath(p) {
				// "changes when a type is added": an iteration that goes on to the next value without having asked whether this one's
				// type is registered drops the value (a guard for nil values that also catches typed nil pointers, …)
				r.Bad("R14.3", "GobRegister", "value-skipped", c.Pos(g.begin.Pos), "an iteration over the given values neither looks its type up in the registered set nor registers it: the value is silently dropped (its type never reaches gob.Register nor the hash)", shortTrace(p))
				continue
			}
			if typ == nil {
				continue
			}
			if look == nil || look.Key != typ {
				r.Bad("R14.3", "GobRegister", "no-dedupe-test", c.Pos(g.begin.Pos), "a value is processed without testing whether its type is already registered", shortTrace(p))
				continue
			}
			memberV := look.Results[0]
			if look.Recv != nil && look.Recv.Type != nil {
				if m, ok := look.Recv.Type.Underlying().(*types.Map); ok {
					if bt, isBool := m.Elem().Underlying().(*types.Basic); (!isBool || bt.Kind() != types.Bool) && len(look.Results) == 2 {
						memberV = look.Results[1] // set idiom map[T]struct{}: membership is the comma-ok result
					}
				}
			}
			known, tested := p.Truth(memberV)
			if !tested {
				r.Bad("R14.3", "GobRegister", "dedupe-untested", c.Pos(look.Pos), "the registered-test result is not branched on", shortTrace(p))
				continue
			}
			if known {
				nKnown++
				if len(hashWrites)+len(setInserts) != 0 {
					r.Bad("R14.3", "GobRegister", "rehash-known-type", c.Pos(g.begin.Pos), "an already registered type changes the hash again (repeated registration would cancel it out)", shortTrace(p))
				}
				continue
			}
			nNew++
			if len(hashWrites) != 1 || len(setInserts) != 1 || setInserts[0].Key != typ {
				r.Bad("R14.3", "GobRegister", "unpaired-update", c.Pos(g.begin.Pos), fmt.Sprintf("a new type performs %d hash updates and %d type-set insertions; exactly one of each, for that type, is required", len(hashWrites), len(setInserts)), shortTrace(p))
				continue
			}
			w := hashWrites[0].Value
			okXor := w.Kind == pw.KArith && w.Op == token.XOR && isGlobal(w.Src, "gobTypesHash")
			var hasher *pw.Val
			if okXor {
				s := w.Src2
				if s.Kind == pw.KCall && s.Ev.Callee != nil && s.Ev.Callee.Name() == "Sum64" {
					hasher = s.Ev.Recv
				} else {
					okXor = false
				}
			}
			if !okXor {
				r.Bad("R14.3", "GobRegister", "not-xor", c.Pos(hashWrites[0].Pos), "the types hash must be updated as hash ^= fingerprint(type) (order- and multiplicity-independent)", shortTrace(p))
				continue
			}
			// the hasher is created for this value
			fresh := hasher != nil && hasher.Kind == pw.KCall && hasher.Ev != nil && idx[hasher.Ev] > loopStart[g]
			if !fresh {
				r.Bad("R14.3", "GobRegister", "shared-hasher", c.Pos(hashWrites[0].Pos), "the fingerprint hasher is not created per value: a type's fingerprint then depends on the values registered before it", shortTrace(p))
			}
			isSetIdiom := false
			if sv := setInserts[0].Value; sv != nil && sv.Type != nil {
				if st, ok := sv.Type.Underlying().(*types.Struct); ok && st.NumFields() == 0 {
					isSetIdiom = true // map[T]struct{}: presence is membership
				}
			}
			if t, known := p.Truth(setInserts[0].Value); !isSetIdiom && (!known || !t) {
				r.Bad("R14.3", "GobRegister", "type-not-recorded", c.Pos(setInserts[0].Pos), "the type is not recorded as registered (true): a repeated registration would change the hash again", shortTrace(p))
			}
			registered := false
			names := map[string]bool{}
			identity := false
			for _, ev := range g.events {
				if ev.Kind == pw.EvCall && ev.Role == "Std:gob.Register" && len(ev.Args) == 1 && ev.Args[0].Kind == pw.KRangeVal {
					registered = true // the very value passed by the caller (its dynamic type, pointer-ness included)
				}
				// h.Write([]byte(t.PkgPath() + t.String())): the fingerprint includes the type's identity
				if ev.Kind == pw.EvCall && ev.Callee != nil && ev.Callee.Name() == "Write" && ev.Recv == hasher && len(ev.Args) == 1 {
					var walk func(v *pw.Val, d int)
					walk = func(v *pw.Val, d int) {
						if v == nil || d > 6 {
							return
						}
						if v.Kind == pw.KCall && v.Ev != nil && v.Ev.Callee != nil && v.Ev.Recv == typ {
							names[v.Ev.Callee.Name()] = true
						}
						walk(v.Src, d+1)
						walk(v.Src2, d+1)
					}
					walk(ev.Args[0], 0) // (one write of the concatenation or several writes: the same byte stream)
					if names["PkgPath"] && names["String"] {
						identity = true
					}
				}
			}
			if !registered {
				r.Bad("R14.3", "GobRegister", "not-registered-with-gob", c.Pos(g.begin.Pos), "a new type is fingerprinted but the value given is not itself registered with encoding/gob (gob must know the dynamic type as passed, pointer-ness included): the transfer of such values fails or changes their type although the hashes match", shortTrace(p))
			}
			if !identity {
				r.Bad("R14.3", "GobRegister", "fingerprint-without-identity", c.Pos(g.begin.Pos), "the fingerprint does not include the type's package path and name: structurally equal types cancel each other out (adding a type may leave the hash unchanged)", shortTrace(p))
			}
			// the fingerprint covers this type
			fed := false
			for _, ev := range g.events {
				if ev.Kind == pw.EvCall && ev.Role == "Repo:recursiveTypeHash" && len(ev.Args) >= 2 && ev.Args[0] == typ && ev.Args[1] == hasher {
					fed = true
				}
			}
			if !fed {
				r.Bad("R14.3", "GobRegister", "fingerprint-input", c.Pos(hashWrites[0].Pos), "the fingerprint is not computed from the value's type by recursiveTypeHash(t, h, …)", shortTrace(p))
			}
		}
	}
	if nNew == 0 || nKnown == 0 {
		r.Unknown("R14.3", "GobRegister", fmt.Sprintf("vacuous: %d new-type iterations, %d known-type iterations", nNew, nKnown))
	} else if !hasViolation(r.Obls, "R14.3", "GobRegister") {
		r.OK("R14.3", "GobRegister", fmt.Sprintf("%d new-type iterations (^= fresh fingerprint + record type), %d known-type iterations (no effect)", nNew, nKnown))
	}
	// pairing of the two globals in every other function
	info := c.Pkg.TypesInfo
	writers := map[string]map[string]token.Pos{}
	c.eachFuncDecl(func(fd *ast.FuncDecl, fn *types.Func) {
		name := strings.TrimPrefix(pw.FuncName(fn), "cache.")
		ast.Inspect(fd.Body, func(n ast.Node) bool {
			as, ok := n.(*ast.AssignStmt)
			if !ok {
				return true
			}
			for _, l := range as.Lhs {
				id, ok := ast.Unparen(l).(*ast.Ident)
				if !ok {
					continue
				}
				obj := info.Uses[id]
				if obj == nil || obj.Parent() != c.Pkg.Types.Scope() {
					continue
				}
				if gn := pw.GlobalName(obj); gn == "gobTypesHash" || gn == "gobTypes" {
					if writers[name] == nil {
						writers[name] = map[string]token.Pos{}
					}
					writers[name][gn] = as.Pos()
				}
			}
			return true
		})
	})
	nW := 0
	for name, ws := range writers {
		if name == "GobRegister" {
			continue
		}
		nW++
		if len(ws) != 2 {
			var pos token.Pos
			for _, p := range ws {
				pos = p
			}
			r.Bad("R14.3", name, "globals-out-of-sync", c.Pos(pos), "the types hash and the set of registered types are one logical state: a function that assigns one must reset the other too", nil)
		} else {
			r.OK("R14.3", name, "assigns the hash and the type set together")
		}
	}
	if nW == 0 {
		r.Unknown("R14.3", "GobTypesHashReset", "no writer of the registry globals other than GobRegister found")
	}
}

// c14Determinism: nothing reachable from GobRegister's fingerprint computation is nondeterministic.
func (c *Ctx) c14Determinism() {
	r := c.R
	info := c.Pkg.TypesInfo
	banned := map[string]bool{"math/rand": true, "time": true, "os": true, "runtime": true, "unsafe": true, "crypto/rand": true, "math/rand/v2": true, "sync/atomic": true}
	seen := map[string]bool{}
	work := []string{"GobRegister"}
	nCalls := 0
	bad := false
	for len(work) > 0 {
		name := work[0]
		work = work[1:]
		if seen[name] {
			continue
		}
		seen[name] = true
		fd, _ := c.funcDecl(name)
		if fd == nil {
			continue
		}
		ast.Inspect(fd.Body, func(n ast.Node) bool {
			switch x := n.(type) {
			case *ast.Ident:
				// the per-type fingerprint (everything below GobRegister itself) depends on the type only: it reads no package
				// state such as the set of types registered so far (the result would depend on the registration order)
				if name != "GobRegister" {
					if v, ok := info.Uses[x].(*types.Var); ok && v.Parent() == c.Pkg.Types.Scope() {
						bad = true
						r.Bad("R14.4", name, "fingerprint-reads-package-state:"+pw.GlobalName(v), c.Pos(x.Pos()), "the fingerprint of a type reads the package variable "+v.Name()+": it then depends on what was registered before, i.e. on the registration order", nil)
					}
				}
			case *ast.RangeStmt:
				if t := info.TypeOf(x.X); t != nil {
					if _, isMap := t.Underlying().(*types.Map); isMap {
						bad = true
						r.Bad("R14.4", name, "map-iteration", c.Pos(x.Pos()), "iteration over a map on the way to the fingerprint: its order is random per process", nil)
					}
				}
			case *ast.CallExpr:
				var obj types.Object
				switch f := ast.Unparen(x.Fun).(type) {
				case *ast.Ident:
					obj = info.Uses[f]
				case *ast.SelectorExpr:
					obj = info.Uses[f.Sel]
				}
				fn, ok := obj.(*types.Func)
				if !ok || fn.Pkg() == nil {
					return true
				}
				nCalls++
				full := pw.FuncName(fn)
				if fn.Pkg().Path() == c.Pkg.Types.Path() {
					work = append(work, strings.TrimPrefix(full, "cache."))
					return true
				}
				if banned[fn.Pkg().Path()] || strings.HasPrefix(full, "reflect.Value.") && (fn.Name() == "Pointer" || fn.Name() == "UnsafePointer" || fn.Name() == "UnsafeAddr") || full == "fmt.Sprintf" || full == "fmt.Sprint" || full == "fmt.Fprintf" {
					bad = true
					r.Bad("R14.4", name, "nondeterministic-source:"+full, c.Pos(x.Pos()), "the fingerprint computation reaches "+full+": the hash would differ between processes", nil)
				}
			}
			return true
		})
	}
	if !seen["recursiveTypeHash"] || nCalls < 10 {
		r.Unknown("R14.4", "GobRegister", "fingerprint computation not found (reachable set too small)")
	} else if !bad {
		r.OK("R14.4", "GobRegister", fmt.Sprintf("%d calls in %d reachable functions: only reflect.Type/hash/strings/gob", nCalls, len(seen)))
	}
}
