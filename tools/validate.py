#!/opt/veriftools/pyvenv/bin/python
import json, sys, glob, jsonschema
jsonschema.validate(json.load(open('/verif/MANIFEST.json')), json.load(open('/root/.vp/MANIFEST.schema.json')))
print('manifest ok')
es = json.load(open('/root/.vp/EVIDENCE.schema.json'))
for f in sorted(glob.glob('/verif/evidence/*.json')):
    jsonschema.validate(json.load(open(f)), es); print('evidence ok', f)
