package pw

import (
	"fmt"
	"go/ast"
	"go/constant"
	"go/token"
	"go/types"
	"strings"

	"golang.org/x/tools/go/packages"
)

// Policy parametrises a run of the engine.
type Policy struct {
	// SpawnDeclared: a declared function started with `go` is walked as a spawned sub-path (like a function literal) when this
	// returns true for it and Inline admits it; otherwise only the go event is recorded.
	SpawnDeclared func(fn *types.Func) bool
	// WalkFuncArgs: for an opaque call of such a callee every function-valued argument (function literal, declared function,
	// method value) is walked on a copy of the state with unknown parameters; its paths are attached to the call event (Sub).
	// Used for constructors that take option callbacks: what the callbacks install is visible although the callee is not inlined.
	WalkFuncArgs func(callee *types.Func) bool
	// Inline decides whether a statically resolved in-package callee is interpreted at the call site.
	Inline func(fn *types.Func, depth int) bool
	// Role classifies an event (mostly calls) into the role table.
	Role func(ev *Event) string
	// Pure marks callees whose results are a function of their arguments (memoised per argument identity).
	Pure func(fn *types.Func) bool
	// Consistent rejects states that contradict domain axioms. May be nil.
	Consistent func(s *FactView) bool
	// MaxDepth bounds inlining.
	MaxDepth int
	// MaxPaths bounds the number of completed paths (exceeding it is an error, never a silent cut).
	MaxPaths int
	// AssumeTrue / AssumeFalse: field names (qualified Type.field) whose nil-check or truth is fixed, to prune
	// configuration the rule does not quantify over (e.g. loggers). Optional.
	AssumeNil    map[string]bool
	AssumeNonNil map[string]bool
	// LoopTwice makes loops run 0, 1 or 2 iterations instead of 0 or 1.
	LoopTwice bool
}

// FactView gives Consistent read access to the facts.
type FactView struct {
	S *State
	E *Engine
}

// Truth of a value.
func (f *FactView) Truth(v *Val) (bool, bool) { return f.S.truthKnown(v) }

// Nil fact of a value.
func (f *FactView) Nil(v *Val) (bool, bool) { return f.S.nilKnown(v) }

// Events lists the events of the state so far.
func (f *FactView) Events() []*Event { return f.S.Events }

// PureCalls lists memoised pure-call values created so far.
func (f *FactView) PureCalls() []*Val { return f.E.pureList }

// Engine walks functions of one package.
type Engine struct {
	Pkg    *packages.Package
	Info   *types.Info
	Fset   *token.FileSet
	Decls  map[*types.Func]*ast.FuncDecl
	Policy Policy
	nextID int
	// spawnDepth > 0 while the body of a function started with `go` is walked: values built meanwhile are marked InGo
	spawnDepth int
	consts     map[string]*Val
	pure       map[string]*Val
	pureList   []*Val
	globals    map[types.Object]*Val
	paths      int
	err        error
	// Vals lists every abstract value created, by id.
	Vals map[int]*Val
	// Params maps the parameters (and receiver) of the entry function of the last Run to their abstract values.
	Params map[types.Object]*Val
}

// New creates an engine for a loaded package.
func New(pkg *packages.Package, pol Policy) *Engine {
	e := &Engine{Pkg: pkg, Info: pkg.TypesInfo, Fset: pkg.Fset, Policy: pol,
		Decls: map[*types.Func]*ast.FuncDecl{}, consts: map[string]*Val{}, pure: map[string]*Val{},
		globals: map[types.Object]*Val{}}
	if e.Policy.MaxDepth == 0 {
		e.Policy.MaxDepth = 3
	}
	if e.Policy.MaxPaths == 0 {
		e.Policy.MaxPaths = 60000
	}
	for _, f := range pkg.Syntax {
		for _, d := range f.Decls {
			if fd, ok := d.(*ast.FuncDecl); ok && fd.Body != nil {
				if fn, ok := e.Info.Defs[fd.Name].(*types.Func); ok {
					e.Decls[fn] = fd
				}
			}
		}
	}
	return e
}

func (e *Engine) newVal(k Kind, t types.Type, pos token.Pos) *Val {
	e.nextID++
	v := &Val{ID: e.nextID, Kind: k, Type: t, Pos: pos, InGo: e.spawnDepth > 0}
	if e.Vals == nil {
		e.Vals = map[int]*Val{}
	}
	e.Vals[v.ID] = v
	return v
}

func (e *Engine) constVal(c constant.Value, t types.Type) *Val {
	key := "c:" + c.ExactString()
	if c.Kind() == constant.String {
		key = "s:" + c.ExactString()
	}
	if v, ok := e.consts[key]; ok {
		return v
	}
	v := e.newVal(KConst, t, token.NoPos)
	v.Const = c
	e.consts[key] = v
	return v
}

func (e *Engine) nilVal() *Val {
	if v, ok := e.consts["nil"]; ok {
		return v
	}
	v := e.newVal(KConst, types.Typ[types.UntypedNil], token.NoPos)
	v.IsNil = true
	e.consts["nil"] = v
	return v
}

// PosStr renders a position as file:line.
func (e *Engine) PosStr(p token.Pos) string {
	if !p.IsValid() {
		return "-"
	}
	pos := e.Fset.Position(p)
	return fmt.Sprintf("%s:%d", shortFile(pos.Filename), pos.Line)
}

// FindFunc resolves "Type.Method" or "Func" in the package to its object.
func (e *Engine) FindFunc(name string) *types.Func {
	for fn := range e.Decls {
		if FuncName(fn) == e.Pkg.Types.Name()+"."+name {
			return fn
		}
	}
	return nil
}

// Run enumerates the paths of a declared function.
func (e *Engine) Run(fn *types.Func) ([]*Path, error) {
	fd := e.Decls[fn.Origin()]
	if fd == nil {
		return nil, fmt.Errorf("no declaration for %s", FuncName(fn))
	}
	e.err = nil
	e.paths = 0
	st := &State{env: map[types.Object]*Val{}, heap: map[string]*Val{}, nilF: map[int]bool{}, truth: map[int]bool{},
		rel: map[[2]int]uint8{}, written: map[string]bool{}}
	fr := &Frame{Fn: fn.Origin()}
	st.frame = fr
	e.bindParamsFresh(st, fd.Recv, fd.Type, fr)
	outs := e.execBody(st, fd.Body)
	var paths []*Path
	for _, o := range outs {
		for _, f := range e.finishFrame(o, fd.Body.Rbrace) {
			paths = append(paths, e.mkPath(f))
		}
	}
	if e.err != nil {
		return paths, e.err
	}
	return paths, nil
}

// RunLit enumerates the paths of a function literal taken in isolation (parameters and free variables fresh).
func (e *Engine) RunLit(lit *ast.FuncLit, encl *types.Func) ([]*Path, error) {
	e.err = nil
	e.paths = 0
	st := &State{env: map[types.Object]*Val{}, heap: map[string]*Val{}, nilF: map[int]bool{}, truth: map[int]bool{},
		rel: map[[2]int]uint8{}, written: map[string]bool{}}
	fr := &Frame{Lit: lit, Parent: &Frame{Fn: encl}}
	st.frame = fr
	e.bindParamsFresh(st, nil, lit.Type, fr)
	outs := e.execBody(st, lit.Body)
	var paths []*Path
	for _, o := range outs {
		for _, f := range e.finishFrame(o, lit.Body.Rbrace) {
			paths = append(paths, e.mkPath(f))
		}
	}
	return paths, e.err
}

func (e *Engine) mkPath(s *State) *Path {
	e.paths++
	if e.paths > e.Policy.MaxPaths && e.err == nil {
		e.err = fmt.Errorf("path limit %d exceeded", e.Policy.MaxPaths)
	}
	return &Path{Events: s.Events, Ret: s.ret, RetPos: s.retPos, Trace: s.Trace, Unsup: s.Unsup, Panic: s.ctrl == cPanic, st: s}
}

func (e *Engine) bindParamsFresh(st *State, recv *ast.FieldList, ft *ast.FuncType, fr *Frame) {
	bind := func(fl *ast.FieldList) {
		if fl == nil {
			return
		}
		for _, f := range fl.List {
			for _, n := range f.Names {
				obj := e.Info.Defs[n]
				if obj == nil {
					continue
				}
				v := e.newVal(KParam, obj.Type(), n.Pos())
				v.Obj = obj
				st.env[obj] = v
				e.Params[obj] = v
			}
		}
	}
	e.Params = map[types.Object]*Val{}
	bind(recv)
	bind(ft.Params)
	e.bindResults(st, ft, fr)
}

func (e *Engine) bindResults(st *State, ft *ast.FuncType, fr *Frame) {
	if ft.Results == nil {
		return
	}
	for _, f := range ft.Results.List {
		for _, n := range f.Names {
			obj, _ := e.Info.Defs[n].(*types.Var)
			if obj == nil {
				continue
			}
			if n.Name != "_" {
				z := e.newVal(KZero, obj.Type(), n.Pos())
				z.Obj = obj
				st.env[obj] = z
			}
			fr.results = append(fr.results, obj)
		}
	}
}

func (e *Engine) unsupported(st *State, pos token.Pos, what string) {
	msg := fmt.Sprintf("%s: %s", e.PosStr(pos), what)
	st.Unsup = append(st.Unsup, msg)
	e.emit(st, &Event{Kind: EvUnsupported, Pos: pos, Note: what})
}

func (e *Engine) emit(st *State, ev *Event) *Event {
	st.seq++
	ev.Seq = st.seq
	ev.Frame = st.frame
	if n := len(st.loops); n > 0 && ev.Loop == nil {
		ev.Loop = st.loops[n-1]
	}
	if e.Policy.Role != nil && ev.Role == "" {
		ev.Role = e.Policy.Role(ev)
	}
	st.Events = append(st.Events, ev)
	return ev
}

func (e *Engine) trace(st *State, pos token.Pos, what string) {
	st.Trace = append(st.Trace, fmt.Sprintf("%s %s", e.PosStr(pos), what))
}

// consistent applies the domain axioms.
func (e *Engine) consistent(st *State) bool {
	// built-in: errors.Is / errors.As on a nil error are false; comma-ok false ⇒ zero value.
	for _, pv := range e.pureList {
		if pv.Ev == nil || pv.Ev.Callee == nil {
			continue
		}
		n := FuncName(pv.Ev.Callee)
		if n == "errors.Is" || n == "errors.As" {
			if t, ok := st.truth[pv.ID]; ok && t && len(pv.Ev.Args) > 0 {
				if isNil, known := st.nilKnown(pv.Ev.Args[0]); known && isNil {
					return false
				}
			}
		}
	}
	for id, t := range st.truth {
		_ = id
		_ = t
	}
	if e.Policy.Consistent != nil && !e.Policy.Consistent(&FactView{S: st, E: e}) {
		return false
	}
	return true
}

// ---------------------------------------------------------------------------------------------
// statements

func (e *Engine) execBody(st *State, b *ast.BlockStmt) []*State {
	return e.execList([]*State{st}, b.List)
}

func (e *Engine) execList(sts []*State, list []ast.Stmt) []*State {
	for _, s := range list {
		var next []*State
		for _, st := range sts {
			if st.ctrl != cNormal {
				next = append(next, st)
				continue
			}
			next = append(next, e.execStmt(st, s)...)
		}
		sts = next
		if len(sts) > e.Policy.MaxPaths {
			if e.err == nil {
				e.err = fmt.Errorf("state limit exceeded at %s", e.PosStr(s.Pos()))
			}
			return nil
		}
	}
	return sts
}

func (e *Engine) execStmt(st *State, s ast.Stmt) []*State {
	switch s := s.(type) {
	case *ast.BlockStmt:
		return e.execList([]*State{st}, s.List)
	case *ast.ExprStmt:
		var out []*State
		for _, o := range e.eval(st, s.X) {
			out = append(out, o.st)
		}
		return out
	case *ast.EmptyStmt:
		return []*State{st}
	case *ast.LabeledStmt:
		return e.execStmt(st, s.Stmt)
	case *ast.DeclStmt:
		return e.execDecl(st, s)
	case *ast.AssignStmt:
		return e.execAssign(st, s)
	case *ast.IncDecStmt:
		op := token.ADD
		if s.Tok == token.DEC {
			op = token.SUB
		}
		var out []*State
		for _, o := range e.eval(st, s.X) {
			one := e.constVal(constant.MakeInt64(1), types.Typ[types.UntypedInt])
			nv := e.newVal(KArith, o.v.Type, s.Pos())
			nv.Src, nv.Src2, nv.Op = o.v, one, op
			out = append(out, e.assignTo(o.st, s.X, nv, s.Pos())...)
		}
		return out
	case *ast.IfStmt:
		return e.execIf(st, s)
	case *ast.ForStmt:
		return e.execFor(st, s)
	case *ast.RangeStmt:
		return e.execRange(st, s)
	case *ast.SwitchStmt:
		return e.execSwitch(st, s)
	case *ast.TypeSwitchStmt:
		return e.execTypeSwitch(st, s)
	case *ast.SelectStmt:
		return e.execSelect(st, s)
	case *ast.ReturnStmt:
		return e.execReturn(st, s)
	case *ast.BranchStmt:
		switch s.Tok {
		case token.BREAK:
			st.ctrl = cBreak
		case token.CONTINUE:
			st.ctrl = cContinue
		default:
			e.unsupported(st, s.Pos(), "branch "+s.Tok.String())
		}
		if s.Label != nil {
			st.label = s.Label.Name
			e.unsupported(st, s.Pos(), "labelled branch")
		}
		return []*State{st}
	case *ast.DeferStmt:
		return e.execDefer(st, s)
	case *ast.GoStmt:
		return e.execGo(st, s)
	case *ast.SendStmt:
		var out []*State
		for _, c := range e.eval(st, s.Chan) {
			for _, v := range e.eval(c.st, s.Value) {
				e.emit(v.st, &Event{Kind: EvSend, Pos: s.Pos(), Path: c.v.Loc(), Recv: c.v, Value: v.v})
				out = append(out, v.st)
			}
		}
		return out
	default:
		e.unsupported(st, s.Pos(), fmt.Sprintf("statement %T", s))
		return []*State{st}
	}
}

func (e *Engine) execDecl(st *State, s *ast.DeclStmt) []*State {
	gd, ok := s.Decl.(*ast.GenDecl)
	if !ok || gd.Tok != token.VAR {
		return []*State{st}
	}
	sts := []*State{st}
	for _, sp := range gd.Specs {
		vs := sp.(*ast.ValueSpec)
		if len(vs.Values) == 0 {
			for _, st := range sts {
				for _, n := range vs.Names {
					obj := e.Info.Defs[n]
					if obj == nil {
						continue
					}
					z := e.newVal(KZero, obj.Type(), n.Pos())
					z.Obj = obj
					st.env[obj] = z
				}
			}
			continue
		}
		lhs := make([]ast.Expr, len(vs.Names))
		for i, n := range vs.Names {
			lhs[i] = n
		}
		var next []*State
		for _, st := range sts {
			next = append(next, e.assignMulti(st, lhs, vs.Values, token.DEFINE, vs.Pos())...)
		}
		sts = next
	}
	return sts
}

func (e *Engine) execAssign(st *State, s *ast.AssignStmt) []*State {
	if s.Tok != token.ASSIGN && s.Tok != token.DEFINE {
		// op-assign
		op := map[token.Token]token.Token{token.ADD_ASSIGN: token.ADD, token.SUB_ASSIGN: token.SUB, token.MUL_ASSIGN: token.MUL,
			token.QUO_ASSIGN: token.QUO, token.XOR_ASSIGN: token.XOR, token.OR_ASSIGN: token.OR, token.AND_ASSIGN: token.AND,
			token.REM_ASSIGN: token.REM, token.SHL_ASSIGN: token.SHL, token.SHR_ASSIGN: token.SHR, token.AND_NOT_ASSIGN: token.AND_NOT}[s.Tok]
		var out []*State
		for _, l := range e.eval(st, s.Lhs[0]) {
			for _, r := range e.eval(l.st, s.Rhs[0]) {
				var nv *Val
				if ca, cb := intConstOf(l.v), intConstOf(r.v); ca != nil && cb != nil && (op == token.OR || op == token.AND || op == token.AND_NOT || op == token.XOR) && l.v.Type != nil {
					nv = e.constVal(constant.BinaryOp(ca, op, cb), l.v.Type) // flag sets: of |= flag
				} else {
					nv = e.newVal(KArith, l.v.Type, s.Pos())
					nv.Src, nv.Src2, nv.Op = l.v, r.v, op
				}
				out = append(out, e.assignTo(r.st, s.Lhs[0], nv, s.Pos())...)
			}
		}
		return out
	}
	return e.assignMulti(st, s.Lhs, s.Rhs, s.Tok, s.Pos())
}

func (e *Engine) assignMulti(st *State, lhs, rhs []ast.Expr, tok token.Token, pos token.Pos) []*State {
	var out []*State
	if len(lhs) > 1 && len(rhs) == 1 {
		for _, o := range e.evalMulti(st, rhs[0], len(lhs)) {
			sts := []*State{o.st}
			for i, l := range lhs {
				var next []*State
				for _, s := range sts {
					var v *Val
					if i < len(o.vs) {
						v = o.vs[i]
					} else {
						v = e.newVal(KUnknown, nil, pos)
					}
					res := e.assignTo(s, l, v, pos)
					if _, isCall := ast.Unparen(rhs[0]).(*ast.CallExpr); isCall {
						markFromCall(res)
					}
					next = append(next, res...)
				}
				sts = next
			}
			out = append(out, sts...)
		}
		return out
	}
	// evaluate all rhs first, then assign.
	type acc struct {
		st *State
		vs []*Val
	}
	accs := []acc{{st, nil}}
	for _, r := range rhs {
		var next []acc
		for _, a := range accs {
			for _, o := range e.eval(a.st, r) {
				next = append(next, acc{o.st, append(append([]*Val(nil), a.vs...), o.v)})
			}
		}
		accs = next
	}
	for _, a := range accs {
		sts := []*State{a.st}
		for i, l := range lhs {
			var next []*State
			for _, s := range sts {
				res := e.assignTo(s, l, a.vs[i], pos)
				if call, isCall := ast.Unparen(rhs[i]).(*ast.CallExpr); isCall {
					if tv, ok := e.Info.Types[call.Fun]; !ok || !tv.IsType() {
						markFromCall(res)
					}
				}
				next = append(next, res...)
			}
			sts = next
		}
		out = append(out, sts...)
	}
	return out
}

// markFromCall notes on the assignment event just emitted that the assigned value is the result of a call.
func markFromCall(sts []*State) {
	for _, s := range sts {
		if n := len(s.Events); n > 0 && s.Events[n-1].Kind == EvAssign && s.Events[n-1].Note == "" {
			s.Events[n-1].Note = "call"
		}
	}
}

// assignTo stores v into the location designated by lhs.
func (e *Engine) assignTo(st *State, lhs ast.Expr, v *Val, pos token.Pos) []*State {
	lhs = ast.Unparen(lhs)
	switch l := lhs.(type) {
	case *ast.Ident:
		if l.Name == "_" {
			return []*State{st}
		}
		obj := e.Info.Defs[l]
		if obj == nil {
			obj = e.Info.Uses[l]
		}
		if obj == nil {
			return []*State{st}
		}
		if _, isVar := obj.(*types.Var); isVar && obj.Parent() == obj.Pkg().Scope() {
			loc := "g:" + GlobalName(obj)
			if v != nil && v.Kind == KAlloc && v.Path == "" && v.Type != nil {
				if _, isMap := v.Type.Underlying().(*types.Map); isMap {
					v.Path = loc // a fresh map installed in a package variable is that variable's map
				}
			}
			st.heap[loc] = v
			st.written[loc] = true
			e.emit(st, &Event{Kind: EvFieldWrite, Pos: pos, Path: loc, Obj: obj, Value: v, Note: "global"})
			return []*State{st}
		}
		st.env[obj] = v
		e.emit(st, &Event{Kind: EvAssign, Pos: pos, Obj: obj, Value: v})
		return []*State{st}
	case *ast.SelectorExpr:
		var out []*State
		for _, o := range e.evalFieldLoc(st, l, true) {
			o.st.heap[o.loc] = v
			o.st.written[o.loc] = true
			e.invalidatePrefix(o.st, o.loc)
			// a fresh map installed in a field keeps the field's location: later accesses through the field are accesses of that field's map
			if v != nil && v.Kind == KAlloc && v.Field == nil && v.Type != nil {
				if _, isMap := v.Type.Underlying().(*types.Map); isMap {
					v.Field, v.Path, v.Recv = o.field, o.loc, o.base
				}
			}
			e.emit(o.st, &Event{Kind: EvFieldWrite, Pos: pos, Path: o.loc, Field: o.field, Value: v, Recv: o.base})
			out = append(out, o.st)
		}
		return out
	case *ast.IndexExpr:
		var out []*State
		for _, b := range e.eval(st, l.X) {
			for _, k := range e.eval(b.st, l.Index) {
				t := e.Info.TypeOf(l.X)
				if t != nil {
					if _, isMap := t.Underlying().(*types.Map); isMap {
						e.emit(k.st, &Event{Kind: EvMapInsert, Pos: pos, Path: e.mapPath(l.X, b.v), Recv: b.v, Key: k.v, Value: v})
						out = append(out, k.st)
						continue
					}
				}
				loc := fmt.Sprintf("%s[$%d]", b.v.Loc(), k.v.ID)
				k.st.heap[loc] = v
				e.emit(k.st, &Event{Kind: EvIndexWrite, Pos: pos, Path: loc, Recv: b.v, Key: k.v, Value: v})
				out = append(out, k.st)
			}
		}
		return out
	case *ast.StarExpr:
		var out []*State
		for _, p := range e.eval(st, l.X) {
			if p.v.Kind == KAddr && p.v.Obj != nil {
				p.st.env[p.v.Obj] = v
			}
			loc := p.v.Loc()
			if p.v.Kind != KAddr {
				loc += ".*"
			}
			p.st.heap[loc] = v
			p.st.written[loc] = true
			if p.v.Kind == KAddr && p.v.Field != nil && p.v.Src != nil {
				// *(&x.f) = v is a write of field f of x (a helper that fills in fields through pointers to them)
				e.emit(p.st, &Event{Kind: EvFieldWrite, Pos: pos, Path: loc, Value: v, Recv: p.v.Src, Field: p.v.Field, Note: "via-pointer"})
			} else {
				e.emit(p.st, &Event{Kind: EvFieldWrite, Pos: pos, Path: loc, Value: v, Recv: p.v, Note: "deref"})
			}
			out = append(out, p.st)
		}
		return out
	}
	e.unsupported(st, pos, fmt.Sprintf("assignment target %T", lhs))
	return []*State{st}
}

func (e *Engine) invalidatePrefix(st *State, loc string) {
	pre := loc + "."
	for k := range st.heap {
		if strings.HasPrefix(k, pre) {
			delete(st.heap, k)
		}
	}
}

func (e *Engine) execIf(st *State, s *ast.IfStmt) []*State {
	sts := []*State{st}
	if s.Init != nil {
		sts = e.execStmt(st, s.Init)
	}
	var out []*State
	for _, st := range sts {
		if st.ctrl != cNormal {
			out = append(out, st)
			continue
		}
		for _, c := range e.evalCond(st, s.Cond) {
			e.trace(c.st, s.Cond.Pos(), fmt.Sprintf("if %s → %v", exprStr(s.Cond), c.b))
			if c.b {
				out = append(out, e.execStmt(c.st, s.Body)...)
			} else if s.Else != nil {
				out = append(out, e.execStmt(c.st, s.Else)...)
			} else {
				out = append(out, c.st)
			}
		}
	}
	return out
}

func exprStr(x ast.Expr) string {
	s := types.ExprString(x)
	if len(s) > 70 {
		s = s[:67] + "..."
	}
	return s
}

// assignedIn collects variables (declared outside) assigned inside a statement.
func (e *Engine) assignedIn(n ast.Node) map[types.Object]bool {
	out := map[types.Object]bool{}
	declared := map[types.Object]bool{}
	ast.Inspect(n, func(x ast.Node) bool {
		switch x := x.(type) {
		case *ast.AssignStmt:
			for _, l := range x.Lhs {
				if id, ok := ast.Unparen(l).(*ast.Ident); ok {
					if d := e.Info.Defs[id]; d != nil {
						declared[d] = true
					} else if u := e.Info.Uses[id]; u != nil {
						out[u] = true
					}
				}
			}
		case *ast.IncDecStmt:
			if id, ok := ast.Unparen(x.X).(*ast.Ident); ok {
				if u := e.Info.Uses[id]; u != nil {
					out[u] = true
				}
			}
		case *ast.ValueSpec:
			for _, id := range x.Names {
				if d := e.Info.Defs[id]; d != nil {
					declared[d] = true
				}
			}
		}
		return true
	})
	for d := range declared {
		delete(out, d)
	}
	return out
}

func (e *Engine) havoc(st *State, objs map[types.Object]bool, pos token.Pos) {
	for o := range objs {
		if old, ok := st.env[o]; ok {
			h := e.newVal(KHavoc, o.Type(), pos)
			h.Src = old
			h.Obj = o
			st.env[o] = h
		}
	}
}

// loopIter runs the body zero times and once (twice with LoopTwice); the caller supplies per-iteration setup.
func (e *Engine) loopIter(st *State, loop ast.Stmt, body *ast.BlockStmt, cond ast.Expr, post ast.Stmt,
	iterSetup func(*State) []*State, iterStep func(*State), lbl string, src *Val) []*State {
	assigned := e.assignedIn(loop)
	maxIter := 1
	if e.Policy.LoopTwice {
		maxIter = 2
	}
	var out []*State
	cur := []*State{st}
	for it := 0; it <= maxIter; it++ {
		var next []*State
		for _, s := range cur {
			// decide whether to enter an iteration
			type cb struct {
				st *State
				b  bool
			}
			var conds []cb
			if cond != nil {
				for _, c := range e.evalCond(s, cond) {
					conds = append(conds, cb{c.st, c.b})
				}
			} else if _, isFor := loop.(*ast.ForStmt); isFor {
				// for { … }: always enters; leaves only through break/return (or the iteration bound).
				conds = []cb{{s, true}}
			} else {
				conds = []cb{{s.clone(), false}, {s, true}}
			}
			for _, c := range conds {
				if !c.b || it == maxIter {
					if it == maxIter && c.b {
						// bounded: give up iterating; havoc and leave.
						e.havoc(c.st, assigned, loop.Pos())
					}
					if iterStep != nil {
						iterStep(c.st)
					}
					if it == 0 && !c.b {
						e.emit(c.st, &Event{Kind: EvLoopZero, Pos: loop.Pos(), Note: lbl, Loop: loop, Recv: src})
					}
					out = append(out, c.st)
					continue
				}
				if iterStep != nil {
					iterStep(c.st)
				}
				e.trace(c.st, loop.Pos(), fmt.Sprintf("%s iteration %d", lbl, it+1))
				c.st.loops = append(c.st.loops, loop)
				e.emit(c.st, &Event{Kind: EvLoopBegin, Pos: loop.Pos(), Note: lbl, Recv: src})
				bodies := []*State{c.st}
				if iterSetup != nil {
					bodies = iterSetup(c.st)
				}
				var after []*State
				for _, b := range bodies {
					after = append(after, e.execStmt(b, body)...)
				}
				for _, a := range after {
					switch a.ctrl {
					case cBreak:
						a.ctrl = cNormal
						e.emit(a, &Event{Kind: EvLoopEnd, Pos: loop.End(), Note: "break"})
						a.loops = a.loops[:len(a.loops)-1]
						out = append(out, a)
						continue
					case cContinue:
						a.ctrl = cNormal
					case cReturn, cPanic:
						a.loops = a.loops[:len(a.loops)-1]
						out = append(out, a)
						continue
					}
					if post != nil {
						for _, p := range e.execStmt(a, post) {
							e.emit(p, &Event{Kind: EvLoopEnd, Pos: loop.End()})
							p.loops = p.loops[:len(p.loops)-1]
							next = append(next, p)
						}
						continue
					}
					e.emit(a, &Event{Kind: EvLoopEnd, Pos: loop.End()})
					a.loops = a.loops[:len(a.loops)-1]
					next = append(next, a)
				}
			}
		}
		cur = next
		if len(cur) == 0 {
			break
		}
	}
	return out
}

func (e *Engine) execFor(st *State, s *ast.ForStmt) []*State {
	sts := []*State{st}
	if s.Init != nil {
		sts = e.execStmt(st, s.Init)
	}
	var out []*State
	for _, st := range sts {
		out = append(out, e.loopIter(st, s, s.Body, s.Cond, s.Post, nil, nil, "for", nil)...)
	}
	return out
}

func (e *Engine) execRange(st *State, s *ast.RangeStmt) []*State {
	var out []*State
	for _, x := range e.eval(st, s.X) {
		t := e.Info.TypeOf(s.X)
		isMap := false
		if t != nil {
			_, isMap = t.Underlying().(*types.Map)
		}
		mp := ""
		if isMap {
			mp = e.mapPath(s.X, x.v)
		}
		xv := x.v
		step := func(st *State) {
			if isMap {
				e.emit(st, &Event{Kind: EvMapIter, Pos: s.Pos(), Path: mp, Recv: xv})
			}
		}
		setup := func(st *State) []*State {
			sts := []*State{st}
			if s.Key != nil {
				k := e.newVal(KRangeKey, e.Info.TypeOf(s.Key), s.Key.Pos())
				k.Src = xv
				if s.Tok == token.DEFINE {
					if id, ok := s.Key.(*ast.Ident); ok && id.Name != "_" {
						if obj := e.Info.Defs[id]; obj != nil {
							st.env[obj] = k
						}
					}
				} else {
					sts = e.assignTo(st, s.Key, k, s.Pos())
				}
			}
			if s.Value != nil {
				var next []*State
				for _, st := range sts {
					v := e.newVal(KRangeVal, e.Info.TypeOf(s.Value), s.Value.Pos())
					v.Src = xv
					if s.Tok == token.DEFINE {
						if id, ok := s.Value.(*ast.Ident); ok && id.Name != "_" {
							if obj := e.Info.Defs[id]; obj != nil {
								st.env[obj] = v
							}
						}
						next = append(next, st)
					} else {
						next = append(next, e.assignTo(st, s.Value, v, s.Pos())...)
					}
				}
				sts = next
			}
			return sts
		}
		out = append(out, e.loopIter(x.st, s, s.Body, nil, nil, setup, step, "range", xv)...)
	}
	return out
}

// execTypeSwitch: `switch x := v.(type)`. A `case nil` clause is the comparison v == nil; a clause with a type T is a comma-ok
// assertion v.(T) (operand non-nil when it holds); in a single-type clause the bound variable is the asserted value, otherwise
// the operand itself.
func (e *Engine) execTypeSwitch(st *State, s *ast.TypeSwitchStmt) []*State {
	sts := []*State{st}
	if s.Init != nil {
		sts = e.execStmt(st, s.Init)
	}
	var operand ast.Expr
	var bind *ast.Ident
	switch a := s.Assign.(type) {
	case *ast.AssignStmt:
		if len(a.Lhs) == 1 && len(a.Rhs) == 1 {
			bind, _ = a.Lhs[0].(*ast.Ident)
			if ta, ok := ast.Unparen(a.Rhs[0]).(*ast.TypeAssertExpr); ok {
				operand = ta.X
			}
		}
	case *ast.ExprStmt:
		if ta, ok := ast.Unparen(a.X).(*ast.TypeAssertExpr); ok {
			operand = ta.X
		}
	}
	if operand == nil {
		e.unsupported(st, s.Pos(), "type switch form")
		return sts
	}
	var out []*State
	for _, st0 := range sts {
		for _, ov := range e.eval(st0, operand) {
			src := ov.v
			pending := []*State{ov.st}
			var deflt *ast.CaseClause
			bindIn := func(cc *ast.CaseClause, s *State, v *Val) {
				if bind == nil {
					return
				}
				if obj := e.Info.Implicits[cc]; obj != nil {
					s.env[obj] = v
				}
			}
			for _, cl := range s.Body.List {
				cc := cl.(*ast.CaseClause)
				if cc.List == nil {
					deflt = cc
					continue
				}
				var still []*State
				for _, p := range pending {
					rest := []*State{p}
					for _, cx := range cc.List {
						var nrest []*State
						for _, r := range rest {
							var conds []condOut
							var asserted *Val
							if id, ok := ast.Unparen(cx).(*ast.Ident); ok && id.Name == "nil" && e.Info.Types[cx].IsNil() {
								for _, nv := range e.eval(r, cx) {
									conds = append(conds, e.decideCmp(nv.st, token.EQL, src, nv.v, cx.Pos())...)
								}
							} else {
								asserted = e.newVal(KAssert, e.Info.TypeOf(cx), cx.Pos())
								asserted.Src = src
								okv := e.newVal(KMapOk, types.Typ[types.Bool], cx.Pos())
								okv.Src = asserted
								conds = e.decideTruth(r, okv)
							}
							for _, c := range conds {
								if c.b {
									if asserted != nil {
										// the assertion held: the operand is not nil, neither is the asserted value
										c.st.nilF[src.ID] = false
										c.st.nilF[asserted.ID] = false
										if !e.consistent(c.st) {
											continue
										}
									}
									v := src
									if asserted != nil && len(cc.List) == 1 {
										v = asserted
									}
									bindIn(cc, c.st, v)
									e.trace(c.st, cx.Pos(), fmt.Sprintf("case %s", exprStr(cx)))
									out = append(out, e.finishSwitchBody(e.execList([]*State{c.st}, cc.Body))...)
								} else {
									nrest = append(nrest, c.st)
								}
							}
						}
						rest = nrest
					}
					still = append(still, rest...)
				}
				pending = still
			}
			for _, p := range pending {
				if deflt != nil {
					bindIn(deflt, p, src)
					e.trace(p, deflt.Pos(), "default")
					out = append(out, e.finishSwitchBody(e.execList([]*State{p}, deflt.Body))...)
				} else {
					out = append(out, p)
				}
			}
		}
	}
	return out
}

func (e *Engine) execSwitch(st *State, s *ast.SwitchStmt) []*State {
	sts := []*State{st}
	if s.Init != nil {
		sts = e.execStmt(st, s.Init)
	}
	var out []*State
	for _, st := range sts {
		type tv struct {
			st *State
			v  *Val
		}
		var tags []tv
		if s.Tag != nil {
			for _, o := range e.eval(st, s.Tag) {
				tags = append(tags, tv{o.st, o.v})
			}
		} else {
			tags = []tv{{st, nil}}
		}
		for _, tg := range tags {
			// pending: states for which no earlier clause matched
			pending := []*State{tg.st}
			var deflt *ast.CaseClause
			for _, cl := range s.Body.List {
				cc := cl.(*ast.CaseClause)
				if cc.List == nil {
					deflt = cc
					continue
				}
				var still []*State
				for _, p := range pending {
					rest := []*State{p}
					for _, cx := range cc.List {
						var nrest []*State
						for _, r := range rest {
							var conds []condOut
							if tg.v != nil {
								for _, cv := range e.eval(r, cx) {
									conds = append(conds, e.decideCmp(cv.st, token.EQL, tg.v, cv.v, cx.Pos())...)
								}
							} else {
								conds = e.evalCond(r, cx)
							}
							for _, c := range conds {
								if c.b {
									e.trace(c.st, cx.Pos(), fmt.Sprintf("case %s", exprStr(cx)))
									out = append(out, e.finishSwitchBody(e.execList([]*State{c.st}, cc.Body))...)
								} else {
									nrest = append(nrest, c.st)
								}
							}
						}
						rest = nrest
					}
					still = append(still, rest...)
				}
				pending = still
			}
			for _, p := range pending {
				if deflt != nil {
					e.trace(p, deflt.Pos(), "default")
					out = append(out, e.finishSwitchBody(e.execList([]*State{p}, deflt.Body))...)
				} else {
					out = append(out, p)
				}
			}
		}
	}
	return out
}

func (e *Engine) finishSwitchBody(sts []*State) []*State {
	for _, s := range sts {
		if s.ctrl == cBreak && s.label == "" {
			s.ctrl = cNormal
		}
	}
	return sts
}

func (e *Engine) execSelect(st *State, s *ast.SelectStmt) []*State {
	var out []*State
	for i, cl := range s.Body.List {
		cc := cl.(*ast.CommClause)
		b := st
		if i < len(s.Body.List)-1 {
			b = st.clone()
		}
		sts := []*State{b}
		if cc.Comm != nil {
			sts = e.execStmt(b, cc.Comm)
		}
		out = append(out, e.finishSwitchBody(e.execList(sts, cc.Body))...)
	}
	if len(s.Body.List) == 0 {
		e.unsupported(st, s.Pos(), "empty select")
		out = append(out, st)
	}
	return out
}

func (e *Engine) execReturn(st *State, s *ast.ReturnStmt) []*State {
	var out []*State
	finish := func(st *State, vs []*Val) {
		st.ret = vs
		st.retPos = s.Pos()
		st.ctrl = cReturn
		e.emit(st, &Event{Kind: EvReturn, Pos: s.Pos(), Results: vs})
		out = append(out, st)
	}
	if len(s.Results) == 0 {
		var vs []*Val
		for _, r := range st.frame.results {
			if v, ok := st.env[r]; ok {
				vs = append(vs, v)
			} else {
				vs = append(vs, e.newVal(KZero, r.Type(), s.Pos()))
			}
		}
		finish(st, vs)
		return out
	}
	if len(s.Results) == 1 {
		if tup, ok := e.Info.TypeOf(s.Results[0]).(*types.Tuple); ok && tup.Len() > 1 {
			for _, o := range e.evalMulti(st, s.Results[0], tup.Len()) {
				finish(o.st, o.vs)
			}
			return out
		}
	}
	type acc struct {
		st *State
		vs []*Val
	}
	accs := []acc{{st, nil}}
	for _, r := range s.Results {
		var next []acc
		for _, a := range accs {
			for _, o := range e.eval(a.st, r) {
				next = append(next, acc{o.st, append(append([]*Val(nil), a.vs...), o.v)})
			}
		}
		accs = next
	}
	for _, a := range accs {
		finish(a.st, a.vs)
	}
	return out
}

func (e *Engine) execDefer(st *State, s *ast.DeferStmt) []*State {
	var out []*State
	// evaluate function value and arguments now, run later.
	for _, c := range e.prepareCall(st, s.Call) {
		d := &deferred{call: s.Call, fn: c.fn, args: c.args, recv: c.recv, cal: c.callee, pos: s.Pos()}
		e.emit(c.st, &Event{Kind: EvDefer, Pos: s.Pos(), CalleeVal: c.fn, Callee: c.callee, Recv: c.recv, def: d})
		out = append(out, c.st)
	}
	return out
}

// finishFrame runs the deferred calls of the current frame (LIFO). Frames share their defers slice along a path
// because a frame object is created per activation per path-prefix; forks clone State but share Frame pointers,
// so the list of deferred calls is re-derived from the events of this state.
func (e *Engine) finishFrame(st *State, pos token.Pos) []*State {
	fr := st.frame
	// collect defers registered on this path in this frame (by events, robust under forking)
	var ds []*deferred
	for _, ev := range st.Events {
		if ev.Kind == EvDefer && ev.Frame == fr && ev.def != nil {
			ds = append(ds, ev.def)
		}
	}
	if len(ds) == 0 {
		return []*State{st}
	}
	saveCtrl, saveRet, savePos := st.ctrl, st.ret, st.retPos
	sts := []*State{st}
	for i := len(ds) - 1; i >= 0; i-- {
		d := ds[i]
		var next []*State
		for _, s := range sts {
			s.ctrl = cNormal
			for _, o := range e.invoke(s, &callInfo{st: s, fn: d.fn, args: d.args, recv: d.recv, callee: d.cal, call: d.call}, true, false) {
				o.st.frame = fr
				next = append(next, o.st)
			}
		}
		sts = next
	}
	for _, s := range sts {
		if s.ctrl != cPanic {
			s.ctrl = saveCtrl
		}
		s.ret, s.retPos = saveRet, savePos
	}
	return sts
}

func (e *Engine) execGo(st *State, s *ast.GoStmt) []*State {
	var out []*State
	for _, c := range e.prepareCall(st, s.Call) {
		ev := e.emit(c.st, &Event{Kind: EvGo, Pos: s.Pos(), CalleeVal: c.fn, Callee: c.callee, Recv: c.recv, Args: c.args})
		if lit, ok := ast.Unparen(s.Call.Fun).(*ast.FuncLit); ok {
			ev.FnLit = lit
		}
		// a declared function started with `go` is a subject of its own (entry function); only literals are walked here.
		if ev.FnLit == nil && !(c.callee != nil && e.Policy.SpawnDeclared != nil && e.Policy.SpawnDeclared(c.callee)) {
			out = append(out, c.st)
			continue
		}
		// run the spawned function on a copy; only its events are kept.
		cp := c.st.clone()
		base := len(cp.Events)
		spawn := &Frame{Parent: c.st.frame, Depth: c.st.frame.Depth, Spawned: true}
		cp.frame = spawn
		cc := *c
		cc.st = cp
		e.spawnDepth++
		outs := e.invoke(cp, &cc, false, true)
		e.spawnDepth--
		for _, o := range outs {
			p := &Path{Events: o.st.Events[base:], Trace: o.st.Trace, Unsup: o.st.Unsup, st: o.st, Panic: o.st.ctrl == cPanic}
			ev.Sub = append(ev.Sub, p)
		}
		out = append(out, c.st)
	}
	return out
}

// StrConst returns the interned abstract value of a string constant.
func (e *Engine) StrConst(s string) *Val {
	return e.constVal(constant.MakeString(s), types.Typ[types.UntypedString])
}

// IntConst returns the interned abstract value of an integer constant.
func (e *Engine) IntConst(n int64) *Val {
	return e.constVal(constant.MakeInt64(n), types.Typ[types.UntypedInt])
}
