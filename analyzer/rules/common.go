// Package rules holds the per-property rule instances of cachelint, built on the pw engine and typed-AST queries.
package rules

import (
	"fmt"
	"go/ast"
	"go/constant"
	"go/token"
	"go/types"
	"golang.org/x/tools/go/types/typeutil"
	"sort"
	"strings"

	"cachelint/core"
	"cachelint/pw"

	"golang.org/x/tools/go/packages"
)

// Ctx is the context of one property run.
type Ctx struct {
	Prog         *core.Program
	Pkg          *packages.Package
	R            *core.Report
	Tier         string
	fo           map[string]*FO
	bkCache      map[string]*bkRun
	unclassified map[string]bool
	frontendFn   func(token.Pos) bool
	fedCache     map[*types.Var]bool
	ctorOnly     func(fn *types.Func) bool
	cbReach      map[*types.Func]string
	curEngine    *pw.Engine
}

// Property is a registered check.
type Property struct {
	ID  string
	Run func(c *Ctx)
}

// All lists the registered properties.
var All = map[string]*Property{}

func register(id string, run func(c *Ctx)) { All[id] = &Property{ID: id, Run: run} }

// Pos renders file:line.
func (c *Ctx) Pos(p token.Pos) string {
	if !p.IsValid() {
		return "-"
	}
	pos := c.Pkg.Fset.Position(p)
	f := pos.Filename
	if i := strings.LastIndex(f, "/"); i >= 0 {
		f = f[i+1:]
	}
	return fmt.Sprintf("%s:%d", f, pos.Line)
}

// recvFieldChain returns the names of the fields through which a receiver value was read, innermost last.
func recvFieldChain(v *pw.Val) []string {
	var out []string
	for x := v; x != nil; x = x.Src {
		if (x.Kind == pw.KField || x.Kind == pw.KAddr) && x.Field != nil {
			out = append([]string{fname(x.Field)}, out...)
		} else if x.Kind != pw.KField && x.Kind != pw.KAddr {
			break
		}
	}
	return out
}

func hasField(v *pw.Val, name string) bool {
	for _, f := range recvFieldChain(v) {
		if f == name {
			return true
		}
	}
	return false
}

func constString(v *pw.Val) string {
	if v != nil && v.Kind == pw.KConst && v.Const != nil && v.Const.Kind() == constant.String {
		return constant.StringVal(v.Const)
	}
	return ""
}

func namedTypeName(t types.Type) string {
	for {
		switch x := t.(type) {
		case *types.Pointer:
			t = x.Elem()
			continue
		case *types.Named:
			return canonTypeName(x.Obj())
		case *types.Alias:
			return canonTypeName(x.Obj())
		}
		return ""
	}
}

// BaseRole classifies events shared by all rule families.
func BaseRole(ev *pw.Event) string {
	if ev.Kind != pw.EvCall {
		return ""
	}
	if ev.CalleeVal != nil && ev.Callee == nil {
		cv := ev.CalleeVal
		if cv.Kind == pw.KField && cv.Field != nil && namedTypeName(cv.Field.Type()) == "logFunc" {
			return "Log"
		}
		// a value of the logger type is a logger wherever it is held: field, parameter of a helper, local
		if cv.Type != nil && namedTypeName(cv.Type) == "logFunc" {
			return "Log"
		}
		if cv.Kind == pw.KParam && cv.Obj != nil {
			if namedTypeName(cv.Obj.Type()) == "logFunc" {
				return "Log"
			}
			return "DynParam:" + cv.Obj.Name()
		}
		if cv.Kind == pw.KField && cv.Field != nil {
			return "DynField:" + fname(cv.Field)
		}
		return "Dynamic"
	}
	if ev.Callee == nil {
		return ""
	}
	name := pw.FuncName(ev.Callee)
	switch name {
	case "cache.Reader.Read", "cache.ReaderOf.Read":
		if hasField(ev.Recv, "backend") {
			return "BackendRead"
		}
		return "IfaceRead"
	case "cache.Writer.Write", "cache.WriterOf.Write":
		if hasField(ev.Recv, "backend") {
			return "BackendWrite"
		}
		return "IfaceWrite"
	case "cache.shardedMap.Read", "cache.shardedMapOf.Read":
		if hasField(ev.Recv, "Errors") {
			return "ErrorsRead"
		}
	case "cache.shardedMap.Write", "cache.shardedMapOf.Write":
		if hasField(ev.Recv, "Errors") {
			return "ErrorsWrite"
		}
	case "cache.StatsTracker.Add":
		if len(ev.Args) > 1 {
			return "Metric:" + constString(ev.Args[1])
		}
		return "Metric:"
	case "cache.StatsTracker.Set":
		if len(ev.Args) > 1 {
			return "Gauge:" + constString(ev.Args[1])
		}
	case "cache.ErrWithExpiredItem.Value", "cache.ErrWithExpiredItemOf.Value":
		return "StaleValue"
	case "cache.ErrWithExpiredItem.ExpiredAt", "cache.ErrWithExpiredItemOf.ExpiredAt":
		return "StaleExpiredAt"
	case "cache.Deleter.Delete":
		return "DeleterDelete"
	}
	if ev.Callee.Pkg() != nil && ev.Callee.Pkg().Path() == core.CachePath {
		return "Repo:" + strings.TrimPrefix(name, "cache.")
	}
	return "Std:" + name
}

// basePure is the set of callees memoised as pure functions of their arguments.
func basePure(fn *types.Func) bool {
	switch pw.FuncName(fn) {
	case "errors.Is", "bytes.Equal", "cache.SkipRead", "cache.TTL", "context.Context.Value", "strconv.FormatUint",
		"cache.GobTypesHash", "xxhash.Sum64", "reflect.TypeOf":
		return true
	}
	return false
}

// Lockset replay -------------------------------------------------------------------------------

// Held is a multiset of held locks: path → count; read locks are keyed "R:"+path.
type Held map[string]int

func (h Held) clone() Held {
	n := Held{}
	for k, v := range h {
		if v > 0 {
			n[k] = v
		}
	}
	return n
}

// any reports whether some lock is held.
func (h Held) any() bool {
	for _, v := range h {
		if v > 0 {
			return true
		}
	}
	return false
}

// Has reports whether path is held exclusively (or at least shared when shared is true).
func (h Held) Has(path string, sharedOK bool) bool {
	if h[path] > 0 {
		return true
	}
	return sharedOK && h["R:"+path] > 0
}

func (h Held) String() string {
	var ks []string
	for k, v := range h {
		if v > 0 {
			ks = append(ks, k)
		}
	}
	sort.Strings(ks)
	return "{" + strings.Join(ks, ",") + "}"
}

// Locksets returns, for each event of a sequence, the locks held just before it. Deferred unlocks appear as
// ordinary events at the place where the engine replayed them (after the return event).
func Locksets(events []*pw.Event, entry Held) []Held {
	out := make([]Held, len(events))
	cur := entry.clone()
	for i, ev := range events {
		out[i] = cur
		if ev.Kind == pw.EvLock {
			cur = cur.clone()
			switch ev.Op {
			case "Lock":
				cur[ev.Path]++
			case "Unlock":
				cur[ev.Path]--
			case "RLock":
				cur["R:"+ev.Path]++
			case "RUnlock":
				cur["R:"+ev.Path]--
			}
		}
	}
	return out
}

// funcDeclOf finds the declaration of Type.Method / Func.
// onlyCalledFrom returns a predicate: fn is one of the allowed functions, or an unexported function all of whose in-package users
// (callers and functions that take it as a value; transitively, up to 3 levels) are.
func (c *Ctx) onlyCalledFrom(allowed func(name string) bool) func(fn *types.Func) bool {
	info := c.Pkg.TypesInfo
	callers := map[*types.Func]map[*types.Func]bool{}
	byName := map[*types.Func]string{}
	c.eachFuncDecl(func(fd *ast.FuncDecl, fn *types.Func) {
		byName[fn.Origin()] = strings.TrimPrefix(pw.FuncName(fn), "cache.")
		// every use counts: a call, a method value, a function handed over as a callback
		ast.Inspect(fd.Body, func(x ast.Node) bool {
			if id, isId := x.(*ast.Ident); isId {
				if callee, _ := info.Uses[id].(*types.Func); callee != nil && callee.Pkg() == c.Pkg.Types {
					if callers[callee.Origin()] == nil {
						callers[callee.Origin()] = map[*types.Func]bool{}
					}
					callers[callee.Origin()][fn.Origin()] = true
				}
			}
			return true
		})
	})
	var ok func(fn *types.Func, depth int) bool
	ok = func(fn *types.Func, depth int) bool {
		fn = fn.Origin()
		if allowed(byName[fn]) {
			return true
		}
		if fn.Exported() || depth > 3 || len(callers[fn]) == 0 {
			return false
		}
		for caller := range callers[fn] {
			if !ok(caller, depth+1) {
				return false
			}
		}
		return true
	}
	return func(fn *types.Func) bool { return ok(fn, 0) }
}

// referencedFuncs: declared functions of the package used as values (method values, function identifiers not in call position) in
// the given bodies — e.g. a method handed over as an option callback.
func (c *Ctx) referencedFuncs(bodies []*ast.FuncDecl) []*ast.FuncDecl {
	info := c.Pkg.TypesInfo
	have := map[*ast.FuncDecl]bool{}
	for _, b := range bodies {
		have[b] = true
	}
	var out []*ast.FuncDecl
	for _, b := range bodies {
		called := map[ast.Expr]bool{}
		ast.Inspect(b.Body, func(x ast.Node) bool {
			if call, ok := x.(*ast.CallExpr); ok {
				called[ast.Unparen(call.Fun)] = true
			}
			return true
		})
		ast.Inspect(b.Body, func(x ast.Node) bool {
			ex, ok := x.(ast.Expr)
			if !ok || called[ex] {
				return true
			}
			var obj types.Object
			switch v := ex.(type) {
			case *ast.SelectorExpr:
				if s := info.Selections[v]; s != nil && s.Kind() == types.MethodVal {
					obj = s.Obj()
				}
			case *ast.Ident:
				obj = info.Uses[v]
			}
			fn, ok := obj.(*types.Func)
			if !ok || fn.Pkg() != c.Pkg.Types {
				return true
			}
			if fd := c.declOf(fn); fd != nil && fd.Body != nil && !have[fd] {
				have[fd] = true
				out = append(out, fd)
			}
			return true
		})
	}
	return out
}

// constructionOnly: fn is a constructor or an unexported function used by constructors only (helpers, option callbacks).
func (c *Ctx) constructionOnly() func(fn *types.Func) bool {
	if c.ctorOnly == nil {
		c.ctorOnly = c.onlyCalledFrom(func(name string) bool { return constructors[name] || strings.HasPrefix(name, "New") })
	}
	return c.ctorOnly
}

// fnNameOf: qualified name of a declared function.
func (c *Ctx) fnNameOf(fd *ast.FuncDecl) string {
	if fn, ok := c.Pkg.TypesInfo.Defs[fd.Name].(*types.Func); ok {
		return pw.FuncName(fn)
	}
	return fd.Name.Name
}

// featurePath: the path exercises API growth — an option or entry point that does not exist in the reference tree (api_gen.go) is
// in use on it: a field unknown to the reference tree was read and found set (non-nil / non-zero / true), or a call of an exported
// function unknown to the reference tree returned a set value. The properties quantify over the configuration space of the
// reference API ("all SkipInterval values", "each option on/off", …); what the library does once a new option is switched on is
// that option's specification, not theirs. Such paths are not judged (their number is recorded in the evidence); every path on
// which the additions are left at their zero values is judged as before.
func (c *Ctx) featurePath(p *pw.Path) bool {
	for _, ev := range p.Events {
		var v *pw.Val
		switch {
		case ev.Kind == pw.EvFieldRead && ev.Field != nil && ev.Value != nil:
			owner := fieldOwnerName(ev.Field)
			if owner == "" || knownFields[owner+"."+fname(ev.Field)] || knownFields[owner+"."+ev.Field.Name()] {
				continue
			}
			if _, ownerKnown := knownOwners()[owner]; !ownerKnown {
				continue // a new helper type: no statement about it
			}
			// a new UNEXPORTED field is API growth only when it is fed by a new exported option / entry point; internal state derived
			// from what the reference API already offers (a flag set when the configured backend is a NoOp, …) is reachable without
			// any new API: paths through it are judged like any other
			if !ev.Field.Exported() && !c.fedByNewAPI(ev.Field) {
				continue
			}
			v = ev.Value
		case ev.Kind == pw.EvCall && ev.Callee != nil && ev.Callee.Pkg() == c.Pkg.Types && ev.Callee.Exported() && len(ev.Results) > 0:
			name := strings.TrimPrefix(pw.FuncName(ev.Callee), "cache.")
			if knownAPI[name] {
				continue
			}
			v = ev.Results[0]
		default:
			continue
		}
		if isNil, known := p.NilFact(v); known && !isNil {
			return true
		}
		if t, known := p.Truth(v); known && t {
			return true
		}
		if v.Type != nil {
			if b, ok := v.Type.Underlying().(*types.Basic); ok && b.Info()&(types.IsNumeric) != 0 {
				if rel := p.Rel(v, c.zeroOf(p)); rel != 0 && rel&pw.REq == 0 {
					return true
				}
			}
			if b, ok := v.Type.Underlying().(*types.Basic); ok && b.Info()&types.IsString != 0 {
				if rel := p.Rel(v, c.curEngine.StrConst("")); rel != 0 && rel&pw.REq == 0 {
					return true
				}
			}
		}
	}
	return false
}

func (c *Ctx) zeroOf(p *pw.Path) *pw.Val { return c.curEngine.IntConst(0) }

var knownOwnersCache map[string]bool

func knownOwners() map[string]bool {
	if knownOwnersCache == nil {
		knownOwnersCache = map[string]bool{}
		for k := range knownFields {
			knownOwnersCache[k[:strings.Index(k, ".")]] = true
		}
	}
	return knownOwnersCache
}

// isNewAPI: an exported function or method that the reference tree does not have, and that no function of the reference API calls.
func (c *Ctx) isNewAPI(fn *types.Func) bool {
	if fn == nil || !fn.Exported() {
		return false
	}
	name := strings.TrimPrefix(pw.FuncName(fn), "cache.")
	if knownAPI[name] {
		return false
	}
	// methods on unexported types are reachable through interfaces: only exported receivers / plain functions count
	if sig, _ := fn.Type().(*types.Signature); sig != nil && sig.Recv() != nil {
		rn := namedTypeNameRaw(sig.Recv().Type())
		if rn == "" || !ast.IsExported(rn) {
			return false
		}
	}
	return true
}

// dropFeaturePaths filters the paths of an analysed function (see featurePath) and records how many were set aside.
func (c *Ctx) dropFeaturePaths(name string, paths []*pw.Path) []*pw.Path {
	var out []*pw.Path
	n := 0
	for _, p := range paths {
		if c.featurePath(p) {
			n++
			continue
		}
		out = append(out, p)
	}
	if n > 0 {
		c.R.Count("feature_paths_not_judged:"+name, n)
		c.R.Notes = append(c.R.Notes, fmt.Sprintf("%s: %d paths on which an option/entry point that is not part of the reference API is in use were not judged", name, n))
	}
	return out
}

// declOf returns the declaration of a function of the package.
func (c *Ctx) declOf(fn *types.Func) *ast.FuncDecl {
	var out *ast.FuncDecl
	c.eachFuncDecl(func(fd *ast.FuncDecl, f *types.Func) {
		if f.Origin() == fn.Origin() {
			out = fd
		}
	})
	return out
}

// nodeAt returns the innermost statement of root that contains pos.
func nodeAt(root ast.Node, pos token.Pos) ast.Node {
	var found ast.Node
	ast.Inspect(root, func(x ast.Node) bool {
		if x == nil || pos < x.Pos() || pos >= x.End() {
			return x == nil || false
		}
		if _, ok := x.(ast.Stmt); ok {
			found = x
		}
		return true
	})
	return found
}

func (c *Ctx) declPos(name string) string {
	if fd, _ := c.funcDecl(name); fd != nil {
		return c.Pos(fd.Pos())
	}
	return ""
}

func (c *Ctx) funcDecl(name string) (*ast.FuncDecl, *types.Func) {
	for _, f := range c.Pkg.Syntax {
		for _, d := range f.Decls {
			fd, ok := d.(*ast.FuncDecl)
			if !ok {
				continue
			}
			fn, _ := c.Pkg.TypesInfo.Defs[fd.Name].(*types.Func)
			if fn != nil && pw.FuncName(fn) == "cache."+name {
				return fd, fn
			}
		}
	}
	// an unexported helper that moved between receivers (method ↔ plain function) keeps its role: resolve it by its bare name when
	// exactly one declaration carries it
	bare := name
	if i := strings.LastIndex(name, "."); i >= 0 {
		bare = name[i+1:]
	}
	if bare == "" || ast.IsExported(bare) {
		return nil, nil
	}
	var hitD *ast.FuncDecl
	var hitF *types.Func
	n := 0
	for _, f := range c.Pkg.Syntax {
		for _, d := range f.Decls {
			if fd, ok := d.(*ast.FuncDecl); ok && fd.Name.Name == bare && fd.Body != nil {
				if fn, _ := c.Pkg.TypesInfo.Defs[fd.Name].(*types.Func); fn != nil {
					hitD, hitF = fd, fn
					n++
				}
			}
		}
	}
	if n == 1 {
		return hitD, hitF
	}
	return nil, nil
}

// eachFuncDecl iterates over all function declarations with bodies of the subject package.
func (c *Ctx) eachFuncDecl(f func(fd *ast.FuncDecl, fn *types.Func)) {
	for _, file := range c.Pkg.Syntax {
		for _, d := range file.Decls {
			fd, ok := d.(*ast.FuncDecl)
			if !ok || fd.Body == nil {
				continue
			}
			fn, _ := c.Pkg.TypesInfo.Defs[fd.Name].(*types.Func)
			if fn != nil {
				f(fd, fn)
			}
		}
	}
}

func shortTrace(p *pw.Path) []string {
	t := p.Trace
	if len(t) > 40 {
		t = t[:40]
	}
	return t
}

// derivesFrom reports whether v is, or is a slice/conversion-to-bytes of, src (aliasing the same memory).
func aliases(v, src *pw.Val) bool {
	for x := v; x != nil; {
		if x == src {
			return true
		}
		switch x.Kind {
		case pw.KSlice:
			x = x.Src
		case pw.KConv:
			// string(b) and []byte(s) copy; named-type conversions of slices alias
			if isCopyConv(x) {
				return false
			}
			x = x.Src
		default:
			return false
		}
	}
	return false
}

func isCopyConv(v *pw.Val) bool {
	if v.Kind != pw.KConv || v.Src == nil || v.Type == nil || v.Src.Type == nil {
		return false
	}
	_, toStr := v.Type.Underlying().(*types.Basic)
	_, fromSlice := v.Src.Type.Underlying().(*types.Slice)
	_, toSlice := v.Type.Underlying().(*types.Slice)
	_, fromStr := v.Src.Type.Underlying().(*types.Basic)
	return toStr && fromSlice || toSlice && fromStr
}

// stringOf reports whether v is string(src) (a copying conversion of src or of an alias of src).
func stringOf(v, src *pw.Val) bool {
	return v != nil && v.Kind == pw.KConv && isCopyConv(v) && aliases(v.Src, src)
}

type coreObl = core.Obligation

// contentOf reports whether v holds the same bytes as src at the time it is used: v aliases src, or v is a fresh
// buffer filled from src (make + copy, append to nil/empty, []byte(string(src))). evs are the events of the path so far.
func contentOf(evs []*pw.Event, v, src *pw.Val) bool {
	if v == nil {
		return false
	}
	if aliases(v, src) {
		return true
	}
	switch v.Kind {
	case pw.KSlice:
		return contentOf(evs, v.Src, src)
	case pw.KConv:
		return contentOf(evs, v.Src, src)
	case pw.KAppend:
		if len(v.Elems) == 1 && v.Op == token.ELLIPSIS && contentOf(evs, v.Elems[0], src) {
			b := v.Src
			if b == nil {
				return false
			}
			if b.Kind == pw.KConst && b.IsNil || b.Kind == pw.KZero || b.Kind == pw.KAlloc && len(b.Elems) == 0 {
				return true
			}
			if b.Kind == pw.KConv && b.Src != nil && b.Src.Kind == pw.KConst && b.Src.IsNil {
				return true
			}
			if b.Kind == pw.KSlice && b.Src != nil { // buf[:0]
				return true
			}
		}
	case pw.KAlloc:
		for _, ev := range evs {
			if ev.Kind == pw.EvCall && ev.Role == "builtin.copy" && len(ev.Args) == 2 && ev.Args[0] == v && contentOf(evs, ev.Args[1], src) {
				return true
			}
		}
	}
	return false
}

// isFreshCopyOf: like contentOf but v must not alias src (a private copy).
func isFreshCopyOf(evs []*pw.Event, v, src *pw.Val) bool {
	return !aliases(v, src) && contentOf(evs, v, src)
}

// stringOfContent: v is string(x) with x holding the bytes of src.
func stringOfContent(evs []*pw.Event, v, src *pw.Val) bool {
	return v != nil && v.Kind == pw.KConv && isCopyConv(v) && contentOf(evs, v.Src, src)
}

// countersStartAtZero reports the first assignment to a per-entry counter variable that is not the constant 0.
func countersStartAtZero(p *pw.Path) *pw.Event {
	seen := map[types.Object]bool{}
	for _, ev := range p.Events {
		if ev.Kind != pw.EvAssign || ev.Obj == nil || ev.Value == nil || seen[ev.Obj] {
			continue
		}
		if ev.Note == "call" {
			seen[ev.Obj] = true
			continue // initialised from a call's result (whatever the inlined callee computed): not a literal counter
		}
		if ev.Frame != nil && ev.Frame.Parent != nil {
			continue // a local of an inlined helper: not the operation's own counter
		}
		switch ev.Obj.Name() {
		case "cnt", "n", "count", "total":
		default:
			continue
		}
		if b, ok := ev.Obj.Type().Underlying().(*types.Basic); !ok || b.Info()&types.IsInteger == 0 {
			continue
		}
		seen[ev.Obj] = true
		v := ev.Value
		if v.Kind == pw.KConst && v.Const != nil && v.Const.ExactString() == "0" || v.Kind == pw.KZero {
			continue
		}
		if v.Kind == pw.KCall || v.Kind == pw.KParam {
			continue // initialised from a call result / parameter: not a literal counter
		}
		if v.Kind == pw.KArith && v.Src != nil && (v.Src.Kind == pw.KZero || v.Src.Kind == pw.KConst && v.Src.Const != nil && v.Src.Const.ExactString() == "0") {
			continue // declared without initialiser (zero) and incremented
		}
		return ev
	}
	return nil
}

// borrow runs rules of another property into a scratch report and transfers the selected obligations under a rule id of
// the current property (used where one structural condition is a necessary condition of several properties).
// rangeVarCapturedByGo: with the module's language version below go1.22 a goroutine started in a range loop that refers to the loop's
// variables sees them change under it (and races with the loop): each goroutine must get its own copy. Reports every such site in the
// functions accepted by scope.
func (c *Ctx) rangeVarCapturedByGo(rule string, scope func(name string) bool) {
	r := c.R
	if c.Pkg.Module != nil && c.Pkg.Module.GoVersion != "" {
		var major, minor int
		fmt.Sscanf(c.Pkg.Module.GoVersion, "%d.%d", &major, &minor)
		if major > 1 || major == 1 && minor >= 22 {
			r.OK(rule, "package:range-variable-capture", "module language version "+c.Pkg.Module.GoVersion+": per-iteration loop variables")
			return
		}
	}
	info := c.Pkg.TypesInfo
	n, bad := 0, false
	c.eachFuncDecl(func(fd *ast.FuncDecl, fn *types.Func) {
		name := strings.TrimPrefix(pw.FuncName(fn), "cache.")
		if scope != nil && !scope(name) {
			return
		}
		ast.Inspect(fd.Body, func(x ast.Node) bool {
			rs, ok := x.(*ast.RangeStmt)
			if !ok || rs.Tok != token.DEFINE {
				return true
			}
			n++
			vars := map[types.Object]string{}
			for _, e := range []ast.Expr{rs.Key, rs.Value} {
				if id, ok := e.(*ast.Ident); ok && id.Name != "_" {
					if o := info.Defs[id]; o != nil {
						vars[o] = id.Name
					}
				}
			}
			ast.Inspect(rs.Body, func(y ast.Node) bool {
				gs, ok := y.(*ast.GoStmt)
				if !ok {
					return true
				}
				lit, ok := ast.Unparen(gs.Call.Fun).(*ast.FuncLit)
				if !ok {
					return true
				}
				ast.Inspect(lit.Body, func(z ast.Node) bool {
					if id, ok := z.(*ast.Ident); ok {
						if vn, isVar := vars[info.Uses[id]]; isVar && !bad {
							bad = true
							r.Bad(rule, name, "range-variable-captured-by-goroutine", c.Pos(id.Pos()), "the goroutine started in the loop refers to the range variable "+vn+", which all iterations share (language version < go1.22): it works on a later iteration's value", nil)
						}
					}
					return true
				})
				return true
			})
			return true
		})
	})
	if !bad {
		r.OK(rule, "package:range-variable-capture", fmt.Sprintf("%d range loops in scope, no goroutine captures a range variable", n))
	}
}

// isIncrement: a counter step — a local variable or a field (of a visitor/accumulator struct) is assigned itself plus something.
func isIncrement(ev *pw.Event) bool {
	return (ev.Kind == pw.EvAssign || ev.Kind == pw.EvFieldWrite) && ev.Value != nil && ev.Value.Kind == pw.KArith && ev.Value.Op == token.ADD
}

// reachBodies returns fd and the declarations of the unexported package functions/methods it calls, transitively up to depth.
func (c *Ctx) reachBodies(fd *ast.FuncDecl, depth int) []*ast.FuncDecl {
	info := c.Pkg.TypesInfo
	decls := map[*types.Func]*ast.FuncDecl{}
	c.eachFuncDecl(func(d *ast.FuncDecl, fn *types.Func) { decls[fn.Origin()] = d })
	out := []*ast.FuncDecl{fd}
	seen := map[*ast.FuncDecl]bool{fd: true}
	frontier := []*ast.FuncDecl{fd}
	for d := 0; d < depth; d++ {
		var next []*ast.FuncDecl
		for _, cur := range frontier {
			ast.Inspect(cur.Body, func(n ast.Node) bool {
				call, ok := n.(*ast.CallExpr)
				if !ok {
					return true
				}
				callee, _ := typeutil.Callee(info, call).(*types.Func)
				if callee == nil || callee.Exported() || callee.Pkg() != c.Pkg.Types {
					return true
				}
				if cd := decls[callee.Origin()]; cd != nil && cd.Body != nil && !seen[cd] {
					seen[cd] = true
					out = append(out, cd)
					next = append(next, cd)
				}
				return true
			})
		}
		frontier = next
	}
	return out
}

// borrowKinds runs a lender's rules and takes over only its violations of the given kinds (suffix match) as violations of rule; when
// the lender ran and reported none of them, rule is discharged for construct — whatever else the lender found is its own business.
func (c *Ctx) borrowKinds(from string, run func(), rule, construct string, lenderRules []string, kinds ...string) {
	n, ran := 0, 0
	c.borrow(from, run, func(o *coreObl) (string, bool) {
		hit := false
		for _, lr := range lenderRules {
			if o.Rule == lr {
				hit = true
			}
		}
		if !hit {
			return "", false
		}
		ran++
		if o.Status == core.Violated {
			for _, k := range kinds {
				if strings.HasSuffix(o.What, k) {
					n++
					return rule, true
				}
			}
		}
		return "", false
	})
	if ran == 0 {
		c.R.Unknown(rule, construct, "the lending rules "+strings.Join(lenderRules, ",")+" produced no obligation")
	} else if n == 0 {
		c.R.OK(rule, construct, fmt.Sprintf("none of %v reported by %s", kinds, strings.Join(lenderRules, ",")))
	}
}

func (c *Ctx) borrow(from string, run func(), pick func(o *coreObl) (string, bool)) {
	save := c.R
	scratch := core.NewReport(from, c.Tier, 0)
	c.R = scratch
	func() {
		defer func() { c.R = save }()
		run()
	}()
	for _, o := range scratch.Obls {
		rule, ok := pick(o)
		if !ok {
			continue
		}
		switch o.Status {
		case core.Discharged:
			save.OK(rule, o.Construct, o.What)
		case core.Violated:
			save.Bad(rule, o.Construct, o.What, o.Pos, o.Detail, o.Trace)
		case core.Undecided:
			save.Unknown(rule, o.Construct, o.Detail)
		}
	}
	for k, v := range scratch.Counters {
		save.Counters[k] += v
	}
	for f := range scratch.Functions {
		save.Functions[f] = true
	}
}

// gtMinus1: is the integer v > −1 on this path? Decided from the facts about (v, −1) or, equivalently for integers, about (v, 0)
// (`x >= 0` is the same test as `x > -1`).
func gtMinus1(p *pw.Path, e *pw.Engine, v *pw.Val) tri {
	r1 := p.Rel(v, e.IntConst(-1))
	r0 := p.Rel(v, e.IntConst(0))
	switch {
	case r1&^pw.RGt == 0 || r0&pw.RLt == 0:
		return triTrue
	case r1&pw.RGt == 0 || r0&^pw.RLt == 0:
		return triFalse
	}
	return triUnknown
}

// fedByNewAPI: some assignment to the (unexported, new) field in the package has a right-hand side that mentions a new exported
// field or function, or sits in a new exported function.
func (c *Ctx) fedByNewAPI(f *types.Var) bool {
	if c.fedCache == nil {
		c.fedCache = map[*types.Var]bool{}
	}
	f = f.Origin()
	if v, ok := c.fedCache[f]; ok {
		return v
	}
	info := c.Pkg.TypesInfo
	mentionsNew := func(e ast.Expr) bool {
		found := false
		ast.Inspect(e, func(x ast.Node) bool {
			id, ok := x.(*ast.Ident)
			if !ok || found {
				return !found
			}
			switch o := info.Uses[id].(type) {
			case *types.Var:
				if o.IsField() && o.Exported() && o.Pkg() == c.Pkg.Types {
					owner := fieldOwnerName(o)
					if owner != "" && !knownFields[owner+"."+fname(o)] && !knownFields[owner+"."+o.Name()] {
						found = true
					}
				}
			case *types.Func:
				if c.isNewAPI(o) {
					found = true
				}
			}
			return !found
		})
		return found
	}
	fed := false
	c.eachFuncDecl(func(fd *ast.FuncDecl, fn *types.Func) {
		if fed {
			return
		}
		inNew := c.isNewAPI(fn)
		ast.Inspect(fd.Body, func(x ast.Node) bool {
			switch y := x.(type) {
			case *ast.AssignStmt:
				for i, l := range y.Lhs {
					sel, ok := ast.Unparen(l).(*ast.SelectorExpr)
					if !ok {
						continue
					}
					if fv, _ := info.Uses[sel.Sel].(*types.Var); fv == nil || fv.Origin() != f {
						continue
					}
					if inNew {
						fed = true
					}
					if len(y.Rhs) == len(y.Lhs) && mentionsNew(y.Rhs[i]) || len(y.Rhs) == 1 && mentionsNew(y.Rhs[0]) {
						fed = true
					}
				}
			case *ast.KeyValueExpr:
				if id, ok := y.Key.(*ast.Ident); ok {
					if fv, _ := info.Uses[id].(*types.Var); fv != nil && fv.Origin() == f && (inNew || mentionsNew(y.Value)) {
						fed = true
					}
				}
			}
			return !fed
		})
	})
	c.fedCache[f] = fed
	return fed
}
