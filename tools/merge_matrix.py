#!/usr/bin/env python3
"""usage: merge_matrix.py <partial.json> — folds a partial seed matrix into /verif/seeded/matrix.json"""
import json, sys
m = json.load(open('/verif/seeded/matrix.json'))
m.update(json.load(open(sys.argv[1])))
json.dump(dict(sorted(m.items())), open('/verif/seeded/matrix.json', 'w'), indent=0, ensure_ascii=False)
print(len(m), 'seeds in matrix')
