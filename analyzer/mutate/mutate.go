// Package mutate generates syntactic variants of the subject's source files for the thorough tier: breaking mutants
// (liveness of the rules on today's tree) and behaviour-preserving rewrites (absence of false alarms). Variants are
// only ever analysed through packages.Config.Overlay; nothing is written into the repository and nothing is executed.
package mutate

import (
	"bytes"
	"fmt"
	"go/ast"
	"go/parser"
	"go/printer"
	"go/token"
	"strings"
)

// Mutant describes one variant.
type Mutant struct {
	ID   int    `json:"id"`
	File string `json:"file"`
	Func string `json:"func"`
	Op   string `json:"op"`
	Line int    `json:"line"`
	Desc string `json:"desc"`
}

// site is an applicable mutation: apply mutates the tree, undo restores it.
type site struct {
	m     Mutant
	apply func()
	undo  func()
}

// File holds a parsed source file.
type File struct {
	Path string
	Fset *token.FileSet
	AST  *ast.File
	src  []byte
}

// Parse parses a file for mutation.
func Parse(path string, src []byte) (*File, error) {
	fset := token.NewFileSet()
	f, err := parser.ParseFile(fset, path, src, parser.ParseComments)
	if err != nil {
		return nil, err
	}
	return &File{Path: path, Fset: fset, AST: f, src: src}, nil
}

func (f *File) print() ([]byte, error) {
	var buf bytes.Buffer
	if err := (&printer.Config{Mode: printer.UseSpaces | printer.TabIndent, Tabwidth: 8}).Fprint(&buf, f.Fset, f.AST); err != nil {
		return nil, err
	}
	return buf.Bytes(), nil
}

func funcName(fd *ast.FuncDecl) string {
	if fd.Recv != nil && len(fd.Recv.List) == 1 {
		t := fd.Recv.List[0].Type
		for {
			switch x := t.(type) {
			case *ast.StarExpr:
				t = x.X
				continue
			case *ast.IndexExpr:
				t = x.X
				continue
			case *ast.IndexListExpr:
				t = x.X
				continue
			}
			break
		}
		if id, ok := t.(*ast.Ident); ok {
			return id.Name + "." + fd.Name.Name
		}
	}
	return fd.Name.Name
}

func exprStr(fset *token.FileSet, n ast.Node) string {
	var buf bytes.Buffer
	_ = printer.Fprint(&buf, fset, n)
	s := strings.Join(strings.Fields(buf.String()), " ")
	if len(s) > 60 {
		s = s[:57] + "..."
	}
	return s
}

// sites enumerates mutation sites of the functions selected by inScope.
func (f *File) sites(inScope func(fn string) bool) []site {
	var out []site
	add := func(fn, op string, n ast.Node, desc string, apply, undo func()) {
		out = append(out, site{Mutant{File: f.Path, Func: fn, Op: op, Line: f.Fset.Position(n.Pos()).Line, Desc: desc}, apply, undo})
	}
	for _, d := range f.AST.Decls {
		fd, ok := d.(*ast.FuncDecl)
		if !ok || fd.Body == nil {
			continue
		}
		fn := funcName(fd)
		if !inScope(fn) {
			continue
		}
		// statement deletion
		var visitBlock func(list *[]ast.Stmt)
		visitBlock = func(list *[]ast.Stmt) {
			for i := range *list {
				i := i
				s := (*list)[i]
				switch s.(type) {
				case *ast.ExprStmt, *ast.AssignStmt, *ast.IncDecStmt, *ast.DeferStmt, *ast.GoStmt:
					if as, ok := s.(*ast.AssignStmt); ok && as.Tok == token.DEFINE {
						break // deleting a definition never type-checks
					}
					l := list
					add(fn, "delete-stmt", s, "delete `"+exprStr(f.Fset, s)+"`", func() { (*l)[i] = &ast.EmptyStmt{Semicolon: s.Pos(), Implicit: true} }, func() { (*l)[i] = s })
				}
			}
		}
		ast.Inspect(fd.Body, func(n ast.Node) bool {
			switch x := n.(type) {
			case *ast.BlockStmt:
				visitBlock(&x.List)
			case *ast.CaseClause:
				visitBlock(&x.Body)
			case *ast.CommClause:
				visitBlock(&x.Body)
			case *ast.IfStmt:
				c := x.Cond
				add(fn, "negate-cond", x, "negate `"+exprStr(f.Fset, c)+"`", func() { x.Cond = &ast.UnaryExpr{Op: token.NOT, X: &ast.ParenExpr{X: c}} }, func() { x.Cond = c })
			case *ast.BinaryExpr:
				op := x.Op
				var alts []token.Token
				switch op {
				case token.LSS:
					alts = []token.Token{token.LEQ, token.GTR}
				case token.LEQ:
					alts = []token.Token{token.LSS}
				case token.GTR:
					alts = []token.Token{token.GEQ, token.LSS}
				case token.GEQ:
					alts = []token.Token{token.GTR}
				case token.EQL:
					alts = []token.Token{token.NEQ}
				case token.NEQ:
					alts = []token.Token{token.EQL}
				case token.LAND:
					alts = []token.Token{token.LOR}
				case token.LOR:
					alts = []token.Token{token.LAND}
				case token.ADD:
					alts = []token.Token{token.SUB}
				case token.SUB:
					alts = []token.Token{token.ADD}
				case token.REM:
					alts = []token.Token{token.QUO}
				}
				for _, a := range alts {
					a := a
					add(fn, "binop", x, fmt.Sprintf("`%s`: %s → %s", exprStr(f.Fset, x), op, a), func() { x.Op = a }, func() { x.Op = op })
				}
				if op == token.LAND || op == token.LOR {
					// drop a conjunct / disjunct: replace the operator node's right operand by a copy of the left one is not
					// expressible in place; use the absorbing constant instead
					y := x.Y
					keep := "true"
					if op == token.LOR {
						keep = "false"
					}
					add(fn, "drop-right-operand", x, "drop `"+exprStr(f.Fset, y)+"`", func() { x.Y = ast.NewIdent(keep) }, func() { x.Y = y })
					xx := x.X
					add(fn, "drop-left-operand", x, "drop `"+exprStr(f.Fset, xx)+"`", func() { x.X = ast.NewIdent(keep) }, func() { x.X = xx })
				}
			case *ast.CallExpr:
				if sel, ok := x.Fun.(*ast.SelectorExpr); ok {
					swap := map[string]string{"Lock": "RLock", "RLock": "Lock", "Unlock": "RUnlock", "RUnlock": "Unlock"}
					if to, ok := swap[sel.Sel.Name]; ok && len(x.Args) == 0 {
						old := sel.Sel
						add(fn, "lock-mode", x, exprStr(f.Fset, x)+" → "+to, func() { sel.Sel = ast.NewIdent(to) }, func() { sel.Sel = old })
					}
				}
			case *ast.Ident:
				if x.Name == "true" || x.Name == "false" {
					old := x.Name
					to := "true"
					if old == "true" {
						to = "false"
					}
					add(fn, "bool-const", x, old+" → "+to, func() { x.Name = to }, func() { x.Name = old })
				}
			case *ast.BasicLit:
				if x.Kind == token.INT && (x.Value == "0" || x.Value == "1") {
					old := x.Value
					to := "1"
					if old == "1" {
						to = "0"
					}
					add(fn, "int-const", x, old+" → "+to, func() { x.Value = to }, func() { x.Value = old })
				}
			}
			return true
		})
	}
	return out
}

// Mutants lists the mutants of a file for the functions in scope (ids are assigned by the caller).
func (f *File) Mutants(inScope func(fn string) bool) []Mutant {
	var out []Mutant
	for _, s := range f.sites(inScope) {
		out = append(out, s.m)
	}
	return out
}

// Render produces the source of the k-th mutant of the file (k indexes the list returned by Mutants with the same scope).
func (f *File) Render(inScope func(fn string) bool, k int) ([]byte, error) {
	ss := f.sites(inScope)
	if k < 0 || k >= len(ss) {
		return nil, fmt.Errorf("mutant index %d out of range", k)
	}
	ss[k].apply()
	defer ss[k].undo()
	return f.print()
}

// Neutral rewrites ---------------------------------------------------------------------------------

// NeutralKinds lists the behaviour-preserving rewrites.
var NeutralKinds = []string{"swap-eq-operands", "invert-if-else", "double-negate-cond", "reprint"}

// Neutral renders the whole file with one behaviour-preserving rewrite applied everywhere it fits (functions in scope).
func (f *File) Neutral(kind string, inScope func(fn string) bool) ([]byte, int, error) {
	n := 0
	var undo []func()
	for _, d := range f.AST.Decls {
		fd, ok := d.(*ast.FuncDecl)
		if !ok || fd.Body == nil || !inScope(funcName(fd)) {
			continue
		}
		ast.Inspect(fd.Body, func(x ast.Node) bool {
			switch kind {
			case "swap-eq-operands":
				if be, ok := x.(*ast.BinaryExpr); ok && (be.Op == token.EQL || be.Op == token.NEQ) {
					// only side-effect-free simple operands
					if simple(be.X) && simple(be.Y) {
						a, b := be.X, be.Y
						be.X, be.Y = b, a
						undo = append(undo, func() { be.X, be.Y = a, b })
						n++
					}
				}
			case "invert-if-else":
				if is, ok := x.(*ast.IfStmt); ok && is.Else != nil {
					if eb, ok := is.Else.(*ast.BlockStmt); ok && is.Init == nil {
						c, body := is.Cond, is.Body
						is.Cond = &ast.UnaryExpr{Op: token.NOT, X: &ast.ParenExpr{X: c}}
						is.Body, is.Else = eb, body
						undo = append(undo, func() { is.Cond, is.Body, is.Else = c, body, eb })
						n++
					}
				}
			case "double-negate-cond":
				if is, ok := x.(*ast.IfStmt); ok {
					c := is.Cond
					is.Cond = &ast.UnaryExpr{Op: token.NOT, X: &ast.ParenExpr{X: &ast.UnaryExpr{Op: token.NOT, X: &ast.ParenExpr{X: c}}}}
					undo = append(undo, func() { is.Cond = c })
					n++
				}
			}
			return true
		})
	}
	defer func() {
		for i := len(undo) - 1; i >= 0; i-- {
			undo[i]()
		}
	}()
	b, err := f.print()
	return b, n, err
}

func simple(e ast.Expr) bool {
	switch x := e.(type) {
	case *ast.Ident, *ast.BasicLit:
		return true
	case *ast.SelectorExpr:
		return simple(x.X)
	case *ast.ParenExpr:
		return simple(x.X)
	case *ast.UnaryExpr:
		return x.Op != token.ARROW && simple(x.X)
	}
	return false
}
