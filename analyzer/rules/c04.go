package rules

import (
	"fmt"
	"go/types"
	"math/big"
	"strings"

	"cachelint/core"
	"cachelint/pw"
)

func init() { register("C04", checkC04) }

// isCallOut: events that leave the frontend (user or backend code) — must not happen inside the keyLocks critical section.
func isCallOut(fo *FO, ev *pw.Event) bool {
	if ev.Kind != pw.EvCall {
		return false
	}
	if isBuilderCall(fo, ev) {
		return true
	}
	r := ev.Role
	switch {
	case strings.HasPrefix(r, "Backend"), strings.HasPrefix(r, "Errors"), r == "Log", strings.HasPrefix(r, "Metric:"),
		strings.HasPrefix(r, "Dyn"), strings.HasPrefix(r, "Iface"), r == "DeleterDelete":
		return true
	}
	return false
}

func blockingStd(role string) bool {
	switch role {
	case "Std:sync.WaitGroup.Wait", "Std:sync.Cond.Wait", "Std:time.Sleep", "Std:sync.Once.Do":
		return true
	}
	return false
}

func checkC04(c *Ctx) {
	r := c.R
	r.Explanation = "Static path analysis of both Get implementations. Decides for every feasible path (all failure scripts, both update modes): " +
		"(R04.1) every owner path releases its key lock exactly once on every exit — itself or through the single goroutine it hands the " +
		"entry to — with delete+close under lock; (R04.3) the only blocking operations in Get are lock.Lock (whose critical sections " +
		"contain no call-outs to builder/backend/logger/stats) and the wait on the owner's channel, which R04.1 guarantees is closed; " +
		"(R04.4) nothing executed in the spawned goroutine reads the caller's key slice (all keyed operations there use a private copy), " +
		"so the released entry is the acquired one even if the caller rewrites the buffer; (R04.5) the spawned goroutine runs under a " +
		"detachedContext, so caller cancellation cannot abort the background build. Panics of user code are outside the property and are " +
		"not decided; termination of user code and scheduler fairness are assumed."
	r.Rule("R04.1", "release on every exit: exactly one delete+close of the path's own key lock entry per owner path, none per waiter", 2)
	r.Rule("R04.3", "no other blocking point: only lock.Lock and the receive on the found entry's channel; no call-out while lock is held", 2)
	r.Rule("R04.4", "the spawned closure never touches the caller's key slice (keyed operations use a private copy made before the spawn)", 2)
	r.Rule("R04.7", "the in-module backends release their shard locks on every exit (a leaked lock blocks Get's backend calls for ever; obligations of C08 R08.5)", 10)
	r.Rule("R04.8", "waiters observe the owner's completed result: complete publication before release (obligations of C02 R02.2)", 2)
	r.Rule("R04.9", "the constructor leaves neither the backend nor the key-lock map nil", 2)
	r.Rule("R04.5", "builder and write in the spawned closure run under detachedContext{caller ctx}", 2)
	r.Rule("R04.6", "the failure cache is bounded by FailedUpdateTTL (a later Get can build again) and never dereferenced when disabled", 4)
	r.NotDecided = []string{"termination of user code", "scheduler fairness", "panicking builders"}
	for _, sib := range siblings {
		fo := c.failover(sib)
		if fo.Err != nil {
			r.Unknown("R04.*", sib+".Get", fo.Err.Error())
			continue
		}
		cons := sib + ".Get"
		// R04.1 re-uses the release typestate of C01
		sub := core.NewReport("C01", c.Tier, 0)
		save := c.R
		c.R = sub
		c.c01Sibling(fo)
		c.R = save
		for _, o := range sub.Obls {
			if o.Rule != "R01.4" && o.Rule != "R01.5" {
				continue
			}
			switch o.Status {
			case core.Violated:
				r.Bad("R04.1", o.Construct, o.What, o.Pos, o.Detail, o.Trace)
			case core.Undecided:
				r.Unknown("R04.1", o.Construct, o.Detail)
			}
		}
		if !hasViolation(r.Obls, "R04.1", cons) {
			r.OK("R04.1", cons, "release typestate holds on every path")
		}
		c.c04Sibling(fo)
	}
	// R04.6: the failure cache cannot stop later Gets from building for longer than FailedUpdateTTL, and is never touched
	// when disabled (Errors is nil then: a nil dereference instead of a result)
	c.borrow("C05", func() {
		for _, sib := range siblings {
			if fo := c.failover(sib); fo.Err == nil {
				c.c05Sibling(fo)
			}
			c.c05Constructor(sib) // the failure cache's TimeToLive is FailedUpdateTTL (not another duration of the configuration)
		}
	}, func(o *coreObl) (string, bool) {
		return "R04.6", o.Rule == "R05.5" || o.Rule == "R05.6" || o.Rule == "R05.3" && (o.Status == "discharged" || o.What == "cached-error-not-from-builder")
	})
	// R04.7: Get returns once its builder returned only if the backend operations it calls return: the in-module backends release
	// every shard lock on every exit of every operation (C08 R08.5), also of Walk/Dump run by somebody else on the same backend
	c.borrow("C08", func() {
		for _, b := range backends {
			c.c08Backend(b)
		}
	}, func(o *coreObl) (string, bool) { return "R04.7", o.Rule == "R08.5" })
	// "a later Get is able to build again": the stale value re-stored for UpdateTTL expires again, i.e. Trait.TTL honours the context TTL
	// whatever the configured default is (C06 R06.6), and a waiter gets the owner's result (C02 R02.2)
	c.borrow("C06", func() { c.c06TraitTTL() }, func(o *coreObl) (string, bool) { return "R04.6", o.Rule == "R06.6" })
	// … the TTL it is re-stored with is never the zero "backend default" (which may be unlimited): the constructor replaces a zero
	// UpdateTTL after the options ran (C06 R06.2); and the failure entry / re-store get the TTL the Failover asked for, not one
	// inherited from the caller's context: WithTTL without update always shadows with a fresh cell (C06 R06.3)
	c.borrow("C06", func() {
		for _, sib := range siblings {
			c.ctorDefaults("R06.2", "New"+sib, "config", map[string]*big.Rat{"UpdateTTL": big.NewRat(60*1000000000, 1)})
		}
		c.c06WithTTL()
	}, func(o *coreObl) (string, bool) { return "R04.6", o.Rule == "R06.2" || o.Rule == "R06.3" })
	c.borrow("C02", func() {
		for _, sib := range siblings {
			if fo := c.failover(sib); fo.Err == nil {
				c.c02Sibling(fo)
			}
		}
	}, func(o *coreObl) (string, bool) { return "R04.8", o.Rule == "R02.2" })
	// R04.4 also when the copy is taken too late: a copy made inside the goroutine reads the caller's buffer after Get returned, so
	// the background build writes to and unlocks whatever the buffer holds by then (C09 R09.1)
	c.borrowKinds("C09", func() { c.c09Retention() }, "R04.4", "Failover.Get:key-copied-before-go", []string{"R09.1"}, "read-in-goroutine")
	c.c04CtorWiring("R04.9", false)
	// "every Get returns once the builder invocations it depends on have returned": with SyncRead a Get that finds the key locked
	// still reads in the section (C05 R05.1) — otherwise it waits for a build although a servable value is there, and a builder
	// reading its own key through the instance waits for itself; after a failure "a later Get is able to build again" also under
	// SkipRead: the failure cache is consulted with the caller's context (C06 R06.7)
	for _, sib := range siblings {
		if fo := c.failover(sib); fo.Err == nil {
			fo := fo
			c.borrowKinds("C05", func() { c.c05Sibling(fo) }, "R04.3", sib+".Get:syncread-waiter-reads", []string{"R05.1"}, "waiter-read-count")
		}
	}
	c.borrow("C06", func() { c.c06Accessors() }, func(o *coreObl) (string, bool) {
		return "R04.6", o.Rule == "R06.7" && o.Construct != "TTL" && o.Construct != "SkipRead"
	})
	// R04.3 relies on the keyLocks mutex being one mutex: a copy of the Failover struct (value receiver, dereference) carries a
	// copy of it, which excludes nobody — or starts out locked and blocks for ever (C16 R16.10, copylock pass)
	c.borrow("C16", func() { c.c16CopyLocks() }, func(o *coreObl) (string, bool) { return "R04.3", o.Rule == "R16.10" })
	// "a later Get is able to build again": an expired entry leads to a rebuild only if Get recognises the backend's expiry error
	// — by errors.As/errors.Is, so that a backend which wraps its read errors is understood too (C03 R03.1); an unrecognised
	// read error is returned as it is, on every later Get as well
	for _, sib := range siblings {
		if fo := c.failover(sib); fo.Err == nil {
			fo := fo
			c.borrowKinds("C03", func() { c.c03Sibling(fo) }, "R04.6", sib+".Get:read-error-classified", []string{"R03.1"}, "unclassified-read-error")
		}
	}
	// … and the in-module backends report every expired entry with the expiry error Get recognises (never a bare sentinel or
	// another error: Get would return it without building) (C07 R07.2)
	c.borrowKinds("C07", func() {
		for _, b := range backends {
			c.c07Read(b)
		}
	}, "R04.6", "backends.Read:expired-reported-as-expiry-error", []string{"R07.2"}, "present-unclassified", "expired-served-as-valid")
	// R04.5: "when the caller's context is cancelled after Get returned" — the detached context's Done/Err/Deadline are its own
	c.borrow("C06", func() { c.c06Detached() }, func(o *coreObl) (string, bool) { return "R04.5", o.Rule == "R06.4" })
}

// c04CtorWiring: Get dereferences the backend and writes into the key-lock map on every miss: a constructor that leaves either
// nil makes the first such Get panic instead of returning. On every returning path of NewFailover/NewFailoverOf the instance's
// backend is the configured one when that is non-nil and a freshly constructed default one otherwise, and keyLocks is a fresh map.
func (c *Ctx) c04CtorWiring(rule string, requireUser bool) {
	r := c.R
	for _, sib := range siblings {
		ctor := "New" + sib
		_, paths, _, err := c.runFunc(ctor, pw.Policy{Inline: inlineUnexported, MaxDepth: 2})
		if err != nil {
			r.Unknown(rule, ctor, err.Error())
			continue
		}
		n, nUser, nDefault := 0, 0, 0
		bad := false
		for _, p := range paths {
			if p.Panic || len(p.Ret) == 0 {
				continue
			}
			n++
			var backend, locks *pw.Event
			for _, ev := range p.Events {
				if ev.Kind != pw.EvFieldWrite || ev.Field == nil {
					continue
				}
				switch fname(ev.Field) {
				case "backend":
					backend = ev
				case "keyLocks":
					locks = ev
				}
			}
			var bv, lv *pw.Val
			if backend != nil {
				bv = backend.Value
			}
			if locks != nil {
				lv = locks.Value
			}
			if inst := pointee(p.Ret[0]); inst != nil && inst.Kind == pw.KAlloc {
				if fv := inst.Fields["backend"]; fv != nil && bv == nil {
					bv = fv
				}
				if fv := inst.Fields[actualField(sib, "keyLocks")]; fv != nil && lv == nil {
					lv = fv
				}
			}
			for bv != nil && bv.Kind == pw.KConv {
				bv = bv.Src
			}
			switch {
			case bv != nil && bv.Kind == pw.KCall && bv.Ev != nil && bv.Ev.Callee != nil && strings.HasPrefix(bv.Ev.Callee.Name(), "New"):
				nDefault++
			case bv != nil && bv.Kind == pw.KField && bv.Field != nil && fname(bv.Field) == "Backend":
				if isNil, known := p.NilFact(bv); known && !isNil {
					nUser++
				} else if !bad {
					bad = true
					r.Bad(rule, ctor, "backend-may-be-nil", c.Pos(p.RetPos), "the instance keeps the configured Backend on a path that does not establish it non-nil (no default backend is created): Get dereferences nil", shortTrace(p))
				}
			default:
				if !bad {
					bad = true
					r.Bad(rule, ctor, "backend-not-wired", c.Pos(p.RetPos), "the instance's backend is neither the configured Backend nor a freshly constructed default backend", shortTrace(p))
				}
			}
			if lv == nil || lv.Kind != pw.KAlloc || lv.Type == nil {
				if !bad {
					bad = true
					r.Bad(rule, ctor, "keylocks-not-made", c.Pos(p.RetPos), "the key-lock map is not created: the first Get that has to build panics on the assignment to a nil map", shortTrace(p))
				}
			} else if _, isMap := lv.Type.Underlying().(*types.Map); !isMap && !bad {
				bad = true
				r.Bad(rule, ctor, "keylocks-not-made", c.Pos(p.RetPos), "the key-lock map is not a fresh map", shortTrace(p))
			}
		}
		if requireUser && n > 0 && nUser == 0 && !bad {
			bad = true
			r.Bad(rule, ctor, "configured-backend-ignored", c.declPos(ctor), "no path keeps the configured Backend: the Failover reads from and writes to a backend of its own instead of the one it was given", nil)
		}
		if n == 0 || nDefault == 0 || requireUser && nUser == 0 {
			if !bad {
				r.Unknown(rule, ctor, fmt.Sprintf("vacuous: %d returning paths, %d keep the configured backend, %d create the default one", n, nUser, nDefault))
			}
		} else if !bad {
			r.OK(rule, ctor, fmt.Sprintf("%d returning paths: configured backend kept when non-nil (%d), default created otherwise (%d), key-lock map made", n, nUser, nDefault))
		}
	}
}

func (c *Ctx) c04Sibling(fo *FO) {
	r := c.R
	cons := fo.Name + ".Get"
	nBlock, nSpawn, nSpawnKeyed := 0, 0, 0
	for _, p := range fo.Paths {
		cl, err := fo.classify(p)
		if err != nil {
			r.Unknown("R04.3", cons, err.Error())
			return
		}
		// "a later Get is able to build again": the failure cache speaks only through a successful read (the cached failure). A failed
		// read of it — the entry expired (its FailedUpdateTTL is over: that IS the moment to build again), is missing, or the failure
		// cache itself is broken — does not end the Get
		if len(p.Ret) == 2 && p.Ret[1] != nil {
			for _, ev := range p.Events {
				if ev.Kind == pw.EvCall && ev.Role == "ErrorsRead" && len(ev.Results) == 2 && aliasesErr(p.Ret[1], ev.Results[1]) {
					if isNil, known := p.NilFact(p.Ret[1]); !known || !isNil {
						d, t := c.pathDetail(fo, p, "Get returns the error of the failure-cache lookup itself (expired / missing failure entry) instead of going on to build")
						r.Bad("R04.6", cons, "failure-cache-read-error-returned", c.Pos(p.RetPos), d, t)
					}
				}
			}
		}
		ls := Locksets(p.Events, nil)
		check := func(evs []*pw.Event, ls []Held, spawned bool) {
			for i, ev := range evs {
				switch ev.Kind {
				case pw.EvLock:
					nBlock++
					if ev.Path != fo.LockPath {
						d, t := c.pathDetail(fo, p, "lock operation on a lock other than the keyLocks mutex: "+ev.String())
						r.Bad("R04.3", cons, "foreign-lock", c.Pos(ev.Pos), d, t)
					}
					if ev.Op == "Unlock" && ev.Path == fo.LockPath && !ls[i].Has(fo.LockPath, false) {
						d, t := c.pathDetail(fo, p, "the keyLocks mutex is unlocked without being held (fatal error: sync: unlock of unlocked mutex)")
						r.Bad("R04.3", cons, "unlock-unheld", c.Pos(ev.Pos), d, t)
					}
					if ev.Op == "Lock" && ls[i].Has(fo.LockPath, false) {
						d, t := c.pathDetail(fo, p, "lock acquired while already held (self-deadlock)")
						r.Bad("R04.3", cons, "relock", c.Pos(ev.Pos), d, t)
					}
				case pw.EvRecv:
					nBlock++
					ok := cl.found && !spawned && ev.Field != nil && fname(ev.Field) == "lock" && ev.Key == cl.kl
					if !ok {
						d, t := c.pathDetail(fo, p, "blocking receive that is not the waiter's wait on the found key lock: "+ev.String())
						r.Bad("R04.3", cons, "foreign-recv", c.Pos(ev.Pos), d, t)
					}
					if ls[i].Has(fo.LockPath, false) {
						d, t := c.pathDetail(fo, p, "waiting for the owner while holding the keyLocks mutex (owner can never release)")
						r.Bad("R04.3", cons, "recv-under-lock", c.Pos(ev.Pos), d, t)
					}
				case pw.EvSend:
					d, t := c.pathDetail(fo, p, "channel send in Get: "+ev.String())
					r.Bad("R04.3", cons, "send", c.Pos(ev.Pos), d, t)
				case pw.EvCall:
					if blockingStd(ev.Role) {
						d, t := c.pathDetail(fo, p, "blocking call in Get: "+ev.Role)
						r.Bad("R04.3", cons, "blocking-call", c.Pos(ev.Pos), d, t)
					}
					if isCallOut(fo, ev) && ls[i].Has(fo.LockPath, false) {
						d, t := c.pathDetail(fo, p, "call-out while the keyLocks mutex is held: "+ev.String())
						r.Bad("R04.3", cons, "callout-under-lock", c.Pos(ev.Pos), d, t)
					}
				}
			}
			// the critical section must be closed at the end of the sequence
			if n := len(evs); n > 0 {
				final := ls[n-1].clone()
				if last := evs[n-1]; last.Kind == pw.EvLock && last.Path == fo.LockPath {
					if last.Op == "Unlock" {
						final[fo.LockPath]--
					} else {
						final[fo.LockPath]++
					}
				}
				if final.Has(fo.LockPath, false) {
					d, t := c.pathDetail(fo, p, "path ends with the keyLocks mutex still held")
					r.Bad("R04.3", cons, "lock-leak", c.Pos(p.RetPos), d, t)
				}
			}
		}
		check(p.Events, ls, false)
		for _, g := range goEvents(p) {
			for _, sp := range g.Sub {
				nSpawn++
				check(sp.Events, Locksets(sp.Events, nil), true)
				// R04.4 / R04.5
				all := append(append([]*pw.Event{}, p.Events...), sp.Events...)
				for _, ev := range sp.Events {
					touches := func(v *pw.Val) bool {
						for x := v; x != nil; x = x.Src {
							if aliases(x, fo.Key) {
								return true
							}
							if x.Kind != pw.KConv && x.Kind != pw.KSlice {
								break
							}
						}
						return false
					}
					var vals []*pw.Val
					switch ev.Kind {
					case pw.EvMapDelete, pw.EvMapLookup, pw.EvMapInsert:
						vals = []*pw.Val{ev.Key}
						nSpawnKeyed++
					case pw.EvCall:
						vals = ev.Args
						for _, a := range ev.Args {
							if a != nil && a.Kind == pw.KAlloc {
								vals = append(vals, a.Elems...)
							}
						}
						if strings.HasPrefix(ev.Role, "Backend") || strings.HasPrefix(ev.Role, "Errors") {
							nSpawnKeyed++
							if len(ev.Args) > 1 && !isFreshCopyOf(all, ev.Args[1], fo.Key) {
								d, t := c.pathDetail(fo, p, fmt.Sprintf("%s in the background goroutine is not keyed by a private copy of the key: %s", ev.Role, ev.Args[1]))
								r.Bad("R04.4", cons, "bg-key-not-copy-"+ev.Role, c.Pos(ev.Pos), d, t)
							}
						}
					}
					for _, v := range vals {
						if touches(v) {
							d, t := c.pathDetail(fo, p, "the background goroutine reads the caller's key slice after Get may have returned: "+ev.String())
							r.Bad("R04.4", cons, "bg-uses-caller-key", c.Pos(ev.Pos), d, t)
							break
						}
					}
					if isBuilderCall(fo, ev) || ev.Kind == pw.EvCall && ev.Role == "BackendWrite" || ev.Kind == pw.EvCall && ev.Role == "ErrorsWrite" {
						cv := (*pw.Val)(nil)
						if len(ev.Args) > 0 {
							cv = ev.Args[0]
							if ev.Role == "ErrorsWrite" && isTTLChild(cv) && len(cv.Ev.Args) > 0 {
								cv = cv.Ev.Args[0] // failure cache entries get their own TTL cell
							}
						}
						if cv == nil || !isDetachedOf(cv, fo.Ctx) {
							d, t := c.pathDetail(fo, p, "background "+ev.String()+" does not run under detachedContext{caller ctx}")
							r.Bad("R04.5", cons, "bg-ctx-not-detached", c.Pos(ev.Pos), d, t)
						}
					}
				}
			}
		}
	}
	r.Count("blocking_ops_checked:"+cons, nBlock)
	r.Count("spawned_paths:"+cons, nSpawn)
	r.Count("spawned_keyed_ops:"+cons, nSpawnKeyed)
	if nSpawn == 0 || nSpawnKeyed == 0 {
		r.Unknown("R04.4", cons, "no spawned closure / no keyed operation in it found (vacuous)")
	}
	for _, rule := range []string{"R04.3", "R04.4", "R04.5"} {
		if !hasViolation(r.Obls, rule, cons) {
			r.OK(rule, cons, fmt.Sprintf("%d blocking ops, %d spawned paths, %d keyed ops in spawned paths", nBlock, nSpawn, nSpawnKeyed))
		}
	}
}

// isDetachedOf: v is detachedContext{parent: ctx} (possibly of a context derived from ctx by value-adding wrappers).
func isDetachedOf(v, ctx *pw.Val) bool {
	if v == nil || v.Kind != pw.KAlloc || namedTypeName(v.Type) != "detachedContext" {
		return false
	}
	return derivedCtx(soleField(v), ctx)
}

// derivedCtx: v is ctx or a value-adding wrapper of it (WithTTL / context.WithValue / withoutSkipRead).
func derivedCtx(v, ctx *pw.Val) bool {
	for i := 0; v != nil && i < 6; i++ {
		if v == ctx {
			return true
		}
		if v.Kind == pw.KCall && v.Ev != nil && len(v.Ev.Args) > 0 {
			switch v.Ev.Role {
			case "Repo:WithTTL", "Std:context.WithValue", "Repo:WithSkipRead", "Repo:withoutSkipRead":
				v = v.Ev.Args[0]
				continue
			}
		}
		return false
	}
	return false
}

// soleField returns the only field of a one-field struct literal (the wrapped parent of detachedContext), whatever its name.
func soleField(v *pw.Val) *pw.Val {
	if len(v.Fields) == 1 {
		for _, f := range v.Fields {
			return f
		}
	}
	if len(v.Fields) == 0 && len(v.Elems) == 1 {
		return v.Elems[0]
	}
	return nil
}
