#!/bin/bash
# usage: try_round.sh <seed worktree dir> — for seed1..3.diff in the worktree: which quick checks report it (own property first)
D="$1"; P=$(basename "$D")
for n in 1 2 3; do
  f="$D/seed$n.diff"; [ -f "$f" ] || continue
  out=$(/verif/tools/try_neutral.sh "$D" "$f" 2>&1)
  echo "=== $P seed$n: $(echo "$out" | grep -o '^--- C[0-9]* exit=[0-9]*' | sed 's/--- //' | tr '\n' ' ')"
  echo "$out" | grep -A4 -- "--- $P exit" | grep "violated\|UNDECIDED\|BROKEN" | cut -c1-260 | head -4
done
