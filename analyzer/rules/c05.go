package rules

import (
	"fmt"
	"go/ast"
	"go/types"
	"math/big"
	"strings"

	"cachelint/pw"
)

func init() { register("C05", checkC05) }

func checkC05(c *Ctx) {
	r := c.R
	r.Explanation = "Static event-order analysis on every feasible path of both Get implementations and of the two constructors. Decides the " +
		"mechanism behind build economy: (R05.1) with SyncRead the only backend read happens after the key-lock election and before any " +
		"refresh/build, and a hit returns without building; (R05.2) a successful build stores the built value under the key before the " +
		"key lock is released, so the next elected owner reads it; (R05.3) a failed build is written to the failure cache (when enabled) " +
		"before the release, and only non-nil errors are ever written there; (R05.4) every build is preceded on its path by a failure-cache " +
		"lookup for the key when the cache is enabled, and a hit reaches no builder; (R05.5) with FailedUpdateTTL<=-1 the failure cache is " +
		"neither read nor written, and the constructor creates it whenever the configuration enables it; (R05.6) the failure cache's TTL " +
		"is the configured FailedUpdateTTL (20s default). Does not decide wall-clock durations (C10's formula applies to the failure cache " +
		"as to any backend) nor exact build counts under real schedules."
	r.Rule("R05.1", "SyncRead: single backend read, inside the per-key section, before refresh/build; hit ⇒ no build", 2)
	r.Rule("R05.2", "publish before release: successful build ⇒ BackendWrite(key, built value) after the builder and before the release", 2)
	r.Rule("R05.3", "failures cached before release: builder error ∧ FailedUpdateTTL>-1 ⇒ ErrorsWrite(key, builder error) before the release", 2)
	r.Rule("R05.4", "failure cache consulted before every build; a hit reaches no builder", 2)
	r.Rule("R05.5", "disabled means disabled (no Errors access when FailedUpdateTTL<=-1); constructor creates Errors whenever enabled", 4)
	r.Rule("R05.7", "single flight: atomic election, builder only under ownership, key lock held until the build is over (obligations of C01 R01.2–R01.4)", 6)
	r.Rule("R05.6", "configuration flow: Errors.TimeToLive is the configured FailedUpdateTTL (20s default) and failures are written under a private default-TTL cell, so they expire after FailedUpdateTTL", 5)
	r.NotDecided = []string{"wall-clock duration of failure suppression", "exact build counts under real schedules"}
	for _, sib := range siblings {
		fo := c.failover(sib)
		if fo.Err != nil {
			r.Unknown("R05.*", sib+".Get", fo.Err.Error())
			continue
		}
		c.c05Sibling(fo)
		c.c05Constructor(sib)
		c.ctorDefaults("R05.6", "New"+sib, "config", map[string]*big.Rat{"FailedUpdateTTL": big.NewRat(20*1000000000, 1)})
	}
	// the failure's own TTL cell relies on WithTTL(ctx, DefaultTTL, false) installing a fresh cell (R06.3)
	c.borrow("C06", func() { c.c06WithTTL() }, func(o *coreObl) (string, bool) { return "R05.6", o.Rule == "R06.3" })
	// "while its result stays fresh": the stale refresh must not lower the TTL the rebuilt value is stored with (C06 R06.2)
	c.borrow("C06", func() {
		for _, sib := range siblings {
			if fo := c.failover(sib); fo.Err == nil {
				c.c06Sibling(fo)
			}
		}
	}, func(o *coreObl) (string, bool) { return "R05.2", o.Rule == "R06.2" })
	// "while its result stays fresh" / "the error is served from the failure cache": the default backend of both the value cache and
	// the failure cache keeps one entry per 64-bit index, so the stored result survives other keys' writes only as long as the
	// index is the xxhash of the entire key (C07 R07.1): a weaker index makes ordinary distinct keys displace each other
	c.borrowKinds("C07", func() {
		for _, b := range backends {
			c.c07Index(b)
		}
	}, "R05.2", "backends:one-entry-per-key-hash", []string{"R07.1"}, "hash-of-key", "restore-index")
	// … and the result (or the failure) of a build is stored: Write performs its store on every path, whatever the caller's
	// context became during the build (C08 R08.3), also when the key is already present (no LoadOrStore that keeps the old entry)
	c.borrowKinds("C08", func() {
		for _, b := range backends {
			c.c08Backend(b)
		}
	}, "R05.2", "backends.Write:stores", []string{"R08.3"}, "write-effect")
	// "while its result stays fresh": the janitor removes an entry only when it has an expiry and that expiry lies before the
	// boundary — never-expiring results (UnlimitedTTL backends) survive every cycle (C11 R11.2)
	c.borrow("C11", func() {
		for _, b := range backends {
			c.c11DeleteExpired(b)
		}
	}, func(o *coreObl) (string, bool) { return "R05.2", o.Rule == "R11.2" })
	// R05.7: "a burst costs exactly one successful build" needs the election of C01: one owner per key, the builder only under
	// ownership, the key lock held until the (possibly background) build is over
	c.borrow("C01", func() {
		for _, sib := range siblings {
			if fo := c.failover(sib); fo.Err == nil {
				c.c01Sibling(fo)
			}
		}
	}, func(o *coreObl) (string, bool) {
		return "R05.7", o.Rule == "R01.2" || o.Rule == "R01.3" || o.Rule == "R01.4"
	})
	// … and the builder is run by the owner only: a waiter that is handed the builder (re-entering Get once the owner gave up) builds
	// again for every waiter of the burst (C01 R01.1)
	c.borrowKinds("C01", func() {
		for _, sib := range siblings {
			if fo := c.failover(sib); fo.Err == nil {
				c.c01Sibling(fo)
			}
		}
	}, "R05.7", "Failover.Get:builder-with-owner-only", []string{"R01.1"}, "builder-escapes")
	// the result of a background build is stored under the key of the call: the background goroutine writes with a private copy of
	// that key, not with the caller's slice the caller is free to reuse after Get returned — else the result lands under whatever
	// the buffer holds by then and the requested key is built again (C04 R04.4)
	c.borrowKinds("C04", func() {
		for _, sib := range siblings {
			if fo := c.failover(sib); fo.Err == nil {
				c.c04Sibling(fo)
			}
		}
	}, "R05.2", "Failover.Get:background-result-under-own-key", []string{"R04.4"}, "BackendWrite", "ErrorsWrite")
	// "until FailedUpdateTTL (minus jitter) has elapsed": the jitter a Write applies is the documented T + J·T·(r − 1/2) (C10 R10.2)
	c.borrowKinds("C10", func() { c.c10Jitter() }, "R05.6", "Trait.TTL:jitter", []string{"R10.2"}, "jitter-formula", "rand-count", "jitter-untested", "jitter-when-disabled")
	// "the error is served from the failure cache" — to the Gets waiting on the key lock as well: an owner that leaves with the cached
	// failure publishes it (C02 R02.2), else its waiters receive a zero value with a nil error
	for _, sib := range siblings {
		if fo := c.failover(sib); fo.Err == nil {
			fo := fo
			c.borrowKinds("C02", func() { c.c02Sibling(fo) }, "R05.4", sib+".Get:cached-failure-published", []string{"R02.2"}, "ErrorsRead-error")
		}
	}
	c.c05FailureCacheKept()
}

// c05FailureCacheKept: "the error is served from the failure cache for FailedUpdateTTL": nothing in the failover frontend removes or
// expires entries of the failure cache (who-may rule over the Errors field: Read and Write only).
func (c *Ctx) c05FailureCacheKept() {
	r := c.R
	info := c.Pkg.TypesInfo
	n := 0
	bad := false
	c.eachFuncDecl(func(fd *ast.FuncDecl, fn *types.Func) {
		fname := strings.TrimPrefix(pw.FuncName(fn), "cache.")
		if !strings.HasPrefix(fname, "Failover.") && !strings.HasPrefix(fname, "FailoverOf.") || c.isNewAPI(fn) {
			return
		}
		ast.Inspect(fd.Body, func(x ast.Node) bool {
			call, ok := x.(*ast.CallExpr)
			if !ok {
				return true
			}
			sel, ok := ast.Unparen(call.Fun).(*ast.SelectorExpr)
			if !ok {
				return true
			}
			inner, ok := ast.Unparen(sel.X).(*ast.SelectorExpr)
			if !ok {
				return true
			}
			fv, _ := info.Uses[inner.Sel].(*types.Var)
			if fv == nil || !fv.IsField() || fv.Name() != actualField("Failover", "Errors") {
				return true
			}
			n++
			switch sel.Sel.Name {
			case "Delete", "DeleteAll", "ExpireAll", "InvalidateByLabels", "Restore":
				bad = true
				r.Bad("R05.4", fname, "failure-cache-entry-removed", c.Pos(call.Pos()), "the failover frontend calls "+sel.Sel.Name+" on its failure cache: a recorded failure no longer suppresses builds for FailedUpdateTTL", nil)
			}
			return true
		})
	})
	if n == 0 {
		r.Unknown("R05.4", "Failover.Errors", "vacuous: no use of the failure cache found")
	} else if !bad {
		r.OK("R05.4", "Failover.Errors", fmt.Sprintf("%d uses of the failure cache in the frontend, none removes or expires entries", n))
	}
}

type seqEv struct {
	ev *pw.Event
	bg bool
}

// fullSeqs returns, for a path, the complete event sequences of every execution (main events, and for each spawned
// closure path main-up-to-go + closure events), each paired with the path supplying the facts.
func fullSeqs(p *pw.Path) (seqs [][]seqEv, facts []*pw.Path) {
	var main []seqEv
	for _, ev := range p.Events {
		main = append(main, seqEv{ev, false})
	}
	seqs = append(seqs, main)
	facts = append(facts, p)
	for _, g := range goEvents(p) {
		for _, sp := range g.Sub {
			var s []seqEv
			for _, ev := range p.Events {
				s = append(s, seqEv{ev, false})
				if ev == g {
					break
				}
			}
			for _, ev := range sp.Events {
				s = append(s, seqEv{ev, true})
			}
			seqs = append(seqs, s)
			facts = append(facts, sp)
		}
	}
	return
}

func (c *Ctx) c05Sibling(fo *FO) {
	r := c.R
	cons := fo.Name + ".Get"
	_ = fo.E.IntConst(-1)
	nSync, nBuilds, nFail, nHits := 0, 0, 0, 0
	for _, p := range fo.Paths {
		cl, err := fo.classify(p)
		if err != nil {
			r.Unknown("R05.*", cons, err.Error())
			return
		}
		// R05.2: the stored result stays: after the build's store nothing of this Get writes the key again. All writes of a Get are on
		// the owner's one sequence (refresh, then build, main or background); a second goroutine started beside the build (a "keep the
		// stale value alive" ticker) can write the stale value over the built one
		for _, g := range goEvents(p) {
			for _, sp := range g.Sub {
				for _, g2 := range goEvents(sp) {
					for _, sp2 := range g2.Sub {
						for _, ev := range sp2.Events {
							if ev.Kind == pw.EvCall && (ev.Role == "BackendWrite" || ev.Role == "ErrorsWrite") {
								d, t := c.pathDetail(fo, p, "a goroutine started beside the background build writes to the cache ("+ev.Role+"): it is not ordered with the build's store and can overwrite the built value with the stale one")
								r.Bad("R05.2", cons, "write-beside-the-build", c.Pos(ev.Pos), d, t)
							}
						}
					}
				}
			}
		}
		// R05.1
		if fo.cfgBool(p, "SyncRead") == triTrue {
			nSync++
			reads := 0
			for i, ev := range p.Events {
				if ev.Kind == pw.EvCall && ev.Role == "BackendRead" {
					reads++
					if cl.lookup == nil || i < cl.lookupI {
						d, t := c.pathDetail(fo, p, "SyncRead: backend read before the key-lock election")
						r.Bad("R05.1", cons, "read-before-election", c.Pos(ev.Pos), d, t)
					}
					for j := 0; j < i; j++ {
						if e2 := p.Events[j]; isBuilderCall(fo, e2) || e2.Kind == pw.EvCall && e2.Role == "BackendWrite" {
							d, t := c.pathDetail(fo, p, "SyncRead: backend read after refresh/build")
							r.Bad("R05.1", cons, "read-after-build", c.Pos(ev.Pos), d, t)
						}
					}
					if nilTri(p, ev.Results[1]) == triTrue {
						for _, e2 := range p.Events[i:] {
							if isBuilderCall(fo, e2) || e2.Kind == pw.EvGo {
								d, t := c.pathDetail(fo, p, "SyncRead: value found in the critical section, yet the path builds")
								r.Bad("R05.1", cons, "build-after-hit", c.Pos(e2.Pos), d, t)
							}
						}
					}
				}
			}
			if reads != 1 && cl.lookup != nil && !cl.found {
				d, t := c.pathDetail(fo, p, fmt.Sprintf("SyncRead owner path performs %d backend reads, expected exactly one inside the section", reads))
				r.Bad("R05.1", cons, "read-count", c.Pos(p.RetPos), d, t)
			}
			// a Get that finds the key locked reads inside the section as well: the value the owner refreshed (or just stored) serves it
			// without waiting for a builder it does not depend on — and a builder that reads its own key through the same instance
			// is not made to wait for itself
			if reads != 1 && cl.lookup != nil && cl.found {
				d, t := c.pathDetail(fo, p, fmt.Sprintf("SyncRead waiter path performs %d backend reads, expected exactly one inside the section", reads))
				r.Bad("R05.1", cons, "waiter-read-count", c.Pos(p.RetPos), d, t)
			}
		}
		// R05.2 – R05.5 on complete executions
		seqs, facts := fullSeqs(p)
		for si, seq := range seqs {
			fp := facts[si]
			if si == 0 && len(seqs) > 1 {
				// the main sequence alone is also an execution prefix; builder events in it are sync builds
			}
			enabled := triUnknown
			if fv := fo.cfgVal(fp, "FailedUpdateTTL"); fv != nil {
				enabled = gtMinus1(fp, fo.E, fv)
			}
			relIdx := -1
			for i, se := range seq {
				if isRelease(se.ev) && relIdx < 0 {
					relIdx = i
				}
			}
			errorsReadIdx, errorsHit := -1, triUnknown
			for i, se := range seq {
				ev := se.ev
				if ev.Kind == pw.EvCall && (ev.Role == "ErrorsRead" || ev.Role == "ErrorsWrite") {
					if enabled != triTrue {
						d, t := c.pathDetail(fo, p, ev.Role+" on a path where FailedUpdateTTL > -1 is not established (Errors is nil when the failure cache is disabled)")
						r.Bad("R05.5", cons, "errors-access-unguarded-"+ev.Role, c.Pos(ev.Pos), d, t)
					}
					if ev.Role == "ErrorsRead" {
						errorsReadIdx = i
						errorsHit = nilTri(fp, ev.Results[1])
						if errorsHit == triTrue {
							nHits++
						}
					}
					if ev.Role == "ErrorsWrite" && len(ev.Args) > 0 {
						// R05.6: the failure is stored with the failure cache's own TTL, not with a TTL carried by the caller's context
						cv := ev.Args[0]
						ok := isTTLChild(cv) && len(cv.Ev.Args) == 3 && fp.Rel(cv.Ev.Args[1], fo.E.IntConst(0)) == pw.REq
						if ok {
							if t, known := fp.Truth(cv.Ev.Args[2]); !known || t {
								ok = false
							}
						}
						if !ok {
							d, t := c.pathDetail(fo, p, "the failure is written under a context that may carry the caller's (or builder's) value TTL: it then expires after that TTL instead of FailedUpdateTTL")
							r.Bad("R05.6", cons, "failure-ttl-from-context", c.Pos(ev.Pos), d, t)
						}
					}
					if ev.Role == "ErrorsWrite" && len(ev.Args) > 2 {
						// only a failure of this execution's builder is cached: re-caching an error served from the failure cache
						// renews its TTL on every Get (the builder is then never tried again while the key is requested)
						fromBuilder := func(v *pw.Val) bool {
							return v != nil && v.Kind == pw.KCall && v.Ev != nil && isBuilderCall(fo, v.Ev) && v.Idx == 1
						}
						ev2 := ev.Args[2]
						okSrc := fromBuilder(ev2)
						if !okSrc && ev2 != nil && ev2.Kind == pw.KCall && ev2.Ev != nil && ev2.Ev.Callee != nil && pw.FuncName(ev2.Ev.Callee) == "fmt.Errorf" {
							for _, a := range ev2.Ev.Args {
								if fromBuilder(a) {
									okSrc = true
								}
								for _, el := range a.Elems {
									if fromBuilder(el) {
										okSrc = true
									}
								}
							}
						}
						if !okSrc {
							d, t := c.pathDetail(fo, p, "the error written to the failure cache is not the error this execution's builder returned: "+ev2.String())
							r.Bad("R05.3", cons, "cached-error-not-from-builder", c.Pos(ev.Pos), d, t)
						}
						if n, known := fp.NilFact(ev.Args[2]); !known || n {
							d, t := c.pathDetail(fo, p, "a possibly nil error is written to the failure cache")
							r.Bad("R05.3", cons, "nil-error-cached", c.Pos(ev.Pos), d, t)
						}
					}
				}
				if !isBuilderCall(fo, ev) {
					continue
				}
				if si == 0 && se.bg {
					continue
				}
				nBuilds++
				// R05.4
				if enabled != triFalse {
					if errorsReadIdx < 0 || errorsReadIdx > i {
						d, t := c.pathDetail(fo, p, "builder invoked without consulting the failure cache first")
						r.Bad("R05.4", cons, "build-without-lookup", c.Pos(ev.Pos), d, t)
					} else if errorsHit == triTrue {
						d, t := c.pathDetail(fo, p, "builder invoked although the failure cache holds a recent failure for the key")
						r.Bad("R05.4", cons, "build-after-hit", c.Pos(ev.Pos), d, t)
					}
				}
				berr := ev.Results[1]
				switch nilTri(fp, berr) {
				case triTrue:
					// R05.2
					ok := false
					for j := i + 1; j < len(seq) && (relIdx < 0 || j < relIdx); j++ {
						e2 := seq[j].ev
						if e2.Kind == pw.EvCall && e2.Role == "BackendWrite" && len(e2.Args) > 2 && e2.Args[2] == ev.Results[0] {
							ok = true
						}
					}
					if !ok {
						d, t := c.pathDetail(fo, p, "built value is not written to the backend before the key lock is released")
						r.Bad("R05.2", cons, "no-write-before-release", c.Pos(ev.Pos), d, t)
					}
				case triFalse:
					nFail++
					if enabled == triTrue {
						ok := false
						for j := i + 1; j < len(seq) && (relIdx < 0 || j < relIdx); j++ {
							e2 := seq[j].ev
							if e2.Kind == pw.EvCall && e2.Role == "ErrorsWrite" && len(e2.Args) > 2 && e2.Args[2] == berr {
								ok = true
							}
						}
						if !ok {
							d, t := c.pathDetail(fo, p, "builder error is not written to the failure cache before the key lock is released")
							r.Bad("R05.3", cons, "failure-not-cached", c.Pos(ev.Pos), d, t)
						}
					}
				default:
					d, t := c.pathDetail(fo, p, "builder error never tested")
					r.Bad("R05.2", cons, "builder-error-unchecked", c.Pos(ev.Pos), d, t)
				}
			}
		}
	}
	r.Count("syncread_paths:"+cons, nSync)
	r.Count("build_executions:"+cons, nBuilds)
	r.Count("failed_build_executions:"+cons, nFail)
	r.Count("failure_cache_hits:"+cons, nHits)
	if nSync == 0 || nBuilds == 0 || nFail == 0 || nHits == 0 {
		r.Unknown("R05.*", cons, fmt.Sprintf("vacuous: syncread=%d builds=%d failed=%d hits=%d", nSync, nBuilds, nFail, nHits))
	}
	for _, rule := range []string{"R05.1", "R05.2", "R05.3", "R05.4", "R05.5", "R05.6"} {
		if !hasViolation(r.Obls, rule, cons) {
			r.OK(rule, cons, fmt.Sprintf("%d SyncRead paths, %d build executions (%d failing), %d failure-cache hits", nSync, nBuilds, nFail, nHits))
		}
	}
}

// c05Constructor checks Errors creation and its TTL in NewFailover / NewFailoverOf.
func (c *Ctx) c05Constructor(sib string) {
	r := c.R
	name := "New" + sib
	_, fn := c.funcDecl(name)
	if fn == nil {
		r.Unknown("R05.5", name, "constructor does not resolve")
		return
	}
	pol := pw.Policy{Inline: inlineUnexported, MaxDepth: 2, Pure: basePure, Role: BaseRole}
	e := pw.New(c.Pkg, pol)
	paths, err := e.Run(fn)
	c.curEngine = e
	paths = c.dropFeaturePaths(name, paths)
	if err != nil {
		r.Unknown("R05.5", name, err.Error())
		return
	}
	c.R.Func(name)
	_ = e.IntConst(-1)
	zero := e.IntConst(0)
	nWith, nWithout := 0, 0
	for _, p := range paths {
		if len(p.Unsup) > 0 {
			r.Unknown("R05.5", name, "unmodelled construct: "+p.Unsup[0])
			return
		}
		var write *pw.Event
		for _, ev := range p.Events {
			if ev.Kind == pw.EvFieldWrite && ev.Field != nil && fname(ev.Field) == "Errors" {
				write = ev
			}
		}
		// the FailedUpdateTTL value in effect: last write or the (possibly havoc'd) field read
		var ttl *pw.Val
		var orig *pw.Val
		for _, ev := range p.Events {
			if ev.Field != nil && fname(ev.Field) == "FailedUpdateTTL" {
				switch ev.Kind {
				case pw.EvFieldWrite:
					if ev.Value != nil && ev.Value.Type != nil {
						if _, isStruct := ev.Value.Type.Underlying().(*types.Struct); isStruct {
							continue
						}
					}
					ttl = ev.Value
				case pw.EvFieldRead:
					if ttl == nil {
						ttl = ev.Value
					}
					if orig == nil {
						orig = ev.Value
					}
				}
			}
		}
		if ttl == nil {
			r.Unknown("R05.5", name, "constructor never reads FailedUpdateTTL")
			return
		}
		disabled := gtMinus1(p, e, ttl) == triFalse
		if write == nil {
			nWithout++
			if !disabled {
				r.Bad("R05.5", name, "errors-not-created", c.Pos(p.RetPos), "the failure cache is not created on a path that does not establish FailedUpdateTTL <= -1 (nil dereference in Get when enabled)", shortTrace(p))
			}
			continue
		}
		nWith++
		if disabled {
			r.Bad("R05.5", name, "errors-created-when-disabled", c.Pos(write.Pos), "failure cache created although FailedUpdateTTL <= -1", shortTrace(p))
		}
		// R05.6: TimeToLive of the literal passed to the backend constructor
		ok := false
		if v := write.Value; v != nil && v.Kind == pw.KCall && len(v.Ev.Args) > 0 {
			for _, a := range v.Ev.Args {
				for _, cand := range append([]*pw.Val{a}, a.Elems...) {
					if cand != nil && cand.Kind == pw.KFuncRef && cand.Recv != nil && cand.Recv.Fields != nil {
						if cand.Recv.Fields["TimeToLive"] == ttl {
							ok = true
						}
					}
				}
			}
		}
		if !ok {
			r.Bad("R05.6", name, "errors-ttl", c.Pos(write.Pos), "the failure cache is not configured with TimeToLive = FailedUpdateTTL", shortTrace(p))
		}
		// nothing else shortens the life of a cached failure: default jitter (±5%), no eviction limits
		if v := write.Value; v != nil && v.Kind == pw.KCall {
			for _, a := range v.Ev.Args {
				for _, cand := range append([]*pw.Val{a}, a.Elems...) {
					if cand != nil && cand.Kind == pw.KFuncRef && cand.Recv != nil && cand.Recv.Fields != nil {
						for _, f := range []string{"ExpirationJitter", "HeapInUseSoftLimit", "SysMemSoftLimit", "CountSoftLimit", "EvictFraction", "EvictionStrategy", "EvictionNeeded"} {
							if fv, set := cand.Recv.Fields[f]; set && fv != nil {
								r.Bad("R05.6", name, "errors-config:"+f, c.Pos(write.Pos), "the failure cache is configured with "+f+": cached failures then expire or are evicted before FailedUpdateTTL (minus the default jitter) has elapsed", shortTrace(p))
							}
						}
					}
				}
			}
		}
		// default 20s when zero
		if orig != nil && orig != ttl {
			if p.Rel(orig, zero)&^pw.REq != 0 {
				r.Bad("R05.6", name, "default-applied-to-nonzero", c.Pos(write.Pos), "FailedUpdateTTL overwritten although it was not zero", shortTrace(p))
			}
			if ttl.Kind != pw.KArith && ttl.Kind != pw.KConst {
				r.Bad("R05.6", name, "default-not-constant", c.Pos(write.Pos), "default FailedUpdateTTL is not a constant", shortTrace(p))
			}
		}
	}
	r.Count("constructor_paths:"+name, len(paths))
	if nWith == 0 || nWithout == 0 {
		r.Unknown("R05.5", name, fmt.Sprintf("vacuous: %d paths create Errors, %d do not", nWith, nWithout))
	}
	for _, rule := range []string{"R05.5", "R05.6"} {
		if !hasViolation(r.Obls, rule, name) {
			r.OK(rule, name, fmt.Sprintf("%d paths (%d create Errors, %d do not)", len(paths), nWith, nWithout))
		}
	}
}
