#!/bin/bash
# runs the thorough tier of every property sequentially into a scratch verif dir and prints a summary of silent mutants
cd "$(dirname "$0")/.." || exit 2
export GOFLAGS=-mod=mod GOPROXY=off GOSUMDB=off GOTOOLCHAIN=local GOWORK=off
(cd analyzer && go build -o ../bin/cachelint ./cmd/cachelint) || exit 2
OUT=${1:-/tmp/thorough_out}; mkdir -p "$OUT"; cp known_findings.json "$OUT/"
for p in ${2:-C01 C02 C03 C04 C05 C06 C07 C08 C09 C10 C11 C12 C13 C14 C15 C16 C17 C18}; do
  /usr/bin/time -f "$p wall=%es" ./bin/cachelint -prop $p -tier thorough -verif "$OUT" 2>&1 | grep -E "thorough:|BROKEN|VIOLATION|wall=" 
done
