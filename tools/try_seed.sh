#!/bin/bash
# usage: try_seed.sh <patch.diff> <prop> [<prop>...]   — applies the patch to /repo, runs the checks (evidence into a scratch dir), reverts.
set -u
P="$1"; shift
SCR=$(mktemp -d /tmp/tryseed.XXXX)
git -C /repo apply "$P" || { echo "APPLY FAILED $P"; exit 3; }
trap 'git -C /repo checkout -- . ; rm -rf "$SCR"' EXIT
cp /verif/known_findings.json "$SCR/" 2>/dev/null
for id in "$@"; do
  ${CL:-/verif/bin/cachelint} -repo /repo -verif "$SCR" -prop "$id" 2>&1 | grep -E "quick:|violated|VIOLATION|BROKEN|UNDECIDED|KNOWN" | cut -c1-330
done
