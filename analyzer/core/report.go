package core

import (
	"encoding/json"
	"fmt"
	"os"
	"path/filepath"
	"sort"
	"strings"
	"time"
)

// Status of an obligation.
type Status string

// Obligation statuses.
const (
	Discharged Status = "discharged"
	Violated   Status = "violated"
	Undecided  Status = "undecided"
)

// Obligation is one rule instance on one construct.
type Obligation struct {
	Rule      string   `json:"rule"`
	Construct string   `json:"construct"`
	What      string   `json:"what,omitempty"`
	Status    Status   `json:"status"`
	Key       string   `json:"key,omitempty"` // stable identity of a violation: rule|construct|kind
	Pos       string   `json:"pos,omitempty"`
	Detail    string   `json:"detail,omitempty"`
	Trace     []string `json:"trace,omitempty"`
	Known     bool     `json:"known_finding,omitempty"`
}

// Report collects the obligations of one property run.
type Report struct {
	Property    string
	Tier        string
	Seed        int64
	Start       time.Time
	Obls        []*Obligation
	Counters    map[string]int
	Rules       map[string]string // rule id → text
	MinInst     map[string]int    // rule id → minimum number of instances confirmed by hand
	Assumptions []string
	NotDecided  []string
	Notes       []string
	Functions   map[string]bool
	Explanation string
	Exhaustive  bool
	Extra       map[string]any
	// Alias maps rule ids while a shared rule runs on behalf of another property (e.g. R07.2 → R10.4).
	Alias      map[string]string
	broken     []string
	minChecked bool
}

// NewReport creates a report.
func NewReport(prop, tier string, seed int64) *Report {
	return &Report{Property: prop, Tier: tier, Seed: seed, Start: time.Now(), Counters: map[string]int{},
		Rules: map[string]string{}, MinInst: map[string]int{}, Functions: map[string]bool{}, Extra: map[string]any{}, Exhaustive: true}
}

// Rule registers a rule text and the minimum number of instances expected.
func (r *Report) Rule(id, text string, min int) {
	r.Rules[id] = text
	r.MinInst[id] = min
}

// OK records a discharged obligation.
func (r *Report) OK(rule, construct, what string) {
	rule = r.alias(rule)
	r.Obls = append(r.Obls, &Obligation{Rule: rule, Construct: construct, What: what, Status: Discharged})
}

// Bad records a violated obligation. kind is a short stable word describing what fails (no line numbers).
func (r *Report) Bad(rule, construct, kind, pos, detail string, trace []string) {
	rule = r.alias(rule)
	key := rule + "|" + construct + "|" + kind
	for _, o := range r.Obls {
		if o.Status == Violated && o.Key == key {
			return // one finding per key; first (shortest) trace kept
		}
	}
	r.Obls = append(r.Obls, &Obligation{Rule: rule, Construct: construct, What: kind, Status: Violated, Key: key, Pos: pos, Detail: detail, Trace: trace})
}

// Unknown records an undecided obligation (the run is then broken, never green).
func (r *Report) Unknown(rule, construct, why string) {
	rule = r.alias(rule)
	r.Obls = append(r.Obls, &Obligation{Rule: rule, Construct: construct, Status: Undecided, Detail: why})
}

func (r *Report) alias(rule string) string {
	if a, ok := r.Alias[rule]; ok {
		return a
	}
	return rule
}

// CheckMinimums applies the vacuity guard (idempotent).
func (r *Report) CheckMinimums() {
	if r.minChecked {
		return
	}
	r.minChecked = true
	perRule := map[string]int{}
	for _, o := range r.Obls {
		perRule[o.Rule]++
	}
	var ids []string
	for id := range r.MinInst {
		ids = append(ids, id)
	}
	sort.Strings(ids)
	for _, id := range ids {
		if perRule[id] < r.MinInst[id] {
			r.Broken(fmt.Sprintf("rule %s matched %d instances, expected at least %d (vacuity guard)", id, perRule[id], r.MinInst[id]))
		}
	}
}

// BrokenReasons lists the infrastructure failures recorded so far.
func (r *Report) BrokenReasons() []string { return r.broken }

// Broken marks the run as broken for an infrastructure reason.
func (r *Report) Broken(why string) { r.broken = append(r.broken, why) }

// Count adds to a named coverage counter.
func (r *Report) Count(name string, n int) { r.Counters[name] += n }

// Func notes a function as analysed.
func (r *Report) Func(name string) { r.Functions[name] = true }

// Finding is an entry of known_findings.json.
type Finding struct {
	Property string `json:"property"`
	Key      string `json:"key"`
	What     string `json:"what"`
	Status   string `json:"status"` // "known" | "fixed"
	Commit   string `json:"commit,omitempty"`
}

// LoadFindings reads the committed known-findings file.
func LoadFindings(path string) ([]Finding, error) {
	b, err := os.ReadFile(path)
	if err != nil {
		if os.IsNotExist(err) {
			return nil, nil
		}
		return nil, err
	}
	var f struct {
		Findings []Finding `json:"findings"`
	}
	if err := json.Unmarshal(b, &f); err != nil {
		return nil, err
	}
	return f.Findings, nil
}

// Finish evaluates the report, writes evidence and replay files, prints the verdict lines and returns the exit code.
func (r *Report) Finish(verifDir string, findings []Finding) int {
	if r.NotDecided == nil {
		r.NotDecided = []string{}
	}
	if r.Notes == nil {
		r.Notes = []string{}
	}
	known := map[string]Finding{}
	for _, f := range findings {
		if f.Property == r.Property && f.Status == "known" {
			known[f.Key] = f
		}
	}
	r.CheckMinimums()
	perRule := map[string]int{}
	for _, o := range r.Obls {
		perRule[o.Rule]++
	}
	var viol, undec, disch, knownN int
	var violObls []*Obligation
	for _, o := range r.Obls {
		switch o.Status {
		case Discharged:
			disch++
		case Undecided:
			undec++
		case Violated:
			if _, ok := known[o.Key]; ok {
				o.Known = true
				knownN++
				continue
			}
			viol++
			violObls = append(violObls, o)
		}
	}
	sort.SliceStable(r.Obls, func(i, j int) bool {
		if r.Obls[i].Rule != r.Obls[j].Rule {
			return r.Obls[i].Rule < r.Obls[j].Rule
		}
		return r.Obls[i].Construct < r.Obls[j].Construct
	})
	// samples: every non-discharged obligation plus up to 3 discharged ones per rule
	var samples []any
	seen := map[string]int{}
	for _, o := range r.Obls {
		if o.Status == Discharged {
			if seen[o.Rule] >= 3 {
				continue
			}
			seen[o.Rule]++
		}
		samples = append(samples, o)
	}
	var ruleTexts []string
	var ruleIDs []string
	for id := range r.Rules {
		ruleIDs = append(ruleIDs, id)
	}
	sort.Strings(ruleIDs)
	perRuleOut := map[string]int{}
	for _, id := range ruleIDs {
		ruleTexts = append(ruleTexts, id+": "+r.Rules[id])
		perRuleOut[id] = perRule[id]
	}
	var fns []string
	for f := range r.Functions {
		fns = append(fns, f)
	}
	sort.Strings(fns)
	cov := map[string]any{
		"obligations":        len(r.Obls),
		"discharged":         disch,
		"violated_unlisted":  viol,
		"known_findings":     knownN,
		"undecided":          undec,
		"explanation":        r.Explanation,
		"rules":              ruleTexts,
		"instances_per_rule": perRuleOut,
		"not_decided":        r.NotDecided,
		"functions_analysed": fns,
		"counters":           r.Counters,
		"samples":            samples,
		"exhaustive":         r.Exhaustive,
		"checker_cmd":        fmt.Sprintf("/verif/check.sh %s %s", r.Property, r.Tier),
		"notes":              r.Notes,
	}
	for k, v := range r.Extra {
		cov[k] = v
	}
	if r.Assumptions == nil {
		r.Assumptions = []string{}
	}
	if r.NotDecided == nil {
		r.NotDecided = []string{}
	}
	if r.Notes == nil {
		r.Notes = []string{}
	}
	ev := map[string]any{
		"property_id": r.Property,
		"tier":        r.Tier,
		"seed":        r.Seed,
		"level":       "other",
		"coverage":    cov,
		"assumptions": r.Assumptions,
		"wall_s":      time.Since(r.Start).Seconds(),
		"violations":  viol,
	}
	_ = os.MkdirAll(filepath.Join(verifDir, "evidence"), 0o755)
	b, _ := json.MarshalIndent(ev, "", " ")
	evPath := filepath.Join(verifDir, "evidence", r.Property+".json")
	if err := os.WriteFile(evPath, b, 0o644); err != nil {
		fmt.Fprintln(os.Stderr, "cannot write evidence:", err)
		return 2
	}
	fmt.Printf("%s %s: %d obligations, %d discharged, %d known findings, %d violated, %d undecided (%.1fs)\n",
		r.Property, r.Tier, len(r.Obls), disch, knownN, viol, undec, time.Since(r.Start).Seconds())
	for _, o := range r.Obls {
		if o.Known {
			fmt.Printf("KNOWN-FINDING: property=%s %s %s: %s\n", r.Property, o.Key, o.Pos, known[o.Key].What)
		}
	}
	for _, n := range r.Notes {
		fmt.Println("note:", n)
	}
	code := 0
	if len(r.broken) > 0 || undec > 0 {
		for _, b := range r.broken {
			fmt.Printf("BROKEN: property=%s %s\n", r.Property, b)
		}
		for _, o := range r.Obls {
			if o.Status == Undecided {
				fmt.Printf("UNDECIDED: property=%s %s %s: %s\n", r.Property, o.Rule, o.Construct, o.Detail)
			}
		}
		// fail closed: an obligation that could not be decided, or a rule that lost its instances, means the property was NOT shown
		// to hold on this tree. The interface knows two outcomes; this is reported as a violation (kind "undecided"), with the
		// undecided obligations in the replay file, so that it is neither mistaken for a pass nor for a crashed check.
		code = 1
		if viol == 0 {
			_ = os.MkdirAll(filepath.Join(verifDir, "replay"), 0o755)
			rp := filepath.Join(verifDir, "replay", r.Property+".json")
			var und []map[string]string
			for _, o := range r.Obls {
				if o.Status == Undecided {
					und = append(und, map[string]string{"rule": o.Rule, "construct": o.Construct, "detail": o.Detail})
				}
			}
			rb, _ := json.MarshalIndent(map[string]any{"property": r.Property, "tier": r.Tier, "undecided": und, "broken": r.broken}, "", " ")
			_ = os.WriteFile(rp, rb, 0o644)
			fmt.Printf("VIOLATION property=%s replay=%s\n", r.Property, rp)
		}
	}
	if viol > 0 {
		_ = os.MkdirAll(filepath.Join(verifDir, "replay"), 0o755)
		rp := filepath.Join(verifDir, "replay", r.Property+".json")
		rb, _ := json.MarshalIndent(map[string]any{"property": r.Property, "tier": r.Tier, "violations": violObls}, "", " ")
		_ = os.WriteFile(rp, rb, 0o644)
		for _, o := range violObls {
			fmt.Printf("  violated %s at %s: %s\n", o.Key, o.Pos, firstLine(o.Detail))
		}
		fmt.Printf("VIOLATION property=%s replay=%s\n", r.Property, rp)
		code = 1
	}
	return code
}

func firstLine(s string) string {
	if i := strings.IndexByte(s, '\n'); i >= 0 {
		return s[:i]
	}
	return s
}
