package rules

import (
	"go/ast"
	"go/types"
	"strings"

	"cachelint/pw"
)

// Role anchors are unexported names of the subject (fields, helper types, helper functions). A consistent rename of one of them —
// or moving two fields into an unexported helper struct — does not change behaviour, so anchors that no longer resolve by name are
// re-identified by their shape (types and wiring) and mapped back to the canonical name the rules use. Exported names are API and are
// never re-identified. When a shape matches nothing or more than one candidate, the anchor stays unresolved (the rules then report
// undecided, never a violation).
type canonNames struct {
	field      map[*types.Var]string      // field → canonical field name
	fieldOwner map[*types.Var]string      // field → canonical owner type (for fields moved into a helper struct)
	typ        map[*types.TypeName]string // type → canonical type name
	actual     map[string]string          // canonical "Owner.field" → actual field name
	lockChain  map[string][]string        // sibling → actual field chain from the sibling struct to its key-lock mutex
	notes      []string
}

var cn = &canonNames{}

// fname is the canonical name of a field.
func fname(f *types.Var) string {
	if f == nil {
		return ""
	}
	if n, ok := cn.field[f.Origin()]; ok {
		return n
	}
	return f.Name()
}

// actualField returns the actual name of the field the rules know as owner.field.
func actualField(owner, field string) string {
	if a, ok := cn.actual[owner+"."+field]; ok {
		return a
	}
	return field
}

func canonTypeName(tn *types.TypeName) string {
	if n, ok := cn.typ[tn]; ok {
		return n
	}
	return tn.Name()
}

func structOf(pkg *types.Package, name string) (*types.TypeName, *types.Struct) {
	tn, _ := pkg.Scope().Lookup(name).(*types.TypeName)
	if tn == nil {
		return nil, nil
	}
	st, _ := tn.Type().Underlying().(*types.Struct)
	return tn, st
}

func structField(st *types.Struct, name string) *types.Var {
	if st == nil {
		return nil
	}
	for i := 0; i < st.NumFields(); i++ {
		if st.Field(i).Name() == name {
			return st.Field(i)
		}
	}
	return nil
}

func isMutexType(t types.Type) bool {
	n, ok := t.(*types.Named)
	return ok && n.Obj().Pkg() != nil && n.Obj().Pkg().Path() == "sync" && (n.Obj().Name() == "Mutex" || n.Obj().Name() == "RWMutex")
}

// resolveNames fills cn for the loaded subject package.
func (c *Ctx) resolveNames() {
	cn = &canonNames{field: map[*types.Var]string{}, fieldOwner: map[*types.Var]string{}, typ: map[*types.TypeName]string{}, actual: map[string]string{}, lockChain: map[string][]string{}}
	pw.CanonFunc = map[*types.Func]string{}
	pkg := c.Pkg.Types
	note := func(s string) { cn.notes = append(cn.notes, s) }
	setField := func(f *types.Var, owner, name string) {
		if f.Name() != name {
			cn.field[f.Origin()] = name
			note("field " + owner + "." + name + " is " + f.Name())
		}
		cn.fieldOwner[f.Origin()] = owner
		cn.actual[owner+"."+name] = f.Name()
	}
	// ---- Failover siblings: key-lock table, its mutex, the key-lock entry type
	for _, sib := range siblings {
		_, st := structOf(pkg, sib)
		if st == nil {
			continue
		}
		klCanon := "kl"
		if sib == "FailoverOf" {
			klCanon = "klOf"
		}
		type hit struct {
			chain []string
			in    *types.Struct
			f     *types.Var
			elem  *types.Named
		}
		var hits []hit
		var scan func(s *types.Struct, chain []string, depth int)
		scan = func(s *types.Struct, chain []string, depth int) {
			for i := 0; i < s.NumFields(); i++ {
				f := s.Field(i)
				if m, ok := f.Type().Underlying().(*types.Map); ok {
					if p, ok := m.Elem().(*types.Pointer); ok {
						if en, ok := p.Elem().(*types.Named); ok {
							if est, ok := en.Underlying().(*types.Struct); ok {
								for j := 0; j < est.NumFields(); j++ {
									if _, isChan := est.Field(j).Type().Underlying().(*types.Chan); isChan || types.TypeString(est.Field(j).Type(), nil) == "sync.WaitGroup" {
										hits = append(hits, hit{append(append([]string{}, chain...), f.Name()), s, f, en})
									}
								}
							}
						}
					}
				}
				if fs, ok := f.Type().Underlying().(*types.Struct); ok && depth < 2 && !f.Exported() && !isMutexType(f.Type()) {
					if n, isNamed := f.Type().(*types.Named); !isNamed || n.Obj().Pkg() == pkg {
						scan(fs, append(append([]string{}, chain...), f.Name()), depth+1)
					}
				}
			}
		}
		scan(st, nil, 0)
		if len(hits) != 1 {
			continue
		}
		h := hits[0]
		setField(h.f, sib, "keyLocks")
		var mus []*types.Var
		for i := 0; i < h.in.NumFields(); i++ {
			if isMutexType(h.in.Field(i).Type()) && !h.in.Field(i).Embedded() {
				mus = append(mus, h.in.Field(i))
			}
		}
		if len(mus) == 1 {
			setField(mus[0], sib, "lock")
			cn.lockChain[sib] = append(append([]string{}, h.chain[:len(h.chain)-1]...), mus[0].Name())
		}
		if h.elem.Obj().Name() != klCanon {
			cn.typ[h.elem.Obj()] = klCanon
			note("type " + klCanon + " is " + h.elem.Obj().Name())
		}
		est := h.elem.Underlying().(*types.Struct)
		var rest []*types.Var
		for j := 0; j < est.NumFields(); j++ {
			f := est.Field(j)
			switch {
			case func() bool { _, ok := f.Type().Underlying().(*types.Chan); return ok }(), types.TypeString(f.Type(), nil) == "sync.WaitGroup":
				setField(f, klCanon, "lock") // the completion signal of the entry: a channel closed once, or a WaitGroup armed with Add(1)
			case types.TypeString(f.Type(), nil) == "error":
				setField(f, klCanon, "err")
			default:
				rest = append(rest, f)
			}
		}
		if len(rest) == 1 {
			setField(rest[0], klCanon, "val")
		}
	}
	// ---- Invalidator: the time of the last accepted run
	if _, st := structOf(pkg, "Invalidator"); st != nil && structField(st, "lastRun") == nil {
		var cands []*types.Var
		for i := 0; i < st.NumFields(); i++ {
			f := st.Field(i)
			if !f.Exported() && types.TypeString(f.Type(), nil) == "time.Time" {
				cands = append(cands, f)
			}
		}
		if len(cands) == 1 {
			setField(cands[0], "Invalidator", "lastRun")
		}
	}
	// ---- InvalidationIndex: deleters by name, label index, mutex
	if _, st := structOf(pkg, "InvalidationIndex"); st != nil {
		var dels, idx, mus []*types.Var
		for i := 0; i < st.NumFields(); i++ {
			f := st.Field(i)
			if isMutexType(f.Type()) {
				mus = append(mus, f)
				continue
			}
			m, ok := f.Type().Underlying().(*types.Map)
			if !ok {
				continue
			}
			if sl, ok := m.Elem().Underlying().(*types.Slice); ok && namedTypeName(sl.Elem()) == "Deleter" {
				dels = append(dels, f)
			}
			if inner, ok := m.Elem().Underlying().(*types.Map); ok {
				if _, ok := inner.Elem().Underlying().(*types.Slice); ok {
					idx = append(idx, f)
				}
			}
		}
		if len(dels) == 1 {
			setField(dels[0], "InvalidationIndex", "deleters")
		}
		if len(idx) == 1 {
			setField(idx[0], "InvalidationIndex", "labeledKeysByName")
		}
		if len(mus) == 1 {
			setField(mus[0], "InvalidationIndex", "mu")
		}
	}
	// ---- helper types re-identified by shape
	scope := pkg.Scope()
	pw.CanonType = cn.typ
	setType := func(tn *types.TypeName, canon string) {
		if tn.Name() != canon {
			cn.typ[tn] = canon
			note("type " + canon + " is " + tn.Name())
		}
	}
	methodNames := func(tn *types.TypeName) map[string]bool {
		out := map[string]bool{}
		ms := types.NewMethodSet(types.NewPointer(tn.Type()))
		for i := 0; i < ms.Len(); i++ {
			if len(ms.At(i).Index()) == 1 { // declared on the type itself
				out[ms.At(i).Obj().Name()] = true
			}
		}
		return out
	}
	var detached, expNon, expGen, bucketNon, bucketGen []*types.TypeName
	for _, n := range scope.Names() {
		tn, ok := scope.Lookup(n).(*types.TypeName)
		if !ok || tn.Exported() || tn.IsAlias() {
			continue
		}
		st, ok := tn.Type().Underlying().(*types.Struct)
		if !ok {
			continue
		}
		named, _ := tn.Type().(*types.Named)
		generic := named != nil && named.TypeParams().Len() > 0
		ms := methodNames(tn)
		hasCtxField, hasMu := false, false
		var mapToEntry *types.Var
		for i := 0; i < st.NumFields(); i++ {
			f := st.Field(i)
			if types.TypeString(f.Type(), nil) == "context.Context" {
				hasCtxField = true
			}
			if isMutexType(f.Type()) {
				hasMu = true
			}
			if m, ok := f.Type().Underlying().(*types.Map); ok {
				if p, ok := m.Elem().(*types.Pointer); ok && strings.HasPrefix(namedTypeNameRaw(p.Elem()), "TraitEntry") {
					mapToEntry = f
				}
			}
		}
		if hasCtxField && (ms["Deadline"] || ms["Done"] || ms["Value"]) {
			detached = append(detached, tn)
		}
		if ms["ExpiredAt"] && ms["Value"] && ms["Error"] {
			if generic {
				expGen = append(expGen, tn)
			} else {
				expNon = append(expNon, tn)
			}
		}
		if hasMu && mapToEntry != nil {
			if generic {
				bucketGen = append(bucketGen, tn)
			} else {
				bucketNon = append(bucketNon, tn)
			}
		}
	}
	one := func(l []*types.TypeName, canon string) *types.TypeName {
		if len(l) == 1 {
			setType(l[0], canon)
			return l[0]
		}
		return nil
	}
	if tn := one(detached, "detachedContext"); tn != nil {
		st := tn.Type().Underlying().(*types.Struct)
		for i := 0; i < st.NumFields(); i++ {
			if f := st.Field(i); types.TypeString(f.Type(), nil) == "context.Context" && !f.Embedded() {
				setField(f, "detachedContext", "parent")
			}
		}
	}
	one(expNon, "errExpired")
	one(expGen, "errExpiredOf")
	for _, bt := range []struct {
		l     []*types.TypeName
		canon string
	}{{bucketNon, "hashedBucket"}, {bucketGen, "hashedBucketOf"}} {
		tn := one(bt.l, bt.canon)
		if tn == nil {
			continue
		}
		st := tn.Type().Underlying().(*types.Struct)
		for i := 0; i < st.NumFields(); i++ {
			if _, ok := st.Field(i).Type().Underlying().(*types.Map); ok {
				setField(st.Field(i), bt.canon, "data")
			}
		}
		// the shard array of the backend that uses this bucket type
		for _, n := range scope.Names() {
			otn, ok := scope.Lookup(n).(*types.TypeName)
			if !ok {
				continue
			}
			ost, ok := otn.Type().Underlying().(*types.Struct)
			if !ok {
				continue
			}
			for i := 0; i < ost.NumFields(); i++ {
				f := ost.Field(i)
				var el types.Type
				switch x := f.Type().Underlying().(type) {
				case *types.Array:
					el = x.Elem()
				case *types.Slice:
					el = x.Elem()
				}
				if el != nil {
					if en, ok := el.(*types.Named); ok && en.Origin().Obj() == tn {
						setField(f, canonTypeName(otn), "hashedBuckets")
					}
				}
			}
		}
	}
	// backend implementation types: the unexported struct embedded by pointer in the exported wrapper
	for _, b := range backends {
		if _, st := structOf(pkg, b.Wrapper); st != nil {
			for i := 0; i < st.NumFields(); i++ {
				f := st.Field(i)
				if !f.Embedded() {
					continue
				}
				if p, ok := f.Type().(*types.Pointer); ok {
					if en, ok := p.Elem().(*types.Named); ok && !en.Obj().Exported() && en.Obj().Pkg() == pkg {
						setType(en.Origin().Obj(), b.Name)
					}
				}
			}
		}
	}
	// Trait.expirationsSet: the unexported int64 counter of Trait
	if _, st := structOf(pkg, "Trait"); st != nil && structField(st, "expirationsSet") == nil {
		var cands []*types.Var
		for i := 0; i < st.NumFields(); i++ {
			if f := st.Field(i); !f.Exported() && types.TypeString(f.Type(), nil) == "int64" {
				cands = append(cands, f)
			}
		}
		if len(cands) == 1 {
			setField(cands[0], "Trait", "expirationsSet")
		}
	}
	// package-level registry of gob types: a uint64 fingerprint and a set of reflect.Type
	pw.CanonGlobal = map[types.Object]string{}
	var hashVars, setVars []*types.Var
	for _, n := range scope.Names() {
		v, ok := scope.Lookup(n).(*types.Var)
		if !ok || v.Exported() {
			continue
		}
		if types.TypeString(v.Type(), nil) == "uint64" {
			hashVars = append(hashVars, v)
		}
		if m, ok := v.Type().Underlying().(*types.Map); ok && types.TypeString(m.Key(), nil) == "reflect.Type" {
			setVars = append(setVars, v)
		}
	}
	if len(hashVars) == 1 && hashVars[0].Name() != "gobTypesHash" {
		pw.CanonGlobal[hashVars[0]] = "gobTypesHash"
		note("variable gobTypesHash is " + hashVars[0].Name())
	}
	if len(setVars) == 1 && setVars[0].Name() != "gobTypes" {
		pw.CanonGlobal[setVars[0]] = "gobTypes"
		note("variable gobTypes is " + setVars[0].Name())
	}
	// ---- helper functions re-identified by signature (only when the canonical name is gone)
	byCanon := map[string]bool{}
	c.eachFuncDecl(func(_ *ast.FuncDecl, fn *types.Func) { byCanon[strings.TrimPrefix(rawFuncName(fn), "cache.")] = true })
	type fcand struct {
		canon string
		match func(fn *types.Func, sig *types.Signature, recv string) bool
	}
	under := func(t types.Type) string { return types.TypeString(t.Underlying(), nil) }
	cands := []fcand{
		{"InvalidationIndex.invalidateByLabels", func(fn *types.Func, sig *types.Signature, recv string) bool {
			if recv != "InvalidationIndex" || sig.Results().Len() != 2 || under(sig.Results().At(0).Type()) != "int" || types.TypeString(sig.Results().At(1).Type(), nil) != "error" {
				return false
			}
			for i := 0; i < sig.Params().Len(); i++ {
				if sl, ok := sig.Params().At(i).Type().Underlying().(*types.Slice); ok && namedTypeName(sl.Elem()) == "Deleter" {
					return true
				}
			}
			return false
		}},
		{"InvalidationIndex.cutKeys", func(fn *types.Func, sig *types.Signature, recv string) bool {
			if (recv != "InvalidationIndex" && recv != "") || sig.Results().Len() != 1 || !sig.Variadic() {
				return false
			}
			m, ok := sig.Results().At(0).Type().Underlying().(*types.Map)
			if !ok {
				return false
			}
			_, isSlice := m.Elem().Underlying().(*types.Slice)
			return isSlice
		}},
		{"Trait.expireAt", func(fn *types.Func, sig *types.Signature, recv string) bool {
			return recv == "Trait" && sig.Results().Len() == 2 && types.TypeString(sig.Results().At(0).Type(), nil) == "time.Duration" && under(sig.Results().At(1).Type()) == "int64"
		}},
		{"recursiveTypeHash", func(fn *types.Func, sig *types.Signature, recv string) bool {
			if recv != "" || sig.Params().Len() < 2 || types.TypeString(sig.Params().At(0).Type(), nil) != "reflect.Type" {
				return false
			}
			for i := 1; i < sig.Params().Len(); i++ {
				if strings.HasPrefix(types.TypeString(sig.Params().At(i).Type(), nil), "hash.Hash") {
					return true
				}
			}
			return false
		}},
		{"ts", func(fn *types.Func, sig *types.Signature, recv string) bool {
			return recv == "" && sig.Params().Len() == 1 && sig.Results().Len() == 1 && types.TypeString(sig.Params().At(0).Type(), nil) == "time.Time" && under(sig.Results().At(0).Type()) == "int64"
		}},
		{"tsTime", func(fn *types.Func, sig *types.Signature, recv string) bool {
			return recv == "" && sig.Params().Len() == 1 && sig.Results().Len() == 1 && types.TypeString(sig.Results().At(0).Type(), nil) == "time.Time" && under(sig.Params().At(0).Type()) == "int64"
		}},
	}
	for _, b := range backends {
		b := b
		cands = append(cands,
			fcand{b.Name + ".deleteExpired", func(fn *types.Func, sig *types.Signature, recv string) bool {
				return recv == b.Name && sig.Results().Len() == 0 && sig.Params().Len() == 1 && types.TypeString(sig.Params().At(0).Type(), nil) == "time.Time"
			}},
			fcand{b.Name + ".evictLeast", func(fn *types.Func, sig *types.Signature, recv string) bool {
				if recv != b.Name || sig.Results().Len() != 1 || sig.Params().Len() != 2 {
					return false
				}
				_, isFn := sig.Params().At(1).Type().Underlying().(*types.Signature)
				return isFn && under(sig.Params().At(0).Type()) == "float64"
			}})
	}
	for _, fc := range cands {
		if byCanon[fc.canon] {
			continue
		}
		var found []*types.Func
		c.eachFuncDecl(func(_ *ast.FuncDecl, fn *types.Func) {
			if fn.Exported() {
				return
			}
			sig, _ := fn.Type().(*types.Signature)
			if sig == nil {
				return
			}
			recv := ""
			if sig.Recv() != nil {
				recv = namedTypeName(sig.Recv().Type())
			}
			if fc.match(fn, sig, recv) {
				found = append(found, fn)
			}
		})
		if len(found) == 1 {
			pw.CanonFunc[found[0].Origin()] = "cache." + fc.canon
			note("function " + fc.canon + " is " + rawFuncName(found[0]))
		}
	}
	// Trait.invokeCleanup: the unexported Trait method that calls the Evict callback
	if !byCanon["Trait.invokeCleanup"] {
		var found []*types.Func
		c.eachFuncDecl(func(fd *ast.FuncDecl, fn *types.Func) {
			if fn.Exported() || !sameRecvNamed(fn, "Trait") {
				return
			}
			callsEvict := false
			inspectCalls(fd, func(sel string) {
				if sel == "Evict" {
					callsEvict = true
				}
			})
			if callsEvict {
				found = append(found, fn)
			}
		})
		if len(found) == 1 {
			pw.CanonFunc[found[0].Origin()] = "cache.Trait.invokeCleanup"
			note("function Trait.invokeCleanup is " + rawFuncName(found[0]))
		}
	}
}

// lookupType returns the type the rules know as canon (its actual declaration).
func (c *Ctx) lookupType(canon string) *types.TypeName {
	for tn, n := range cn.typ {
		if n == canon {
			return tn
		}
	}
	tn, _ := c.Pkg.Types.Scope().Lookup(canon).(*types.TypeName)
	return tn
}

// rawFuncName is pw.FuncName without canonicalisation.
func rawFuncName(fn *types.Func) string {
	saved, savedT := pw.CanonFunc, pw.CanonType
	pw.CanonFunc, pw.CanonType = nil, nil
	defer func() { pw.CanonFunc, pw.CanonType = saved, savedT }()
	return pw.FuncName(fn)
}

// inspectCalls reports the selector name of every call of the form x.Sel(...) in fd.
func inspectCalls(fd *ast.FuncDecl, f func(sel string)) {
	if fd == nil || fd.Body == nil {
		return
	}
	ast.Inspect(fd.Body, func(n ast.Node) bool {
		if call, ok := n.(*ast.CallExpr); ok {
			if sel, ok := ast.Unparen(call.Fun).(*ast.SelectorExpr); ok {
				f(sel.Sel.Name)
			}
		}
		return true
	})
}

// Prepare resolves the role anchors of the loaded subject; call once per Ctx before running a property.
func (c *Ctx) Prepare() {
	c.resolveNames()
	for _, n := range cn.notes {
		c.R.Notes = append(c.R.Notes, "anchor re-identified by shape: "+n)
	}
}

// namedTypeNameRaw is namedTypeName without canonicalisation.
func namedTypeNameRaw(t types.Type) string {
	for {
		switch x := t.(type) {
		case *types.Pointer:
			t = x.Elem()
			continue
		case *types.Named:
			return x.Obj().Name()
		case *types.Alias:
			return x.Obj().Name()
		}
		return ""
	}
}

// selFieldName is the canonical name of the field a selection denotes.
func selFieldName(s *types.Selection) string {
	if v, ok := s.Obj().(*types.Var); ok {
		return fname(v)
	}
	return s.Obj().Name()
}
