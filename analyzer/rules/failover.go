package rules

import (
	"fmt"
	"go/ast"
	"go/token"
	"go/types"
	"math/big"
	"sort"
	"strings"

	"cachelint/poly"
	"cachelint/pw"
)

// FO is the path model of one Failover sibling's Get.
type FO struct {
	Name     string // Failover | FailoverOf
	E        *pw.Engine
	Decl     *ast.FuncDecl
	Fn       *types.Func
	Paths    []*pw.Path
	Recv     *pw.Val
	Ctx      *pw.Val
	Key      *pw.Val
	Build    *pw.Val
	LockPath string
	Err      error
}

func sameRecvNamed(fn *types.Func, name string) bool {
	sig, _ := fn.Type().(*types.Signature)
	if sig == nil || sig.Recv() == nil {
		return false
	}
	return namedTypeName(sig.Recv().Type()) == name
}

// failoverPolicy inlines every method of the sibling's own type and unexported package-level helpers, so that
// extracting or merging helpers does not change what the rules see.
func failoverPolicy(typeName string, isFrontend func(token.Pos) bool) pw.Policy {
	return pw.Policy{
		Inline: func(fn *types.Func, depth int) bool {
			if sameRecvNamed(fn, typeName) {
				return true
			}
			sig, _ := fn.Type().(*types.Signature)
			if sig != nil && sig.Recv() == nil && !fn.Exported() {
				return true
			}
			// methods of unexported helper types declared with the frontend (a key-lock table owning the map and its mutex, …)
			return frontendHelperMethod(fn, isFrontend)
		},
		SpawnDeclared: func(fn *types.Func) bool { return sameRecvNamed(fn, typeName) || frontendHelperMethod(fn, isFrontend) },
		// TTL(ctx) is not a function of ctx alone inside Get: the builder may lower the cell in between (WithTTL(ctx, ttl, true)),
		// so two reads of it are two values
		Pure:     func(fn *types.Func) bool { return pw.FuncName(fn) != "cache.TTL" && basePure(fn) },
		Role:     BaseRole,
		MaxDepth: 4,
		Consistent: func(f *pw.FactView) bool {
			// axiom (a): a backend Read that fails returns no value (nil for nil-able value types).
			for _, ev := range f.Events() {
				if ev.Kind == pw.EvCall && ev.Role == "BackendRead" && len(ev.Results) == 2 {
					en, ek := f.Nil(ev.Results[1])
					vn, vk := f.Nil(ev.Results[0])
					if ek && !en && vk && !vn {
						return false
					}
				}
			}
			// axiom (d): the key-lock table holds non-nil entries only (R01.2 checks that what is inserted is a fresh &kl{…})
			for _, ev := range f.Events() {
				if ev.Kind == pw.EvMapLookup && isKeyLocksMap(ev) && len(ev.Results) == 2 {
					ok, okKnown := f.Truth(ev.Results[1])
					n, nKnown := f.Nil(ev.Results[0])
					if okKnown && ok && nKnown && n {
						return false
					}
				}
			}
			// axiom (c): the failure cache only ever holds non-nil errors (R05.3 checks the writer side).
			for _, ev := range f.Events() {
				if ev.Kind == pw.EvCall && ev.Role == "ErrorsRead" && len(ev.Results) == 2 {
					en, ek := f.Nil(ev.Results[1])
					vn, vk := f.Nil(ev.Results[0])
					if ek && en && vk && vn {
						return false
					}
				}
			}
			// axiom (b): an error cannot both carry an expired item and be ErrNotFound.
			asTrue := map[int]bool{}
			for _, pv := range f.PureCalls() {
				if pv.Ev == nil || pv.Ev.Callee == nil || len(pv.Ev.Args) == 0 {
					continue
				}
				if t, known := f.Truth(pv); known && t && pw.FuncName(pv.Ev.Callee) == "errors.As" {
					asTrue[pv.Ev.Args[0].ID] = true
				}
			}
			for _, pv := range f.PureCalls() {
				if pv.Ev == nil || pv.Ev.Callee == nil || len(pv.Ev.Args) < 2 {
					continue
				}
				if pw.FuncName(pv.Ev.Callee) == "errors.Is" && pv.Ev.Args[1].Obj != nil && pv.Ev.Args[1].Obj.Name() == "ErrNotFound" {
					if t, known := f.Truth(pv); known && t && asTrue[pv.Ev.Args[0].ID] {
						return false
					}
				}
			}
			return true
		},
	}
}

// failover builds (once per run) the path model of a sibling.
func (c *Ctx) failover(name string) *FO {
	if c.fo == nil {
		c.fo = map[string]*FO{}
	}
	if fo, ok := c.fo[name]; ok {
		return fo
	}
	fo := &FO{Name: name}
	c.fo[name] = fo
	fo.Decl, fo.Fn = c.funcDecl(name + ".Get")
	if fo.Fn == nil {
		fo.Err = fmt.Errorf("anchor %s.Get does not resolve", name)
		return fo
	}
	fo.E = pw.New(c.Pkg, failoverPolicy(name, c.frontendFiles()))
	fo.Paths, fo.Err = fo.E.Run(fo.Fn)
	if fo.Err != nil {
		return fo
	}
	c.curEngine = fo.E
	fo.Paths = c.dropFeaturePaths(name+".Get", fo.Paths)
	for obj, v := range fo.E.Params {
		switch t := obj.Type().Underlying().(type) {
		case *types.Pointer:
			if namedTypeName(t) == name {
				fo.Recv = v
			}
		case *types.Slice:
			fo.Key = v
		case *types.Signature:
			fo.Build = v
		case *types.Interface:
			if types.TypeString(obj.Type(), nil) == "context.Context" {
				fo.Ctx = v
			}
		}
	}
	if fo.Recv == nil || fo.Key == nil || fo.Build == nil || fo.Ctx == nil {
		fo.Err = fmt.Errorf("%s.Get: cannot identify receiver/ctx/key/builder parameters", name)
		return fo
	}
	fo.LockPath = fmt.Sprintf("$%d.lock", fo.Recv.ID)
	if chain := cn.lockChain[name]; len(chain) > 0 {
		fo.LockPath = fmt.Sprintf("$%d.%s", fo.Recv.ID, strings.Join(chain, "."))
	}
	c.R.Func(name + ".Get")
	c.R.Count("paths:"+name+".Get", len(fo.Paths))
	return fo
}

// frontendHelperMethod: fn is a method of an unexported named type declared in one of the files that declare the Failover
// frontends (recognised by the declaration site of the receiver type, kept by the rules context).
func frontendHelperMethod(fn *types.Func, isFrontend func(token.Pos) bool) bool {
	sig, _ := fn.Type().(*types.Signature)
	if sig == nil || sig.Recv() == nil {
		return false
	}
	t := sig.Recv().Type()
	if p, ok := t.(*types.Pointer); ok {
		t = p.Elem()
	}
	nt, ok := t.(*types.Named)
	if !ok || nt.Obj().Exported() || isFrontend == nil {
		return false
	}
	return isFrontend(nt.Obj().Pos())
}

// frontendFiles reports whether a position lies in a file declaring Failover.Get / FailoverOf.Get (per analysed package: the
// thorough tier analyses many variants, each with its own file set, in one process).
func (c *Ctx) frontendFiles() func(token.Pos) bool {
	if c.frontendFn != nil {
		return c.frontendFn
	}
	files := map[string]bool{}
	for _, sib := range siblings {
		if _, fn := c.funcDecl(sib + ".Get"); fn != nil {
			files[c.Pkg.Fset.Position(fn.Pos()).Filename] = true
		}
	}
	fset := c.Pkg.Fset
	c.frontendFn = func(p token.Pos) bool { return files[fset.Position(p).Filename] }
	return c.frontendFn
}

func klTypeOf(sib string) string {
	if sib == "FailoverOf" {
		return "klOf"
	}
	return "kl"
}

func isKeyLocksMap(ev *pw.Event) bool {
	return ev.Recv != nil && ev.Recv.Kind == pw.KField && ev.Recv.Field != nil && fname(ev.Recv.Field) == "keyLocks"
}

// lookup returns the election lookup of a path (nil for pre-election exits).
func (fo *FO) lookup(p *pw.Path) *pw.Event {
	for _, ev := range p.Events {
		if ev.Kind == pw.EvMapLookup && isKeyLocksMap(ev) && (ev.Frame == nil || !ev.Frame.Deferred) {
			return ev
		}
	}
	return nil
}

type foClass struct {
	lookup  *pw.Event
	lookupI int
	found   bool
	insert  *pw.Event
	insertI int
	kl      *pw.Val // the key lock entry this path works with
}

func (fo *FO) classify(p *pw.Path) (*foClass, error) {
	cl := &foClass{lookupI: -1, insertI: -1}
	for i, ev := range p.Events {
		if ev.Kind == pw.EvMapLookup && isKeyLocksMap(ev) {
			if cl.lookup != nil {
				// a later plain (non comma-ok) lookup is a guard of a release helper ("is it still my entry?"), not an election
				if len(ev.Results) < 2 {
					continue
				}
				return nil, fmt.Errorf("two keyLocks lookups on one path")
			}
			cl.lookup, cl.lookupI = ev, i
		}
		if ev.Kind == pw.EvMapInsert && isKeyLocksMap(ev) {
			if cl.insert != nil {
				return nil, fmt.Errorf("two keyLocks inserts on one path")
			}
			cl.insert, cl.insertI = ev, i
		}
	}
	if cl.lookup == nil {
		return cl, nil
	}
	if len(cl.lookup.Results) < 2 {
		return nil, fmt.Errorf("keyLocks lookup is not in comma-ok form")
	}
	t, known := p.Truth(cl.lookup.Results[1])
	if !known {
		// the result of the lookup was never tested: treat as both (caller reports)
		return nil, fmt.Errorf("presence result of the keyLocks lookup is never tested on this path")
	}
	cl.found = t
	if cl.found {
		cl.kl = cl.lookup.Results[0]
	} else if cl.insert != nil {
		cl.kl = cl.insert.Value
	}
	return cl, nil
}

func isBuilderCall(fo *FO, ev *pw.Event) bool {
	return ev.Kind == pw.EvCall && ev.CalleeVal == fo.Build && ev.Callee == nil
}

func isRelease(ev *pw.Event) bool { return ev.Kind == pw.EvMapDelete && isKeyLocksMap(ev) }

func isKLClose(ev *pw.Event) bool {
	return ev.Kind == pw.EvClose && ev.Field != nil && fname(ev.Field) == "lock"
}

func countReleases(evs []*pw.Event) int {
	n := 0
	for _, ev := range evs {
		if isRelease(ev) {
			n++
		}
	}
	return n
}

func goEvents(p *pw.Path) []*pw.Event { return p.EventsOf(pw.EvGo) }

func (c *Ctx) pathDetail(fo *FO, p *pw.Path, msg string) (string, []string) {
	tr := append([]string{}, shortTrace(p)...)
	tr = append(tr, "-- events --")
	tr = append(tr, p.Summary(c.Pkg.Fset)...)
	return msg, tr
}

var siblings = []string{"Failover", "FailoverOf"}

// currentAlias mirrors Report.Alias for hasViolation.
var currentAlias = map[string]string{}

// withAlias runs f with rule ids remapped.
func (c *Ctx) withAlias(m map[string]string, f func()) {
	c.R.Alias, currentAlias = m, m
	defer func() { c.R.Alias, currentAlias = nil, map[string]string{} }()
	f()
}

func init() {
	register("C01", checkC01)
}

func checkC01(c *Ctx) {
	r := c.R
	r.Explanation = "Static path-sensitive typestate analysis of Failover.Get and FailoverOf.Get (all helpers inlined, all feasible " +
		"entry→exit paths enumerated, including the deferred release and the body of the spawned background closure). " +
		"Decides the four structural steps of the mutual-exclusion argument: (1) every access to keyLocks is under lock; " +
		"(2) election (lookup + conditional insert) is one critical section keyed by string(key); (3) the builder runs only " +
		"on an owner path, after the insert and before the release; (4) every owner path releases exactly once (itself or " +
		"through the one goroutine it hands the entry to), waiter paths never release. Breaking any of them allows two " +
		"overlapping builds for one key in some schedule. It does not decide the behaviour of sync.Mutex/channels, " +
		"user builders re-entering Get, or key identity under caller mutation of the key buffer (C04/C09)."
	r.Rule("R01.1", "builder confinement: the builder parameter is only invoked (never stored, sent or passed to code that is not inlined)", 2)
	r.Rule("R01.2", "atomic election: comma-ok lookup and conditional insert of keyLocks in one critical section of lock, insert only when not found, keyed by string(key)", 2)
	r.Rule("R01.3", "build ⇒ owner: every builder invocation is preceded by this path's insert and not preceded by its release", 2)
	r.Rule("R01.4", "exactly one release per owner path (main path or its single background closure), none on waiter and pre-election paths", 2)
	r.Rule("R01.5", "release is delete+close of this path's own entry under lock; keyLocks is mutated only inside Get", 2)
	r.NotDecided = []string{"semantics of sync.Mutex and channels", "re-entrant builders", "key identity after caller mutates the key buffer (C04/C09)"}
	for _, sib := range siblings {
		fo := c.failover(sib)
		if fo.Err != nil {
			r.Unknown("R01.*", sib+".Get", fo.Err.Error())
			continue
		}
		c.c01Sibling(fo)
	}
	c.c01WhoMutates()
	c.c01KeyRetention()
}

func (c *Ctx) c01Sibling(fo *FO) {
	r := c.R
	cons := fo.Name + ".Get"
	bad := map[string]bool{}
	nBuilder := 0
	owners, waiters, pre := 0, 0, 0
	for _, p := range fo.Paths {
		if len(p.Unsup) > 0 {
			r.Unknown("R01.*", cons, "unmodelled construct: "+p.Unsup[0])
			return
		}
		cl, err := fo.classify(p)
		if err != nil {
			r.Unknown("R01.2", cons, err.Error())
			return
		}
		ls := Locksets(p.Events, nil)
		// R01.1 escape of the builder
		for _, ev := range p.Events {
			escaped := false
			switch ev.Kind {
			case pw.EvFieldWrite, pw.EvMapInsert, pw.EvSend, pw.EvIndexWrite:
				escaped = ev.Value == fo.Build
			case pw.EvCall:
				for _, a := range ev.Args {
					if a == fo.Build {
						escaped = true
					}
				}
			}
			if escaped && !bad["R01.1"] {
				bad["R01.1"] = true
				d, t := c.pathDetail(fo, p, "builder function escapes: "+ev.String())
				r.Bad("R01.1", cons, "builder-escapes", c.Pos(ev.Pos), d, t)
			}
		}
		rel := countReleases(p.Events)
		if cl.lookup == nil {
			pre++
			// pre-election exit: no builder, no release, no go
			for _, ev := range p.Events {
				if isBuilderCall(fo, ev) || isRelease(ev) || ev.Kind == pw.EvGo {
					d, t := c.pathDetail(fo, p, "builder/release/spawn on a path that never took part in the election: "+ev.String())
					r.Bad("R01.3", cons, "no-election", c.Pos(ev.Pos), d, t)
				}
			}
			continue
		}
		// R01.2
		if !ls[cl.lookupI].Has(fo.LockPath, false) {
			d, t := c.pathDetail(fo, p, "keyLocks lookup without holding lock")
			r.Bad("R01.2", cons, "lookup-unlocked", c.Pos(cl.lookup.Pos), d, t)
		}
		if !stringOfContent(p.Events, cl.lookup.Key, fo.Key) {
			d, t := c.pathDetail(fo, p, "keyLocks lookup is not keyed by string(key): "+cl.lookup.Key.String())
			r.Bad("R01.2", cons, "lookup-key", c.Pos(cl.lookup.Pos), d, t)
		}
		if cl.found {
			waiters++
			if cl.insert != nil {
				d, t := c.pathDetail(fo, p, "keyLocks entry overwritten although one was found")
				r.Bad("R01.2", cons, "insert-when-found", c.Pos(cl.insert.Pos), d, t)
			}
		} else {
			owners++
			if cl.insert == nil {
				d, t := c.pathDetail(fo, p, "path continues as owner without inserting a keyLocks entry")
				r.Bad("R01.2", cons, "owner-without-insert", c.Pos(cl.lookup.Pos), d, t)
				continue
			}
			if cl.insertI < cl.lookupI || !ls[cl.insertI].Has(fo.LockPath, false) {
				d, t := c.pathDetail(fo, p, "keyLocks insert outside the critical section")
				r.Bad("R01.2", cons, "insert-unlocked", c.Pos(cl.insert.Pos), d, t)
			}
			for i := cl.lookupI; i < cl.insertI; i++ {
				if ev := p.Events[i]; ev.Kind == pw.EvLock && ev.Path == fo.LockPath && ev.Op == "Unlock" {
					d, t := c.pathDetail(fo, p, "lock released between keyLocks lookup and insert (check-then-act is not atomic)")
					r.Bad("R01.2", cons, "split-election", c.Pos(ev.Pos), d, t)
				}
			}
			// the inserted entry is a fresh key lock with its own channel (waiters block on it, the release closes it)
			armed := false
			if iv := pointee(cl.insert.Value); iv != nil && iv.Kind == pw.KAlloc {
				// WaitGroup form of the signal: armed with Add(1) on this entry before it is published
				for _, ev := range p.Events[:cl.insertI] {
					if ev.Kind == pw.EvCall && ev.Role == "Std:sync.WaitGroup.Add" && len(ev.Args) == 1 && ev.Recv != nil &&
						ev.Recv.Loc() == fmt.Sprintf("$%d.%s", iv.ID, actualField(klTypeOf(fo.Name), "lock")) {
						if n, ok := poly.Of(ev.Args[0], nil).IsConst(); ok && n.Cmp(big.NewRat(1, 1)) == 0 {
							armed = true
						}
					}
				}
			}
			if iv := pointee(cl.insert.Value); !armed && (iv == nil || iv.Kind != pw.KAlloc || p.FieldOf(iv, actualField(klTypeOf(fo.Name), "lock")) == nil || p.FieldOf(iv, actualField(klTypeOf(fo.Name), "lock")).Kind != pw.KAlloc) {
				d, t := c.pathDetail(fo, p, "the entry inserted into keyLocks is not a freshly built key lock with a freshly made channel")
				r.Bad("R01.2", cons, "insert-not-fresh-entry", c.Pos(cl.insert.Pos), d, t)
			}
			if !stringOfContent(p.Events, cl.insert.Key, fo.Key) {
				d, t := c.pathDetail(fo, p, "keyLocks insert is not keyed by string(key)")
				r.Bad("R01.2", cons, "insert-key", c.Pos(cl.insert.Pos), d, t)
			}
		}
		// R01.3 / R01.4
		gos := goEvents(p)
		firstRel := -1
		for i, ev := range p.Events {
			if isRelease(ev) && firstRel < 0 {
				firstRel = i
			}
		}
		checkBuilder := func(i int, ev *pw.Event, where string) {
			nBuilder++
			if cl.found || cl.insert == nil || cl.insertI > i {
				d, t := c.pathDetail(fo, p, "builder invoked "+where+" on a path that does not own the key lock")
				r.Bad("R01.3", cons, "build-without-ownership", c.Pos(ev.Pos), d, t)
			}
			if firstRel >= 0 && firstRel < i {
				d, t := c.pathDetail(fo, p, "builder invoked "+where+" after the key lock was released")
				r.Bad("R01.3", cons, "build-after-release", c.Pos(ev.Pos), d, t)
			}
		}
		for i, ev := range p.Events {
			if isBuilderCall(fo, ev) {
				checkBuilder(i, ev, "synchronously")
			}
			if ev.Kind == pw.EvGo {
				for _, sp := range ev.Sub {
					if len(sp.Unsup) > 0 {
						r.Unknown("R01.*", cons, "unmodelled construct in spawned closure: "+sp.Unsup[0])
						return
					}
					sRel := -1
					for j, sev := range sp.Events {
						if isRelease(sev) && sRel < 0 {
							sRel = j
						}
						if isBuilderCall(fo, sev) {
							checkBuilder(i, sev, "in background")
							if rel > 0 {
								d, t := c.pathDetail(fo, p, "the owner releases the key lock on its own path although the build it spawned runs in the background: the next Get elects a second owner while that build is still running")
								r.Bad("R01.3", cons, "bg-build-outlives-lock", c.Pos(sev.Pos), d, t)
							}
							if sRel >= 0 {
								d, t := c.pathDetail(fo, p, "background builder runs after the closure released the key lock")
								r.Bad("R01.3", cons, "bg-build-after-release", c.Pos(sev.Pos), d, t)
							}
						}
					}
				}
			}
		}
		// R01.4: total releases along every complete execution
		want := 1
		if cl.found {
			want = 0
		}
		combos := []int{rel}
		for _, g := range gos {
			var next []int
			for _, base := range combos {
				seen := map[int]bool{}
				for _, sp := range g.Sub {
					n := base + countReleases(sp.Events)
					if !seen[n] {
						seen[n] = true
						next = append(next, n)
					}
				}
				if len(g.Sub) == 0 {
					next = append(next, base)
				}
			}
			combos = next
		}
		for _, n := range combos {
			if n != want {
				kind := "double-release"
				if n < want {
					kind = "missing-release"
				}
				if cl.found {
					kind = "waiter-releases"
				}
				d, t := c.pathDetail(fo, p, fmt.Sprintf("path releases the key lock %d time(s), expected %d (found=%v, spawned closures=%d)", n, want, cl.found, len(gos)))
				r.Bad("R01.4", cons, kind, c.Pos(p.RetPos), d, t)
			}
		}
		// R01.5: shape of each release
		c.checkReleaseShape(fo, p, p.Events, p.Events, ls, cl, cons, false)
		for _, g := range gos {
			for _, sp := range g.Sub {
				c.checkReleaseShape(fo, p, sp.Events, append(append([]*pw.Event{}, p.Events...), sp.Events...), Locksets(sp.Events, nil), cl, cons, true)
			}
		}
	}
	r.Count("owner_paths:"+cons, owners)
	r.Count("waiter_paths:"+cons, waiters)
	r.Count("pre_election_paths:"+cons, pre)
	r.Count("builder_sites_on_paths:"+cons, nBuilder)
	if nBuilder == 0 {
		r.Unknown("R01.3", cons, "no builder invocation found on any path (role does not resolve)")
	}
	if owners == 0 || waiters == 0 {
		r.Unknown("R01.4", cons, "no owner or no waiter path found")
	}
	for _, rule := range []string{"R01.1", "R01.2", "R01.3", "R01.4", "R01.5"} {
		if !hasViolation(r.Obls, rule, cons) {
			r.OK(rule, cons, fmt.Sprintf("%d paths (%d owner, %d waiter, %d pre-election)", len(fo.Paths), owners, waiters, pre))
		}
	}
}

func hasViolation(obls []*coreObl, rule, cons string) bool {
	if a, ok := currentAlias[rule]; ok {
		rule = a
	}
	for _, o := range obls {
		if o.Rule == rule && o.Construct == cons && o.Status != "discharged" {
			return true
		}
	}
	return false
}

func (c *Ctx) checkReleaseShape(fo *FO, p *pw.Path, evs, all []*pw.Event, ls []Held, cl *foClass, cons string, spawned bool) {
	r := c.R
	for i, ev := range evs {
		if !isRelease(ev) {
			continue
		}
		if !ls[i].Has(fo.LockPath, false) {
			d, t := c.pathDetail(fo, p, "key lock entry deleted without holding lock")
			r.Bad("R01.5", cons, "release-unlocked", c.Pos(ev.Pos), d, t)
		}
		if !stringOfContent(all, ev.Key, fo.Key) {
			d, t := c.pathDetail(fo, p, "key lock release is not keyed by string(key)")
			r.Bad("R01.5", cons, "release-key", c.Pos(ev.Pos), d, t)
		} else if spawned && (ev.Key.Src == nil || !isFreshCopyOf(all, ev.Key.Src, fo.Key)) {
			d, t := c.pathDetail(fo, p, "the background goroutine computes the key of the entry to release from the caller's key slice, which the caller may have rewritten: it can delete another key's lock (a second owner is then elected while that key's build is still running)")
			r.Bad("R01.5", cons, "bg-release-key-from-caller-slice", c.Pos(ev.Pos), d, t)
		}
		// paired close of this path's own channel in the same critical section
		paired := false
		for j := i + 1; j < len(evs); j++ {
			e2 := evs[j]
			if e2.Kind == pw.EvLock && e2.Path == fo.LockPath && e2.Op == "Unlock" {
				break
			}
			if isKLClose(e2) && cl.kl != nil && e2.Key == cl.kl {
				paired = true
				break
			}
		}
		for j := i - 1; j >= 0 && !paired; j-- {
			e2 := evs[j]
			if e2.Kind == pw.EvLock && e2.Path == fo.LockPath && e2.Op == "Lock" {
				break
			}
			if isKLClose(e2) && cl.kl != nil && e2.Key == cl.kl {
				paired = true
			}
		}
		if !paired {
			d, t := c.pathDetail(fo, p, "key lock entry deleted without closing this entry's channel in the same critical section (waiters would block for ever)")
			r.Bad("R01.5", cons, "release-without-close", c.Pos(ev.Pos), d, t)
		}
	}
	// a close without a delete
	for i, ev := range evs {
		if !isKLClose(ev) {
			continue
		}
		ok := false
		for j := range evs {
			if isRelease(evs[j]) && abs(j-i) < 8 {
				ok = true
			}
		}
		if !ok {
			d, t := c.pathDetail(fo, p, "key lock channel closed without deleting the entry")
			r.Bad("R01.5", cons, "close-without-delete", c.Pos(ev.Pos), d, t)
		}
	}
}

func abs(x int) int {
	if x < 0 {
		return -x
	}
	return x
}

// c01KeyRetention: the registry is keyed by the bytes the caller passed; a goroutine that still reads the caller's buffer after the
// call returned (in Get or in any other key-taking function of the frontends) registers / releases whatever the buffer holds by
// then — another key's lock (obligations of C09 R09.1).
func (c *Ctx) c01KeyRetention() {
	c.borrowKinds("C09", func() { c.c09Retention() }, "R01.5", "key-taking functions:no-use-after-return", []string{"R09.1"}, "used-in-goroutine", "read-in-goroutine")
}

// c01WhoMutates: keyLocks insert/delete and close of a key-lock channel occur only inside the sibling's Get.
func (c *Ctx) c01WhoMutates() {
	r := c.R
	info := c.Pkg.TypesInfo
	n := 0
	c.eachFuncDecl(func(fd *ast.FuncDecl, fn *types.Func) {
		name := strings.TrimPrefix(pw.FuncName(fn), "cache.")
		ast.Inspect(fd.Body, func(x ast.Node) bool {
			var target ast.Expr
			what := ""
			switch x := x.(type) {
			case *ast.CallExpr:
				if id, ok := x.Fun.(*ast.Ident); ok && len(x.Args) > 0 {
					if _, isB := info.Uses[id].(*types.Builtin); isB && (id.Name == "delete" || id.Name == "close") {
						target, what = x.Args[0], id.Name
					}
				}
			case *ast.AssignStmt:
				for _, l := range x.Lhs {
					if ix, ok := l.(*ast.IndexExpr); ok {
						target, what = ix.X, "insert"
					}
					// the registry itself is one map for the life of the instance: replacing it (to shrink it, to reset it) while
					// builds are in flight drops their entries — the next Get of such a key elects a second owner
					if sel, ok := ast.Unparen(l).(*ast.SelectorExpr); ok {
						if s := info.Selections[sel]; s != nil && s.Kind() == types.FieldVal {
							if fv, _ := s.Obj().(*types.Var); fv != nil && fname(fv) == "keyLocks" && !constructors[name] && !c.constructionOnly()(fn) {
								owner := namedTypeName(s.Recv())
								if o, ok := cn.fieldOwner[fv.Origin()]; ok {
									owner = o
								}
								if owner == "Failover" || owner == "FailoverOf" {
									r.Bad("R01.5", name, "registry-replaced", c.Pos(x.Pos()), "the keyLocks map is replaced outside construction: entries of builds in flight are not in the new map (unless every one of them is carried over under the mutex, which this rule does not try to establish)", nil)
								}
							}
						}
					}
				}
			}
			if target == nil {
				return true
			}
			sel, ok := ast.Unparen(target).(*ast.SelectorExpr)
			if !ok {
				return true
			}
			s := info.Selections[sel]
			if s == nil || s.Kind() != types.FieldVal {
				return true
			}
			fv, _ := s.Obj().(*types.Var)
			owner := namedTypeName(s.Recv())
			if fv != nil {
				if o, ok := cn.fieldOwner[fv.Origin()]; ok {
					owner = o
				}
			}
			fieldN := fname(fv)
			isKL := fieldN == "keyLocks" && (owner == "Failover" || owner == "FailoverOf")
			isCh := fieldN == "lock" && (owner == "kl" || owner == "klOf") && what == "close"
			if !isKL && !isCh {
				return true
			}
			n++
			if name != "Failover.Get" && name != "FailoverOf.Get" {
				// allowed in unexported helpers of the sibling that are reachable from no exported method but Get
				// (they are inlined into Get's paths and judged there)
				if roots := c.exportedRootsOf(fn); !fn.Exported() && len(roots) == 1 && strings.HasSuffix(roots[0], ".Get") {
					return true
				}
				r.Bad("R01.5", name, what+"-outside-Get", c.Pos(x.Pos()), fmt.Sprintf("%s of %s.%s outside Get (and outside helpers reachable only from Get)", what, owner, fieldN), nil)
			}
			return true
		})
	})
	r.Count("keyLocks_mutation_sites", n)
	if n < 6 {
		r.Unknown("R01.5", "package", fmt.Sprintf("only %d keyLocks mutation sites found, expected ≥ 6 (insert, 2×delete+close per sibling)", n))
	} else {
		r.OK("R01.5", "package:who-mutates-keyLocks", fmt.Sprintf("%d insert/delete/close sites, all inside Get", n))
	}
}

// exportedRootsOf lists the exported functions (and functions used as values / goroutine bodies) of the package from
// which fn is reachable through static calls.
func (c *Ctx) exportedRootsOf(target *types.Func) []string {
	info := c.Pkg.TypesInfo
	callers := map[*types.Func][]*types.Func{}
	c.eachFuncDecl(func(fd *ast.FuncDecl, fn *types.Func) {
		ast.Inspect(fd.Body, func(n ast.Node) bool {
			var id *ast.Ident
			switch x := n.(type) {
			case *ast.SelectorExpr:
				id = x.Sel
			case *ast.Ident:
				id = x
			}
			if id == nil {
				return true
			}
			if callee, ok := info.Uses[id].(*types.Func); ok && callee.Pkg() == c.Pkg.Types {
				callers[callee.Origin()] = append(callers[callee.Origin()], fn)
			}
			return true
		})
	})
	seen := map[*types.Func]bool{}
	roots := map[string]bool{}
	var walk func(f *types.Func)
	walk = func(f *types.Func) {
		if seen[f] {
			return
		}
		seen[f] = true
		if f.Exported() {
			roots[strings.TrimPrefix(pw.FuncName(f), "cache.")] = true
			return
		}
		if len(callers[f]) == 0 {
			roots[strings.TrimPrefix(pw.FuncName(f), "cache.")+"(unreferenced)"] = true
		}
		for _, cf := range callers[f] {
			walk(cf)
		}
	}
	walk(target.Origin())
	var out []string
	for r := range roots {
		out = append(out, r)
	}
	sort.Strings(out)
	return out
}
