#!/bin/bash
# usage: round_par.sh <seed root> <confirm out dir> — for every finished seed worktree under <root>: try_round (which checks report
# each seedN.diff) in parallel, then confirm_seed for every seed in parallel. Results: <out>/<Cxx>.try.txt and <out>/<Cxx>-seedN.result
R="$1"; OUT="$2"; mkdir -p "$OUT"
ls -d "$R"/C?? | xargs -P 16 -I{} sh -c '/verif/tools/try_round.sh {} > '"$OUT"'/$(basename {}).try.txt 2>&1'
for d in "$R"/C??; do for n in 1 2 3; do [ -f "$d/seed$n.diff" ] && echo "$d $n"; done; done | xargs -P 8 -L1 sh -c '/verif/tools/confirm_seed.sh $0 $1 '"$OUT"
cat "$OUT"/*.try.txt
