package rules

import (
	"fmt"
	"go/ast"
	"go/constant"
	"go/token"
	"go/types"
	"golang.org/x/tools/go/types/typeutil"
	"math/big"
	"strings"

	"cachelint/poly"
	"cachelint/pw"
)

func init() { register("C11", checkC11) }

func checkC11(c *Ctx) {
	r := c.R
	r.Explanation = "When the janitor runs is a run-time matter and is not decided. Decided statically: (R11.1) the boundary handed to the " +
		"delete-expired callback is now − Config.DeleteExpiredAfter (polynomial identity); (R11.2) in all three deleteExpired " +
		"implementations an iterated entry is deleted ⇔ E≠0 ∧ E<boundary (all orderings of E, boundary, 0; equality don't-care), the key " +
		"deleted is the iterated one and the test and the delete happen in the same critical section on the entry currently in the map; " +
		"(R11.3) the scan is skipped only when TimeToLive==UnlimitedTTL and no expiration was ever set, and Trait.TTL counts every non-zero " +
		"TTL handed out under UnlimitedTTL; (R11.4) the Trait that owns that counter and the janitor goroutine is never copied by value " +
		"(a copy would split the counter from the goroutine); (R11.5) entries are removed from storage only by Delete, DeleteAll, " +
		"deleteExpired and the evict functions; (R11.6) the evict callback runs only on cleanup paths that establish a soft-limit breach " +
		"(limit ≠ 0 ∧ measured > limit) or EvictionNeeded()==true — \"as long as no eviction limit is exceeded\" fresh entries are left alone."
	r.Rule("R11.1", "cleanup boundary = now − DeleteExpiredAfter (default 24h exactly when 0)", 2)
	r.Rule("R11.2", "delete ⇔ E≠0 ∧ E<boundary, on the iterated entry, test and delete in one critical section (3 backends)", 3)
	r.Rule("R11.3", "scan skipped only for UnlimitedTTL with expirationsSet==0; Trait.TTL increments expirationsSet for every non-zero TTL under UnlimitedTTL", 2)
	r.Rule("R11.4", "Trait is never copied by value after construction", 1)
	r.Rule("R11.5", "who may delete from storage", 1)
	r.Rule("R11.7", "cleanup cycles exist: the constructor starts the janitor whenever a delete-expired or evict callback is installed, and the janitor calls invokeCleanup in a loop", 1)
	r.Rule("R11.6", "eviction, the only other remover, is gated by an established soft-limit breach (same obligations as C12 R12.1)", 4)
	r.NotDecided = []string{"when the janitor runs", "how much and which entries an eviction removes (C12)"}
	c.c11Boundary()
	c.defaultsRule("R11.1", map[string]*big.Rat{"DeleteExpiredAfter": big.NewRat(24*3600*1000000000, 1)})
	c.configWriters("R11.1", "DeleteExpiredAfter", "TimeToLive")
	for _, b := range backends {
		c.c11DeleteExpired(b)
	}
	c.c11ScanSkip()
	c.c11Wiring()
	c.c11BackendKept()
	for _, b := range backends {
		b := b
		c.borrowKinds("C12", func() { c.c12Wiring(b) }, "R11.7", "New"+b.Wrapper, []string{"R12.3"}, "callback-wiring:DeleteExpired")
	}
	c.c11NoCopy()
	c.c11WhoDeletes()
	// a cycle can only remove what it can lock: no operation of the backend (Walk and Dump with a failing callback included)
	// leaves a shard lock held, or the next deleteExpired blocks for ever (C08 R08.5)
	c.borrowKinds("C08", func() {
		for _, b := range backends {
			c.c08Backend(b)
		}
	}, "R11.7", "backends:no-shard-lock-left-held", []string{"R08.5"}, "lock-leak", "relock", "callback-under-shard-lock")
	c.borrow("C07", func() {
		for _, b := range backends {
			c.c07Batch(b)
		}
	}, func(o *coreObl) (string, bool) { return "R11.6", isLenObligation(o) })
	// the breach is a breach of the documented quantity (MemStats.HeapInuse / Sys): another measure evicts fresh entries in cycles
	// where the configured limit is not exceeded
	c.borrow("C12", func() { c.c12MeasuredQuantity() }, func(o *coreObl) (string, bool) { return "R11.6", o.Rule == "R12.1" })
	c.borrow("C12", func() { c.c12Cleanup() }, func(o *coreObl) (string, bool) {
		if o.Rule != "R12.1" {
			return "", false
		}
		// only the direction C11 needs: no eviction without a breach (a cycle that fails to evict does not remove fresh entries)
		relevant := o.Status == "discharged" || o.What == "evict-without-breach" || o.What == "stale-memstats" || o.What == "evict-called-directly"
		return "R11.6", relevant
	})
	// the scan may be skipped while expirationsSet is 0 only because every expiry a Write stores was handed out by Trait.TTL, which
	// counts it: an expiry computed beside Trait.TTL (the value's own TTL, …) is never scanned for in an UnlimitedTTL cache (C10 R10.3)
	c.borrowKinds("C10", func() { c.c10ExpireAt() }, "R11.3", "backends.Write:expiry-through-Trait.TTL", []string{"R10.3"}, "stored-E", "no-ttl")
}

func cleanupPolicy() pw.Policy {
	return pw.Policy{Inline: inlineUnexported, MaxDepth: 3}
}

func (c *Ctx) c11Boundary() {
	r := c.R
	_, paths, _, err := c.runFunc("Trait.invokeCleanup", cleanupPolicy())
	if err != nil {
		r.Unknown("R11.1", "Trait.invokeCleanup", err.Error())
		return
	}
	n := 0
	for _, p := range paths {
		for _, ev := range p.Events {
			if ev.Kind != pw.EvCall || ev.Role != "DynField:DeleteExpired" {
				continue
			}
			n++
			var D *pw.Val
			for _, e2 := range p.Events {
				if e2.Kind == pw.EvFieldRead && e2.Field != nil && fname(e2.Field) == "DeleteExpiredAfter" {
					D = e2.Value
				}
			}
			var now *pw.Val
			namer := func(v *pw.Val) string {
				if v == D {
					return "D"
				}
				if v.Kind == pw.KCall && v.Ev.Role == "Std:time.Now" {
					if now == nil {
						now = v
					}
					if v == now {
						return "now"
					}
				}
				return ""
			}
			got := poly.Of(ev.Args[0], namer)
			want := poly.Atom("now").Sub(poly.Atom("D"))
			if D == nil || !got.Equal(want) {
				r.Bad("R11.1", "Trait.invokeCleanup", "boundary", c.Pos(ev.Pos), fmt.Sprintf("boundary is %s, documented is now − DeleteExpiredAfter", got), shortTrace(p))
			}
		}
	}
	if n == 0 {
		r.Unknown("R11.1", "Trait.invokeCleanup", "no DeleteExpired call found")
	} else if !hasViolation(r.Obls, "R11.1", "Trait.invokeCleanup") {
		r.OK("R11.1", "Trait.invokeCleanup", fmt.Sprintf("%d call sites on paths: now − DeleteExpiredAfter", n))
	}
}

func (c *Ctx) c11DeleteExpired(b BK) {
	r := c.R
	op := b.Name + ".deleteExpired"
	run := c.bk(b, op, false)
	if run.err != nil {
		r.Unknown("R11.2", op, run.err.Error())
		return
	}
	zero := run.e.IntConst(0)
	var before *pw.Val
	for obj, v := range run.e.Params {
		if namedTypeName(obj.Type()) == "Time" {
			before = v
		}
	}
	nDel, nKeep := 0, 0
	for _, p := range run.paths {
		// boundary: UnixNano of the parameter
		var boundary *pw.Val
		for _, ev := range p.Events {
			if ev.Kind == pw.EvCall && ev.Role == "Std:time.Time.UnixNano" && ev.Recv == before {
				boundary = ev.Results[0]
			}
		}
		// deletes outside an entry iteration
		groups := iterations(p)
		inIter := map[*pw.Event]bool{}
		for _, g := range groups {
			if g.overData && g.inner {
				for _, ev := range g.events {
					inIter[ev] = true
				}
			}
		}
		for _, ev := range p.Events {
			isDel := b.Sharded && ev.Kind == pw.EvMapDelete && isShardData(ev) || !b.Sharded && (syncMapOp(ev) == "Delete" || syncMapOp(ev) == "LoadAndDelete")
			if isDel && !inIter[ev] {
				r.Bad("R11.2", op, "delete-outside-scan", c.Pos(ev.Pos), "an entry is deleted outside the iteration (and critical section) in which its expiry was tested: a concurrently refreshed entry is removed", shortTrace(p))
			}
		}
		for _, g := range groups {
			if !g.overData || !g.inner {
				continue
			}
			var E *pw.Val
			deleted := false
			for _, ev := range g.events {
				if ev.Kind == pw.EvFieldRead && ev.Field != nil && fname(ev.Field) == "E" {
					base := ev.Recv
					for base != nil && base.Kind == pw.KAssert {
						base = base.Src
					}
					if base != nil && base.Kind == pw.KRangeVal {
						E = ev.Value
					}
				}
				if b.Sharded && ev.Kind == pw.EvMapDelete && isShardData(ev) {
					deleted = true
					if ev.Key == nil || ev.Key.Kind != pw.KRangeKey {
						r.Bad("R11.2", op, "deletes-other-key", c.Pos(ev.Pos), "the key deleted is not the iterated one", shortTrace(p))
					}
				}
				if !b.Sharded && (syncMapOp(ev) == "Delete" || syncMapOp(ev) == "LoadAndDelete") {
					deleted = true
					if len(ev.Args) < 1 || ev.Args[0].Kind != pw.KRangeVal {
						r.Bad("R11.2", op, "deletes-other-key", c.Pos(ev.Pos), "the key deleted is not the iterated one", shortTrace(p))
					}
				}
			}
			if boundary == nil {
				r.Bad("R11.2", op, "no-boundary", c.Pos(p.RetPos), "the boundary is not derived from the parameter", shortTrace(p))
				continue
			}
			if E == nil {
				if deleted {
					r.Bad("R11.2", op, "delete-without-test", c.Pos(p.RetPos), "an iterated entry is deleted without examining its E", shortTrace(p))
				}
				continue
			}
			if deleted {
				nDel++
			} else {
				nKeep++
			}
			for _, a := range []uint8{pw.RLt, pw.REq, pw.RGt} {
				if p.Rel(E, zero)&a == 0 {
					continue
				}
				for _, bb := range []uint8{pw.RLt, pw.RGt} {
					if p.Rel(E, boundary)&bb == 0 {
						continue
					}
					want := a != pw.REq && bb == pw.RLt
					if want != deleted {
						what := "kept"
						if deleted {
							what = "deleted"
						}
						r.Bad("R11.2", op, fmt.Sprintf("predicate:E%s0,E%sboundary:%s", relStr(a), relStr(bb), what), c.Pos(g.begin.Pos),
							fmt.Sprintf("entry with E%s0 and E%sboundary is %s; documented: delete ⇔ E≠0 ∧ E<boundary", relStr(a), relStr(bb), what), shortTrace(p))
					}
				}
			}
		}
	}
	if b.Sharded {
		c.shardCoverage("R11.2", op, run.paths, false)
	}
	// the scan visits every entry: no loop is left early, a sync.Map.Range callback always returns true
	for _, p := range run.paths {
		stop := false
		for i, ev := range p.Events {
			if ev.Kind == pw.EvLoopEnd && ev.Note == "break" {
				stop = true
			}
			// the callback's own return is the exit event right before the end of the Range iteration (helpers inlined into the
			// callback that return a bool exit earlier)
			if ev.Kind == pw.EvExit && i+1 < len(p.Events) && p.Events[i+1].Kind == pw.EvLoopEnd && ev.Frame != nil && ev.Frame.Parent != nil && len(ev.Results) == 1 && ev.Results[0] != nil && ev.Results[0].Type != nil {
				if bt, ok := ev.Results[0].Type.Underlying().(*types.Basic); ok && bt.Info()&types.IsBoolean != 0 && !b.Sharded {
					if t, known := p.Truth(ev.Results[0]); !known || !t {
						stop = true
					}
				}
			}
		}
		if stop {
			r.Bad("R11.2", op, "scan-stops-early", c.Pos(p.RetPos), "the expired scan stops before all entries were examined (loop left early / Range callback does not return true)", shortTrace(p))
			break
		}
	}
	if nDel == 0 || nKeep == 0 {
		r.Unknown("R11.2", op, fmt.Sprintf("vacuous: %d deleting iterations, %d keeping iterations", nDel, nKeep))
	} else if !hasViolation(r.Obls, "R11.2", op) {
		r.OK("R11.2", op, fmt.Sprintf("%d deleting / %d keeping iterations agree with E≠0 ∧ E<boundary", nDel, nKeep))
	}
}

// c11Wiring: R11.7 — cleanup cycles exist: the constructor starts, whenever a delete-expired or evict callback is installed, a
// goroutine that calls invokeCleanup from inside a loop.
func (c *Ctx) c11Wiring() {
	r := c.R
	info := c.Pkg.TypesInfo
	_, cleanup := c.funcDecl("Trait.invokeCleanup")
	if cleanup == nil {
		r.Unknown("R11.7", "Trait.invokeCleanup", "anchor does not resolve")
		return
	}
	// callers of invokeCleanup that call it inside a for loop
	loopCallers := map[*types.Func]bool{}
	c.eachFuncDecl(func(fd *ast.FuncDecl, fn *types.Func) {
		var walk func(n ast.Node, inLoop bool)
		walk = func(n ast.Node, inLoop bool) {
			ast.Inspect(n, func(x ast.Node) bool {
				switch y := x.(type) {
				case *ast.ForStmt:
					if !inLoop {
						walk(y.Body, true)
						return false
					}
				case *ast.RangeStmt:
					if !inLoop {
						walk(y.Body, true)
						return false
					}
				case *ast.CallExpr:
					if callee, _ := typeutil.Callee(info, y).(*types.Func); callee != nil && callee.Origin() == cleanup.Origin() && inLoop {
						loopCallers[fn.Origin()] = true
					}
				}
				return true
			})
		}
		walk(fd.Body, false)
	})
	// the wait for the cleanup tick is not restarted by other periodic work: when the tick is a time.After armed inside the loop,
	// the select that waits for it has no other case than the shutdown signal (any other wake-up re-arms the timer from zero, and
	// with a shorter period the cleanup never fires)
	c.eachFuncDecl(func(fd *ast.FuncDecl, fn *types.Func) {
		if !loopCallers[fn.Origin()] {
			return
		}
		name := strings.TrimPrefix(pw.FuncName(fn), "cache.")
		ast.Inspect(fd.Body, func(x ast.Node) bool {
			loop, ok := x.(*ast.ForStmt)
			if !ok {
				return true
			}
			ast.Inspect(loop.Body, func(y ast.Node) bool {
				sel, ok := y.(*ast.SelectStmt)
				if !ok {
					return true
				}
				cleanupCase := -1
				for i, cl := range sel.Body.List {
					cc := cl.(*ast.CommClause)
					for _, st := range cc.Body {
						ast.Inspect(st, func(z ast.Node) bool {
							if call, ok := z.(*ast.CallExpr); ok {
								if callee, _ := typeutil.Callee(info, call).(*types.Func); callee != nil && callee.Origin() == cleanup.Origin() {
									cleanupCase = i
								}
							}
							return true
						})
					}
				}
				if cleanupCase < 0 {
					return true
				}
				// is a timer armed per iteration? (time.After anywhere in the loop body)
				armedInLoop := false
				ast.Inspect(loop.Body, func(z ast.Node) bool {
					if call, ok := z.(*ast.CallExpr); ok {
						if callee, _ := typeutil.Callee(info, call).(*types.Func); callee != nil && callee.Pkg() != nil && callee.Pkg().Path() == "time" && (callee.Name() == "After" || callee.Name() == "NewTimer") {
							armedInLoop = true
						}
					}
					return true
				})
				if !armedInLoop {
					return true
				}
				for i, cl := range sel.Body.List {
					if i == cleanupCase {
						continue
					}
					cc := cl.(*ast.CommClause)
					okCase := false
					if cc.Comm != nil {
						var rx ast.Expr
						switch st := cc.Comm.(type) {
						case *ast.ExprStmt:
							rx = st.X
						case *ast.AssignStmt:
							if len(st.Rhs) == 1 {
								rx = st.Rhs[0]
							}
						}
						if ue, ok := ast.Unparen(rx).(*ast.UnaryExpr); ok && ue.Op == token.ARROW {
							if fs, ok := ast.Unparen(ue.X).(*ast.SelectorExpr); ok && fs.Sel.Name == "Closed" {
								okCase = true
							}
							if call, ok := ast.Unparen(ue.X).(*ast.CallExpr); ok {
								if fs, ok := call.Fun.(*ast.SelectorExpr); ok && fs.Sel.Name == "Done" {
									okCase = true
								}
							}
						}
					}
					if !okCase {
						r.Bad("R11.7", name, "cleanup-timer-rearmed", c.Pos(cc.Pos()), "the select that waits for the cleanup tick (a timer armed on every loop iteration) also wakes up for other work: every such wake-up restarts the cleanup timer, with a shorter period no cleanup cycle ever runs", nil)
					}
				}
				return true
			})
			return false
		})
	})
	if len(loopCallers) == 0 {
		r.Bad("R11.7", "Trait.invokeCleanup", "no-cleanup-loop", "-", "no function calls invokeCleanup from inside a loop: cleanup cycles never repeat", nil)
		return
	}
	ctor := "Trait.init"
	if _, fn := c.funcDecl(ctor); fn == nil {
		ctor = "NewTrait"
	}
	_, paths, _, err := c.runFunc(ctor, pw.Policy{Inline: inlineUnexported, MaxDepth: 2})
	if err != nil {
		r.Unknown("R11.7", ctor, err.Error())
		return
	}
	nStart, nNone, bad := 0, 0, false
	for _, p := range paths {
		installed := triFalse
		seen := 0
		for _, ev := range p.Events {
			if ev.Kind == pw.EvFieldRead && ev.Field != nil && (fname(ev.Field) == "DeleteExpired" || fname(ev.Field) == "Evict") {
				seen++
				switch nilTri(p, ev.Value) {
				case triFalse:
					installed = triTrue
				case triUnknown:
					if installed != triTrue {
						installed = triUnknown
					}
				}
			}
		}
		started := false
		for _, ev := range p.Events {
			if ev.Kind == pw.EvGo && ev.Callee != nil && loopCallers[ev.Callee.Origin()] {
				started = true
			}
		}
		switch {
		case started:
			nStart++
		case seen > 0 && installed != triFalse:
			if bad {
				continue
			}
			bad = true
			r.Bad("R11.7", ctor, "janitor-not-started", c.Pos(p.RetPos), "a delete-expired or evict callback may be installed but the constructor does not start the cleanup goroutine: no cleanup cycle ever runs", shortTrace(p))
		default:
			nNone++
		}
	}
	if nStart == 0 {
		r.Bad("R11.7", ctor, "janitor-never-started", "-", "no path of the constructor starts the cleanup goroutine", nil)
	} else if !bad {
		r.OK("R11.7", ctor, fmt.Sprintf("%d paths start the cleanup loop, %d have no callback installed", nStart, nNone))
	}
}

// c11BackendKept: the default backend a Failover creates is kept as the constructor returned it: the exported wrapper carries the
// finalizer that stops the janitor, so holding only its inner implementation lets the first GC stop all cleanup cycles.
func (c *Ctx) c11BackendKept() {
	r := c.R
	for _, sib := range siblings {
		ctor := "New" + sib
		_, paths, _, err := c.runFunc(ctor, pw.Policy{Inline: inlineUnexported, MaxDepth: 2})
		if err != nil {
			r.Unknown("R11.7", ctor, err.Error())
			continue
		}
		n, bad := 0, false
		for _, p := range paths {
			for _, ev := range p.Events {
				if ev.Kind != pw.EvCall || !strings.HasPrefix(ev.Role, "Repo:NewShardedMap") && !strings.HasPrefix(ev.Role, "Repo:NewSyncMap") || len(ev.Results) != 1 {
					continue
				}
				res := ev.Results[0]
				// where does the result go? every field write whose value derives from it must be the result itself
				for _, w := range p.Events {
					if w.Kind != pw.EvFieldWrite || w.Value == nil || w.Value == res {
						if w.Kind == pw.EvFieldWrite && w.Value == res {
							n++
						}
						continue
					}
					for x, i := w.Value, 0; x != nil && i < 4; x, i = x.Src, i+1 {
						if x == res && !bad {
							bad = true
							r.Bad("R11.7", ctor, "backend-unwrapped", c.Pos(w.Pos), "the frontend keeps a part of the backend it created ("+w.Value.String()+") instead of the value the constructor returned: the wrapper with the janitor's finalizer becomes garbage", shortTrace(p))
						}
					}
				}
			}
		}
		if n == 0 && !bad {
			r.Unknown("R11.7", ctor, "no store of a constructed backend found")
		} else if !bad {
			r.OK("R11.7", ctor, fmt.Sprintf("%d stores keep the constructed backend as returned", n))
		}
	}
}

func (c *Ctx) c11ScanSkip() {
	r := c.R
	e, paths, _, err := c.runFunc("Trait.invokeCleanup", cleanupPolicy())
	if err != nil {
		r.Unknown("R11.3", "Trait.invokeCleanup", err.Error())
		return
	}
	zero, minus1 := e.IntConst(0), e.IntConst(-1)
	nSkip, nScan := 0, 0
	for _, p := range paths {
		scanned := len(p.Calls("DynField:DeleteExpired")) > 0
		var cb, ttl, cnt *pw.Val
		for _, ev := range p.Events {
			if ev.Kind == pw.EvFieldRead && ev.Field != nil {
				switch fname(ev.Field) {
				case "DeleteExpired":
					if cb == nil {
						cb = ev.Value
					}
				case "TimeToLive":
					ttl = ev.Value
				}
			}
			if ev.Kind == pw.EvCall && ev.Role == "Std:atomic.LoadInt64" && len(ev.Args) == 1 && ev.Args[0].Field != nil && fname(ev.Args[0].Field) == "expirationsSet" {
				cnt = ev.Results[0]
			}
		}
		if scanned {
			nScan++
			continue
		}
		if cb != nil {
			if isNil, known := p.NilFact(cb); known && isNil {
				continue // no callback installed
			}
		}
		nSkip++
		okTTL := ttl != nil && p.Rel(ttl, minus1) == pw.REq
		okCnt := cnt != nil && p.Rel(cnt, zero)&pw.RGt == 0
		if !okTTL || !okCnt {
			r.Bad("R11.3", "Trait.invokeCleanup", "unsafe-skip", c.Pos(p.RetPos), "the expired-entries scan is skipped on a path that does not establish TimeToLive==UnlimitedTTL and expirationsSet<=0", shortTrace(p))
		}
	}
	if nSkip == 0 || nScan == 0 {
		r.Unknown("R11.3", "Trait.invokeCleanup", fmt.Sprintf("vacuous: %d skipping paths, %d scanning paths", nSkip, nScan))
	} else if !hasViolation(r.Obls, "R11.3", "Trait.invokeCleanup") {
		r.OK("R11.3", "Trait.invokeCleanup", fmt.Sprintf("%d scanning paths, %d skipping paths (all UnlimitedTTL ∧ expirationsSet<=0)", nScan, nSkip))
	}
	// the producer side
	e2, tpaths, _, err := c.runFunc("Trait.TTL", pw.Policy{})
	if err != nil {
		r.Unknown("R11.3", "Trait.TTL", err.Error())
		return
	}
	zero, minus1 = e2.IntConst(0), e2.IntConst(-1)
	n := 0
	for _, p := range tpaths {
		var ttl *pw.Val
		counted := false
		for _, ev := range p.Events {
			if ev.Kind == pw.EvFieldRead && ev.Field != nil && fname(ev.Field) == "TimeToLive" {
				ttl = ev.Value
			}
			if ev.Kind == pw.EvCall && ev.Role == "Std:atomic.AddInt64" && len(ev.Args) == 2 && ev.Args[0].Field != nil && fname(ev.Args[0].Field) == "expirationsSet" {
				if one, ok := poly.Of(ev.Args[1], nil).IsConst(); ok && one.Sign() > 0 {
					counted = true
				}
			}
		}
		ret := p.Ret[0]
		nonZero := p.Rel(ret, zero) != pw.REq
		unlimited := ttl == nil || p.Rel(ttl, minus1)&pw.REq != 0
		if nonZero && unlimited {
			n++
			if !counted {
				r.Bad("R11.3", "Trait.TTL", "uncounted-expiration", c.Pos(p.RetPos), "a possibly non-zero TTL is handed out under (possibly) UnlimitedTTL without incrementing expirationsSet: the janitor will never scan for it", shortTrace(p))
			}
		}
	}
	// the counter only grows: "expirationsSet == 0" must stay a proof that no expiry was ever handed out. Every other use of the field
	// is an atomic load; nothing subtracts what the janitor collected (entries expired by ExpireAll or restored from a dump were never
	// counted) and nothing stores to it
	info := c.Pkg.TypesInfo
	c.eachFuncDecl(func(fd *ast.FuncDecl, fn *types.Func) {
		if c.isNewAPI(fn) {
			return
		}
		fname2 := strings.TrimPrefix(pw.FuncName(fn), "cache.")
		var stack []ast.Node
		ast.Inspect(fd.Body, func(x ast.Node) bool {
			if x == nil {
				stack = stack[:len(stack)-1]
				return true
			}
			stack = append(stack, x)
			sel, ok := x.(*ast.SelectorExpr)
			if !ok || sel.Sel.Name != actualField("Trait", "expirationsSet") {
				return true
			}
			if sl := info.Selections[sel]; sl == nil || sl.Kind() != types.FieldVal || !strings.HasPrefix(namedTypeName(sl.Recv()), "Trait") {
				return true
			}
			// &c.expirationsSet as the first argument of atomic.LoadInt64 / atomic.AddInt64(…, positive constant)
			okUse := false
			if len(stack) >= 3 {
				if u, isU := stack[len(stack)-2].(*ast.UnaryExpr); isU && u.Op == token.AND {
					if call, isC := stack[len(stack)-3].(*ast.CallExpr); isC && len(call.Args) >= 1 && call.Args[0] == ast.Expr(u) {
						if cf, _ := typeutil.Callee(info, call).(*types.Func); cf != nil && cf.Pkg() != nil && cf.Pkg().Path() == "sync/atomic" {
							switch cf.Name() {
							case "LoadInt64":
								okUse = true
							case "AddInt64":
								if tv, has := info.Types[call.Args[1]]; has && tv.Value != nil && constant.Sign(tv.Value) > 0 {
									okUse = true
								}
							}
						}
					}
				}
			}
			if !okUse {
				r.Bad("R11.3", fname2, "expirations-counter-not-monotone", c.Pos(sel.Pos()), "expirationsSet is used other than by an atomic load or an atomic add of a positive constant: once it can go down (or be reset), 0 no longer proves that no expiry was handed out and an UnlimitedTTL cache stops scanning", nil)
			}
			return true
		})
	})
	if n == 0 {
		r.Unknown("R11.3", "Trait.TTL", "no path hands out a TTL under UnlimitedTTL")
	} else if !hasViolation(r.Obls, "R11.3", "Trait.TTL") {
		r.OK("R11.3", "Trait.TTL", fmt.Sprintf("%d paths count their expiration", n))
	}
}

// c11NoCopy: no value of type Trait / TraitOf[...] is copied.
func (c *Ctx) c11NoCopy() {
	r := c.R
	info := c.Pkg.TypesInfo
	isTrait := func(t types.Type) bool {
		if t == nil {
			return false
		}
		if _, isPtr := t.(*types.Pointer); isPtr {
			return false
		}
		n := namedTypeName(t)
		return n == "Trait" || n == "TraitOf"
	}
	nChecked := 0
	bad := false
	flag := func(e ast.Expr, where string) {
		e = ast.Unparen(e)
		if !isTrait(info.TypeOf(e)) {
			return
		}
		nChecked++
		if _, isLit := e.(*ast.CompositeLit); isLit {
			return
		}
		bad = true
		r.Bad("R11.4", "Trait", "copy:"+where, c.Pos(e.Pos()), "a Trait is copied by value ("+where+"): the janitor goroutine and the expirationsSet counter stay with the original", nil)
	}
	for _, f := range c.Pkg.Syntax {
		ast.Inspect(f, func(n ast.Node) bool {
			switch x := n.(type) {
			case *ast.AssignStmt:
				for _, rhs := range x.Rhs {
					flag(rhs, "assignment")
				}
			case *ast.ValueSpec:
				for _, v := range x.Values {
					flag(v, "declaration")
				}
			case *ast.CallExpr:
				for _, a := range x.Args {
					flag(a, "argument")
				}
			case *ast.ReturnStmt:
				for _, v := range x.Results {
					flag(v, "return")
				}
			case *ast.CompositeLit:
				for _, el := range x.Elts {
					if kv, ok := el.(*ast.KeyValueExpr); ok {
						flag(kv.Value, "literal field")
					} else {
						flag(el, "literal field")
					}
				}
			case *ast.RangeStmt:
				if x.Value != nil && isTrait(info.TypeOf(x.Value)) {
					flag(x.Value, "range value")
				}
			}
			return true
		})
	}
	// value receivers would copy too
	c.eachFuncDecl(func(fd *ast.FuncDecl, fn *types.Func) {
		sig := fn.Type().(*types.Signature)
		if sig.Recv() != nil && isTrait(sig.Recv().Type()) {
			bad = true
			r.Bad("R11.4", "Trait", "value-receiver:"+fn.Name(), c.Pos(fd.Pos()), "method with a value receiver copies the Trait on every call", nil)
		}
	})
	// the constructors must initialise in place: NewTraitOf may not dereference NewTrait's result
	r.Count("trait_typed_expressions_checked", nChecked)
	if !bad {
		r.OK("R11.4", "Trait", fmt.Sprintf("no by-value copy of Trait/TraitOf among all assignments, arguments, returns, literals and receivers (%d Trait-typed operands seen)", nChecked))
	}
}

// c11WhoDeletes: storage deletions occur only in the listed functions.
func (c *Ctx) c11WhoDeletes() {
	r := c.R
	info := c.Pkg.TypesInfo
	allowed := map[string]bool{}
	for _, b := range backends {
		for _, m := range []string{"Delete", "DeleteAll", "deleteExpired", "evictLeast"} {
			allowed[b.Name+"."+m] = true
		}
	}
	n := 0
	bad := false
	// an unexported helper all of whose callers are (helpers of) the allowed operations belongs to them
	callers := map[*types.Func]map[*types.Func]bool{}
	byName := map[*types.Func]string{}
	c.eachFuncDecl(func(fd *ast.FuncDecl, fn *types.Func) {
		byName[fn.Origin()] = strings.TrimPrefix(pw.FuncName(fn), "cache.")
		ast.Inspect(fd.Body, func(x ast.Node) bool {
			switch x := x.(type) {
			case *ast.CallExpr:
				if callee, _ := typeutil.Callee(info, x).(*types.Func); callee != nil && callee.Pkg() == c.Pkg.Types {
					if callers[callee.Origin()] == nil {
						callers[callee.Origin()] = map[*types.Func]bool{}
					}
					callers[callee.Origin()][fn.Origin()] = true
				}
			}
			return true
		})
	})
	var isAllowed func(fn *types.Func, depth int) bool
	isAllowed = func(fn *types.Func, depth int) bool {
		if allowed[byName[fn]] {
			return true
		}
		if fn.Exported() || depth > 3 || len(callers[fn]) == 0 {
			return false
		}
		for caller := range callers[fn] {
			if !isAllowed(caller, depth+1) {
				return false
			}
		}
		return true
	}
	c.eachFuncDecl(func(fd *ast.FuncDecl, fn *types.Func) {
		name := strings.TrimPrefix(pw.FuncName(fn), "cache.")
		ast.Inspect(fd.Body, func(x ast.Node) bool {
			call, ok := x.(*ast.CallExpr)
			if !ok {
				return true
			}
			isDel := false
			if id, ok := call.Fun.(*ast.Ident); ok && id.Name == "delete" && len(call.Args) == 2 {
				if _, isB := info.Uses[id].(*types.Builtin); isB {
					if sel, ok := ast.Unparen(call.Args[0]).(*ast.SelectorExpr); ok {
						if s := info.Selections[sel]; s != nil && selFieldName(s) == "data" && strings.HasPrefix(namedTypeName(s.Recv()), "hashedBucket") {
							isDel = true
						}
					}
				}
			}
			if sel, ok := call.Fun.(*ast.SelectorExpr); ok && (sel.Sel.Name == "Delete" || sel.Sel.Name == "LoadAndDelete" || sel.Sel.Name == "Clear" || sel.Sel.Name == "CompareAndDelete") {
				if t := info.TypeOf(sel.X); t != nil && namedTypeName(t) == "Map" {
					if inner, ok := ast.Unparen(sel.X).(*ast.SelectorExpr); ok {
						if s := info.Selections[inner]; s != nil && namedTypeName(s.Recv()) == "syncMap" {
							isDel = true
						}
					}
				}
			}
			if !isDel {
				return true
			}
			n++
			if !isAllowed(fn.Origin(), 0) {
				bad = true
				r.Bad("R11.5", name, "unexpected-deleter", c.Pos(call.Pos()), "storage entries are deleted outside Delete/DeleteAll/deleteExpired/evictLeast", nil)
			}
			return true
		})
	})
	r.Count("storage_delete_sites", n)
	if n < 3 {
		r.Unknown("R11.5", "package", fmt.Sprintf("only %d storage delete sites found, expected ≥ 3", n))
	} else if !bad {
		r.OK("R11.5", "package", fmt.Sprintf("%d storage delete sites, all in Delete/DeleteAll/deleteExpired/evictLeast", n))
	}
}
