#!/bin/bash
# usage: neutral_matrix_par.sh [jobs] — like neutral_matrix.sh, but N scratch worktrees in parallel (default 6); prints ok/FAIL
# lines as they come; every line must be "ok".
set -u
N=${1:-6}
T=$(mktemp -d /tmp/neutralpar.XXXX)
ls /verif/neutral/*.diff > "$T/list"
split -n l/$N -d "$T/list" "$T/part."
for part in "$T"/part.*; do
  (
    W=$(mktemp -d /tmp/neutralw.XXXX); rmdir "$W"; git -C /repo worktree add -q --detach "$W" HEAD || exit 9
    trap 'git -C /repo worktree remove --force "$W" >/dev/null 2>&1' EXIT
    while read -r d; do
      r=$(CL=${CL:-/verif/bin/cachelint} /verif/tools/try_neutral.sh "$W" "$d" 2>&1)
      if echo "$r" | grep -q "all 18 green"; then echo "ok   $(basename "$d")"; else echo "FAIL $(basename "$d")"; echo "$r" | head -8; fi
    done < "$part"
  ) &
done
wait
rm -rf "$T"
