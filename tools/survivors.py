#!/usr/bin/env python3
import json, sys
d=json.load(open(sys.argv[1])); c=d['coverage']; t=c.get('thorough_sweep',{})
cnt=c['counters']
print(d['property_id'], {k.split(':')[1]:v for k,v in cnt.items() if k.startswith('thorough:')})
print(' per op:', t.get('per_operator'))
for m in t.get('silent_mutants',[]):
    print('  %-28s %-22s L%-4d %s'%(m['func'],m['op'],m['line'],m['desc']))
