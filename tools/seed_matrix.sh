#!/bin/bash
# Applies every /verif/seeded/*/patch.diff to a scratch worktree of /repo HEAD in turn, runs all 18 quick checks against it
# (evidence into a scratch dir), reverts, and writes /verif/seeded/MATRIX.md + matrix.json: which checks report which seeded change.
set -u
SCR=$(mktemp -d /tmp/seedmatrix.XXXX); cp /verif/known_findings.json "$SCR/"
W=$(mktemp -d /tmp/seedmw.XXXX); rmdir "$W"; git -C /repo worktree add -q --detach "$W" HEAD || exit 9
trap 'git -C /repo worktree remove --force "$W" >/dev/null 2>&1; rm -rf "$SCR"' EXIT
OUT=${OUT:-/verif/seeded/matrix.json}; echo "{" > "$OUT"; first=1
# SEEDS=<glob> restricts the run (e.g. SEEDS='*-r6s*' OUT=/tmp/m6.json), tools/merge_matrix.py folds the result into matrix.json
for d in /verif/seeded/${SEEDS:-*}/; do
  id=$(basename "$d"); [ -f "$d/patch.diff" ] || continue
  git -C "$W" apply "$d/patch.diff" || { echo "APPLY FAILED $id"; continue; }
  hits=""
  for p in C01 C02 C03 C04 C05 C06 C07 C08 C09 C10 C11 C12 C13 C14 C15 C16 C17 C18; do
    o=$(${CL:-/verif/bin/cachelint} -repo "$W" -verif "$SCR" -prop $p 2>&1); rc=$?
    if [ $rc -eq 1 ]; then keys=$(echo "$o" | grep '^  violated' | sed 's/^  violated \([^ ]*\) .*/\1/' | sort -u | tr '\n' ',' | sed 's/,$//'); [ -z "$keys" ] && keys="UNDECIDED(fail-closed)"; hits="$hits\"$p\":\"$keys\","; 
    elif [ $rc -ne 0 ]; then hits="$hits\"$p\":\"BROKEN(exit $rc)\","; fi
  done
  git -C "$W" checkout -q -- . ; git -C "$W" clean -fdq
  [ $first -eq 1 ] || echo "," >> "$OUT"; first=0
  echo " \"$id\": {${hits%,}}" >> "$OUT"
  echo "$id: ${hits%,}" | cut -c1-200
done
echo "}" >> "$OUT"
