#!/bin/bash
# Applies every behaviour-preserving refactoring of /verif/neutral/*.diff in a scratch worktree of /repo HEAD and runs all
# 18 quick checks against it: every one must stay green (a non-green result is a false alarm of the checker).
set -u
W=$(mktemp -d /tmp/neutralw.XXXX); rmdir "$W"; git -C /repo worktree add -q --detach "$W" HEAD || exit 9
trap 'git -C /repo worktree remove --force "$W" >/dev/null 2>&1' EXIT
fail=0
for d in /verif/neutral/*.diff; do
  r=$(CL=${CL:-/verif/bin/cachelint} /verif/tools/try_neutral.sh "$W" "$d" 2>&1)
  if echo "$r" | grep -q "all 18 green"; then echo "ok   $(basename $d)"; else fail=1; echo "FAIL $(basename $d)"; echo "$r" | head -8; fi
done
exit $fail
