#!/usr/bin/env python3
"""Aggregates the thorough evidence of all properties: lists mutants that were analysed by at least one property and
reported by none (equivalent, outside every property, or a gap)."""
import json, glob, sys, os, collections
d=sys.argv[1] if len(sys.argv)>1 else '/tmp/thorough_out2/evidence'
silent=collections.defaultdict(set); killed=collections.defaultdict(set)
for f in sorted(glob.glob(d+'/C*.json')):
    e=json.load(open(f)); pid=e['property_id']; t=e['coverage'].get('thorough_sweep') or {}
    for m in t.get('silent_mutants',[]):
        silent["%s:%d %s %s %s"%(os.path.basename(m['file']),m['line'],m['func'],m['op'],m['desc'])].add(pid)
    for k in t.get('reported_all',[]):
        killed[k].add(pid)
nk=[k for k in silent if k not in killed]
print("mutants analysed:",len(set(silent)|set(killed)),"reported by >=1 property:",len(killed),"reported by none:",len(nk))
skip=sys.argv[2:] 
for k in sorted(nk, key=lambda s:(s.split(':')[0], int(s.split(':')[1].split()[0]))):
    if any(w in k for w in skip): continue
    print("  %-110s silent in %s"%(k[:110], ",".join(sorted(silent[k]))))
