// Package core holds loading, obligations, evidence and known-finding plumbing shared by all rules.
package core

import (
	"fmt"
	"os"
	"sort"
	"strings"

	"golang.org/x/tools/go/packages"
)

// Program is the loaded subject.
type Program struct {
	Repo  string
	Pkgs  []*packages.Package
	Cache *packages.Package // github.com/bool64/cache
	Bench *packages.Package
	Files []string
}

// LoadOpts control loading.
type LoadOpts struct {
	Repo    string
	Overlay map[string][]byte
	Env     []string
	NeedSSA bool
}

// CachePath is the import path of the subject package.
const CachePath = "github.com/bool64/cache"

// Load type-checks the repository's packages from its current working tree.
func Load(o LoadOpts) (*Program, error) {
	mode := packages.NeedName | packages.NeedFiles | packages.NeedCompiledGoFiles | packages.NeedImports |
		packages.NeedTypes | packages.NeedTypesSizes | packages.NeedSyntax | packages.NeedTypesInfo | packages.NeedModule
	if o.NeedSSA {
		mode |= packages.NeedDeps
	}
	env := append(os.Environ(), "GOFLAGS=-mod=mod", "GOPROXY=off", "GOSUMDB=off", "GOTOOLCHAIN=local", "GOWORK=off")
	env = append(env, o.Env...)
	cfg := &packages.Config{Mode: mode, Dir: o.Repo, Env: env, Overlay: o.Overlay, Tests: false}
	pkgs, err := packages.Load(cfg, "./...")
	if err != nil {
		return nil, fmt.Errorf("load: %w", err)
	}
	if len(pkgs) == 0 {
		return nil, fmt.Errorf("load: zero packages")
	}
	p := &Program{Repo: o.Repo, Pkgs: pkgs}
	var errs []string
	for _, pk := range pkgs {
		for _, e := range pk.Errors {
			errs = append(errs, e.Error())
		}
		switch pk.PkgPath {
		case CachePath:
			p.Cache = pk
		case CachePath + "/bench":
			p.Bench = pk
		}
		for _, f := range pk.CompiledGoFiles {
			p.Files = append(p.Files, strings.TrimPrefix(f, o.Repo+"/"))
		}
	}
	sort.Strings(p.Files)
	if len(errs) > 0 {
		return nil, fmt.Errorf("type errors in subject: %s", strings.Join(errs, "; "))
	}
	if p.Cache == nil {
		return nil, fmt.Errorf("package %s not found", CachePath)
	}
	return p, nil
}
