package rules

import (
	"fmt"
	"go/ast"
	"go/token"
	"go/types"
	"math/big"
	"sort"
	"strings"

	"cachelint/poly"
	"cachelint/pw"
)

func init() { register("C18", checkC18) }

// perEventMetrics are counted one event at a time: their Add value must be the constant 1.
var perEventMetrics = map[string]bool{"cache_miss": true, "cache_expired": true, "cache_hit": true, "cache_write": true, "cache_delete": true,
	"cache_build": true, "cache_failed": true, "cache_refreshed": true}

func metricCounts(evs []*pw.Event) map[string]int {
	out := map[string]int{}
	for _, ev := range evs {
		if n := metricName(ev); n != "" {
			out[n]++
			if perEventMetrics[n] && len(ev.Args) > 2 && ev.Frame != nil && !strings.HasSuffix(ev.Frame.Top(), "All") {
				if cst, ok := poly.Of(ev.Args[2], nil).IsConst(); !ok || cst.Cmp(big.NewRat(1, 1)) != 0 {
					out["!value-not-1:"+n]++
				}
			}
		}
	}
	return out
}

func fmtCounts(m map[string]int) string {
	var ks []string
	for k, v := range m {
		ks = append(ks, fmt.Sprintf("%s×%d", k, v))
	}
	sort.Strings(ks)
	return "{" + strings.Join(ks, ",") + "}"
}

// statTri: is the stats tracker present on this path? (nil-fact of the Stat/stat field value)
func statTri(p *pw.Path) tri {
	out := triUnknown
	for _, ev := range p.Events {
		if ev.Kind == pw.EvFieldRead && ev.Field != nil && (fname(ev.Field) == "Stat" || fname(ev.Field) == "stat") {
			switch nilTri(p, ev.Value) {
			case triTrue:
				return triFalse
			case triFalse:
				out = triTrue
			}
		}
	}
	return out
}

func checkC18(c *Ctx) {
	r := c.R
	r.Explanation = "Totals under real interleavings follow from per-call exactness only if the user's tracker is itself atomic; that and the " +
		"tracker are not decided. Decided statically, per path, with the tracker present (paths with a nil tracker must emit nothing): " +
		"(R18.1) every non-skipped Read emits exactly one of cache_miss / cache_expired / cache_hit, the one matching the path's own " +
		"classification, and a SkipRead read emits none; (R18.2) every Write path emits exactly one cache_write; Delete emits one " +
		"cache_delete exactly on the paths that removed an entry; (R18.3) ExpireAll / DeleteAll emit one cache_expired / cache_delete Add " +
		"whose value is the per-entry counter; (R18.4) every execution of Get emits cache_build once per builder invocation (also when the " +
		"backend rejects the write), cache_failed once per failing builder invocation and never otherwise, cache_refreshed once per stale " +
		"re-store; (R18.5) an evicting cleanup cycle emits one cache_evict carrying the evictor's return value; (R18.6) the generic and the " +
		"legacy variants are checked by the same rules (sibling agreement)."
	r.Rule("R18.1", "one of miss/expired/hit per non-skipped Read, matching the classification; none under SkipRead", 3)
	r.Rule("R18.2", "one cache_write per Write; one cache_delete per removing Delete, none otherwise", 6)
	r.Rule("R18.3", "ExpireAll/DeleteAll: one Add with the per-entry counter", 6)
	r.Rule("R18.4", "cache_build = builder invocations, cache_failed = failing ones, cache_refreshed = stale re-stores, per execution of Get", 2)
	r.Rule("R18.6", "the configured tracker is the one the instance emits to (constructor wiring)", 3)
	r.Rule("R18.5", "one cache_evict with the evictor's result per evicting cycle", 1)
	r.NotDecided = []string{"the user's tracker", "totals under real interleavings (need an atomic tracker)", "cache_items gauge timing"}
	for _, b := range backends {
		c.c18Read(b)
		c.c18WriteDelete(b)
		c.c18Batch(b)
		c.c18Internal(b)
	}
	for _, sib := range siblings {
		fo := c.failover(sib)
		if fo.Err != nil {
			r.Unknown("R18.4", sib+".Get", fo.Err.Error())
			continue
		}
		c.c18Failover(fo)
	}
	// every write is counted: the exported Store goes through Write (and its cache_write), like Load through Read (C07 R07.6)
	c.borrowKinds("C07", func() { c.c07LoadStore() }, "R18.2", "Load/Store:through-Read/Write", []string{"R07.6"}, "store-count", "load-read", "store-args")
	// "cache_delete: the entries removed by Delete": the metric follows Delete's nil result, and that result has evidence of a
	// removal (the key was found, by the full key, and taken out) — C07 R07.3
	c.borrowKinds("C07", func() {
		for _, b := range backends {
			c.c07Delete(b)
		}
	}, "R18.2", "backends.Delete:nil-means-removed", []string{"R07.3"}, "nil-without-evidence", "removed-but-notfound", "notfound-for-present")
	// "non-skipped backend reads": a read is skipped exactly when the caller's context carries the SkipRead flag — the accessor finds the
	// flag by a comma-ok lookup, and WithTTL derives its context from the one it is given (context.WithValue), so an earlier
	// WithSkipRead survives it (C06 R06.7 / R06.3)
	c.borrow("C06", func() { c.c06Accessors(); c.c06WithTTL() }, func(o *coreObl) (string, bool) {
		return "R18.1", o.Rule == "R06.7" && o.Construct == "SkipRead" || o.Rule == "R06.3" && o.Construct == "WithTTL"
	})
	// "a SkipRead read emits none": the metrics are emitted by PrepareRead, so a Read that reaches it (or returns a value) on a path that
	// never established SkipRead(ctx) = false counts a hit / expired for a read that had to be skipped — every backend Read tests the
	// flag itself or through the PrepareRead it calls (C07 R07.2; a guard hoisted into Trait.PrepareRead that TraitOf.PrepareRead lacks)
	c.borrowKinds("C07", func() { c.skipReadRule("R07.2") }, "R18.1", "backends.Read:tests-SkipRead", []string{"R07.2"}, "no-skipread-test", "skipread-not-honoured", "skipread-untested")
	// "the entries touched by ExpireAll / removed by DeleteAll": the batch operations visit every shard and every entry once, on the
	// calling goroutine's own sequence (C07 R07.4) — what they count is what they visited
	c.borrow("C07", func() {
		for _, b := range backends {
			c.c07Batch(b)
		}
	}, func(o *coreObl) (string, bool) {
		return "R18.3", o.Rule == "R07.4" && !strings.HasSuffix(o.Construct, ".Len")
	})
	c.c18Evict()
	c.c18Wiring()
	c.c18DefaultBackend()
	c.c18Adapter()
}

// c18Wiring: "with a stats tracker attached" — the tracker given in the configuration is the one the instance emits to: every
// constructor path stores config.Stats into the instance's tracker field.
func (c *Ctx) c18Wiring() {
	r := c.R
	ctors := []string{"Trait.init", "NewFailover", "NewFailoverOf"}
	if _, fn := c.funcDecl("Trait.init"); fn == nil {
		ctors[0] = "NewTrait"
	}
	for _, ctor := range ctors {
		_, paths, _, err := c.runFunc(ctor, pw.Policy{Inline: inlineUnexported, MaxDepth: 2})
		if err != nil {
			r.Unknown("R18.6", ctor, err.Error())
			continue
		}
		bad := false
		for _, p := range paths {
			wired := false
			statsReads := map[*pw.Val]bool{}
			for _, ev := range p.Events {
				if ev.Kind == pw.EvFieldRead && ev.Field != nil && fname(ev.Field) == "Stats" && ev.Value != nil {
					statsReads[ev.Value] = true
				}
			}
			isStats := func(v *pw.Val) bool {
				for v != nil && v.Kind == pw.KConv {
					v = v.Src
				}
				return v != nil && (statsReads[v] || v.Kind == pw.KField && v.Field != nil && fname(v.Field) == "Stats")
			}
			for _, ev := range p.Events {
				if ev.Kind == pw.EvFieldWrite && ev.Field != nil && strings.EqualFold(fname(ev.Field), "stat") {
					wired = isStats(ev.Value) // the last write counts
				}
			}
			if !wired && len(p.Ret) > 0 {
				if inst := pointee(p.Ret[0]); inst != nil && inst.Kind == pw.KAlloc {
					for name, fv := range inst.Fields {
						if strings.EqualFold(name, "stat") && isStats(fv) {
							wired = true
						}
					}
				}
			}
			if !wired {
				bad = true
				r.Bad("R18.6", ctor, "tracker-not-wired", c.Pos(p.RetPos), "the constructor does not store the configured Stats tracker into the instance: no metric is ever emitted", shortTrace(p))
				break
			}
		}
		if !bad {
			r.OK("R18.6", ctor, fmt.Sprintf("%d paths store config.Stats as the instance's tracker", len(paths)))
		}
	}
}

// c18DefaultBackend: a Failover without a user backend creates its own; the read/write/hit/miss/expired events of that instance
// come from this backend, so it has to be given the Failover's tracker: the options handed to the backend constructor are replayed
// in order (Config.Use assigns the whole struct, so it discards what earlier options set) and the Stats in effect must be the
// Failover configuration's Stats.
func (c *Ctx) c18DefaultBackend() {
	r := c.R
	for _, ctor := range []string{"NewFailover", "NewFailoverOf"} {
		_, paths, _, err := c.runFunc(ctor, pw.Policy{Inline: inlineUnexported, MaxDepth: 2})
		if err != nil {
			r.Unknown("R18.6", ctor+":default-backend", err.Error())
			continue
		}
		n, bad := 0, false
		for _, p := range paths {
			if bad {
				break
			}
			// the Failover configuration's tracker as read on this path
			statsReads := map[*pw.Val]bool{}
			for _, ev := range p.Events {
				if ev.Kind == pw.EvFieldRead && ev.Field != nil && fname(ev.Field) == "Stats" && ev.Value != nil {
					if owner := fieldOwnerName(ev.Field); strings.HasPrefix(owner, "FailoverConfig") {
						statsReads[ev.Value] = true
					}
				}
			}
			for i, ev := range p.Events {
				if ev.Kind != pw.EvFieldWrite || ev.Field == nil || fname(ev.Field) != "backend" || ev.Value == nil || ev.Value.Kind != pw.KCall || ev.Value.Ev == nil {
					continue
				}
				call := ev.Value.Ev
				if call.Callee == nil || !strings.HasPrefix(call.Callee.Name(), "New") {
					continue
				}
				n++
				var opts []*pw.Val
				for _, a := range call.Args {
					if a != nil && a.Kind == pw.KAlloc && len(a.Elems) > 0 {
						opts = append(opts, a.Elems...)
					} else if a != nil {
						opts = append(opts, a)
					}
				}
				state := "unset"
				for _, o := range opts {
					switch {
					case o.Kind == pw.KFuncRef && o.Obj != nil && o.Obj.Name() == "Use" && o.Recv != nil:
						state = "other"
						var v *pw.Val
						if o.Recv.Fields != nil {
							v = o.Recv.Fields["Stats"]
						}
						for _, w := range p.Events[:i] {
							if w.Kind == pw.EvFieldWrite && w.Field != nil && fname(w.Field) == "Stats" && fieldOwnerName(w.Field) == "Config" && w.Seq < call.Seq && sameHolder(w.Recv, o.Recv) {
								v = w.Value
							}
						}
						for v != nil && v.Kind == pw.KConv {
							v = v.Src
						}
						if v != nil && statsReads[v] {
							state = "failover"
						}
					case o.Kind == pw.KClosure && o.Lit != nil:
						switch closureStats(c, o.Lit) {
						case "failover":
							state = "failover"
						case "other":
							state = "other"
						}
					default:
						state = "unknown"
					}
				}
				switch state {
				case "failover":
				case "unknown":
					r.Unknown("R18.6", ctor+":default-backend", "option form not recognised at "+c.Pos(call.Pos))
					bad = true
				default:
					bad = true
					r.Bad("R18.6", ctor, "default-backend-without-tracker", c.Pos(call.Pos), "the backend the Failover creates for itself is not configured with the Failover's Stats tracker after all options are applied in order (Config.Use replaces the whole configuration): its hit/miss/expired/write events are never reported", shortTrace(p))
				}
			}
		}
		if n == 0 {
			r.Unknown("R18.6", ctor+":default-backend", "no path creates the default backend")
		} else if !bad {
			r.OK("R18.6", ctor+":default-backend", fmt.Sprintf("%d paths create the default backend with the Failover's tracker", n))
		}
	}
}

// c18Adapter: NewStatsTracker(add, set) returns the StatsTracker every counter goes through when the user supplies plain functions:
// its Add must invoke the function given as `add` (first parameter) and its Set the one given as `set`, with the arguments in order.
func (c *Ctx) c18Adapter() {
	r := c.R
	_, fn := c.funcDecl("NewStatsTracker")
	if fn == nil {
		r.Unknown("R18.6", "NewStatsTracker", "constructor does not resolve")
		return
	}
	e, paths, _, err := c.runFunc("NewStatsTracker", pw.Policy{Inline: inlineUnexported, MaxDepth: 2})
	if err != nil {
		r.Unknown("R18.6", "NewStatsTracker", err.Error())
		return
	}
	sig := fn.Type().(*types.Signature)
	if sig.Params().Len() != 2 {
		r.Unknown("R18.6", "NewStatsTracker", "unexpected signature")
		return
	}
	holder := map[string]int{} // field name → index of the parameter stored in it
	typ := ""
	for _, p := range paths {
		if p.Panic || len(p.Ret) == 0 {
			continue
		}
		v := p.Ret[0]
		for v != nil && (v.Kind == pw.KConv || v.Kind == pw.KAddr) {
			v = v.Src
		}
		if v == nil || v.Kind != pw.KAlloc || v.Fields == nil {
			r.Unknown("R18.6", "NewStatsTracker", "returned tracker is not a literal")
			return
		}
		typ = namedTypeName(v.Type)
		for name, fv := range v.Fields {
			for i := 0; i < 2; i++ {
				if fv == e.Params[sig.Params().At(i)] {
					holder[name] = i
				}
			}
		}
	}
	if typ == "" || len(holder) != 2 {
		r.Unknown("R18.6", "NewStatsTracker", fmt.Sprintf("adapter type %q holds %d of the 2 functions", typ, len(holder)))
		return
	}
	for i, m := range []string{"Add", "Set"} {
		name := typ + "." + m
		_, mfn := c.funcDecl(name)
		me, mpaths, _, err := c.runFunc(name, pw.Policy{Inline: inlineUnexported, MaxDepth: 2})
		if err != nil || mfn == nil {
			r.Unknown("R18.6", name, "adapter method does not resolve")
			continue
		}
		msig := mfn.Type().(*types.Signature)
		bad := false
		for _, p := range mpaths {
			var calls []*pw.Event
			for _, ev := range p.Events {
				if ev.Kind == pw.EvCall && ev.Callee == nil && ev.CalleeVal != nil {
					calls = append(calls, ev)
				}
			}
			if len(calls) != 1 {
				bad = true
				r.Bad("R18.6", name, "adapter-forward", c.Pos(p.RetPos), fmt.Sprintf("the adapter's %s invokes %d functions, expected exactly the one given to NewStatsTracker as %s", m, len(calls), strings.ToLower(m)), shortTrace(p))
				continue
			}
			cv := calls[0].CalleeVal
			idx, known := -1, false
			if cv.Kind == pw.KField && cv.Field != nil {
				idx, known = holder[cv.Field.Name()]
			}
			if !known || idx != i {
				bad = true
				r.Bad("R18.6", name, "adapter-forward", c.Pos(calls[0].Pos), fmt.Sprintf("the adapter's %s does not invoke the function given to NewStatsTracker as its %s parameter: increments and gauges are swapped or lost", m, strings.ToLower(m)), shortTrace(p))
				continue
			}
			args := calls[0].Args
			for k := 0; k < msig.Params().Len() && k < 3; k++ {
				if k >= len(args) || args[k] != me.Params[msig.Params().At(k)] {
					bad = true
					r.Bad("R18.6", name, "adapter-arguments", c.Pos(calls[0].Pos), fmt.Sprintf("argument %d of the forwarded call is not the method's own parameter %d", k, k), shortTrace(p))
					break
				}
			}
		}
		if !bad {
			r.OK("R18.6", name, "forwards to the function NewStatsTracker received as "+strings.ToLower(m)+", arguments in order")
		}
	}
}

// sameHolder: two values denote the same struct-valued location (same value, or field reads of the same field of the same receiver).
func sameHolder(a, b *pw.Val) bool {
	for i := 0; i < 4 && a != nil && b != nil; i++ {
		if a == b {
			return true
		}
		if a.Kind == pw.KAddr && b.Kind == pw.KAddr {
			return a.Path == b.Path
		}
		if a.Kind == pw.KAddr {
			a = a.Src
			continue
		}
		if b.Kind == pw.KAddr {
			b = b.Src
			continue
		}
		if a.Kind == pw.KField && b.Kind == pw.KField && a.Field == b.Field {
			a, b = a.Recv, b.Recv
			continue
		}
		return false
	}
	return false
}

var fieldOwnerCache = map[*types.Var]string{}

func fieldOwnerName(f *types.Var) string {
	if f == nil || f.Pkg() == nil {
		return ""
	}
	if o, ok := fieldOwnerCache[f.Origin()]; ok {
		return o
	}
	o := fieldOwnerNameSlow(f)
	fieldOwnerCache[f.Origin()] = o
	return o
}

func fieldOwnerNameSlow(f *types.Var) string {
	sc := f.Pkg().Scope()
	for _, n := range sc.Names() {
		tn, ok := sc.Lookup(n).(*types.TypeName)
		if !ok {
			continue
		}
		st, ok := tn.Type().Underlying().(*types.Struct)
		if !ok {
			continue
		}
		for i := 0; i < st.NumFields(); i++ {
			if st.Field(i).Origin() == f.Origin() {
				return canonTypeName(tn)
			}
		}
	}
	return ""
}

// closureStats inspects an option literal: "failover" when it assigns <param>.Stats from a FailoverConfig's Stats, "other" when it
// assigns Stats otherwise or replaces the whole configuration, "" when it leaves Stats alone.
func closureStats(c *Ctx, lit *ast.FuncLit) string {
	info := c.Pkg.TypesInfo
	res := ""
	ast.Inspect(lit.Body, func(x ast.Node) bool {
		as, ok := x.(*ast.AssignStmt)
		if !ok {
			return true
		}
		for i, l := range as.Lhs {
			if st, ok := ast.Unparen(l).(*ast.StarExpr); ok {
				if namedTypeName(info.TypeOf(st)) == "Config" {
					res = "other"
				}
				continue
			}
			sel, ok := ast.Unparen(l).(*ast.SelectorExpr)
			if !ok {
				continue
			}
			sl := info.Selections[sel]
			if sl == nil || sl.Kind() != types.FieldVal || selFieldName(sl) != "Stats" {
				continue
			}
			res = "other"
			if i < len(as.Rhs) && len(as.Lhs) == len(as.Rhs) {
				if rs, ok := ast.Unparen(as.Rhs[i]).(*ast.SelectorExpr); ok {
					if rsl := info.Selections[rs]; rsl != nil && rsl.Kind() == types.FieldVal && selFieldName(rsl) == "Stats" && strings.HasPrefix(namedTypeName(rsl.Recv()), "FailoverConfig") {
						res = "failover"
					}
				}
			}
		}
		return true
	})
	return res
}

func (c *Ctx) c18Read(b BK) {
	r := c.R
	op := b.Name + ".Read"
	run := c.bk(b, op, true)
	if run.err != nil {
		r.Unknown("R18.1", op, run.err.Error())
		return
	}
	n := 0
	for _, p := range run.paths {
		cnt := metricCounts(p.Events)
		total := cnt["cache_miss"] + cnt["cache_expired"] + cnt["cache_hit"]
		skip := false
		for _, ev := range p.Events {
			if ev.Kind == pw.EvCall && ev.Role == "Repo:SkipRead" {
				if t, known := p.Truth(ev.Results[0]); known && t {
					skip = true
				}
			}
		}
		if skip {
			if total != 0 {
				r.Bad("R18.1", op, "metric-on-skipped-read", c.Pos(p.RetPos), "a SkipRead read emits "+fmtCounts(cnt)+": the hit/miss/expired sum must count non-skipped reads only", shortTrace(p))
			}
			continue
		}
		st := statTri(p)
		if st == triFalse {
			continue
		}
		if st == triUnknown {
			r.Bad("R18.1", op, "tracker-unchecked", c.Pos(p.RetPos), "a Read path never consults the stats tracker", shortTrace(p))
			continue
		}
		n++
		want := ""
		errv := p.Ret[1]
		switch {
		case isConstNamed(errv, "ErrNotFound"):
			want = "cache_miss"
		case errv.Kind == pw.KAlloc && strings.HasPrefix(namedTypeName(errv.Type), "errExpired"):
			want = "cache_expired"
		default:
			if isNil, known := p.NilFact(errv); known && isNil {
				want = "cache_hit"
			}
		}
		if want == "" || total != 1 || cnt[want] != 1 {
			r.Bad("R18.1", op, "read-metric:"+want, c.Pos(p.RetPos), fmt.Sprintf("a Read classified as %q emits %s, expected exactly one %s", want, fmtCounts(cnt), want), shortTrace(p))
		}
		for k := range cnt {
			if k != want && k != "" {
				r.Bad("R18.1", op, "extra-metric:"+k, c.Pos(p.RetPos), fmt.Sprintf("a Read classified as %q also emits %s", want, k), shortTrace(p))
			}
		}
	}
	if n == 0 {
		r.Unknown("R18.1", op, "no path with a tracker")
	} else if !hasViolation(r.Obls, "R18.1", op) {
		r.OK("R18.1", op, fmt.Sprintf("%d tracked paths", n))
	}
}

// c18Internal: the janitor's removals (expired scan, eviction) are not Delete/DeleteAll events: they emit no per-operation metric
// (evictions are accounted once per cycle by cache_evict, R18.5).
func (c *Ctx) c18Internal(b BK) {
	r := c.R
	for _, m := range []string{"deleteExpired", "evictMostExpired", "evictLeastCounter"} {
		op := b.Name + "." + m
		run := c.bk(b, op, true)
		if run.err != nil {
			r.Unknown("R18.2", op, run.err.Error())
			continue
		}
		bad := false
		for _, p := range run.paths {
			if cnt := metricCounts(p.Events); len(cnt) != 0 {
				bad = true
				r.Bad("R18.2", op, "internal-removal-counted", c.Pos(p.RetPos), "the janitor's "+m+" emits "+fmtCounts(cnt)+": entries removed by cleanup/eviction are counted as Delete/Write/Read events", shortTrace(p))
				break
			}
		}
		if !bad {
			r.OK("R18.2", op, fmt.Sprintf("%d paths emit no per-operation metric", len(run.paths)))
		}
	}
}

func (c *Ctx) c18WriteDelete(b BK) {
	r := c.R
	op := b.Name + ".Write"
	run := c.bk(b, op, true)
	if run.err != nil {
		r.Unknown("R18.2", op, run.err.Error())
	} else {
		n := 0
		for _, p := range run.paths {
			cnt := metricCounts(p.Events)
			st := statTri(p)
			if st == triFalse {
				if len(cnt) != 0 {
					r.Bad("R18.2", op, "metric-without-tracker", c.Pos(p.RetPos), "metric emitted on a path where the tracker is nil", shortTrace(p))
				}
				continue
			}
			n++
			if st == triUnknown || cnt["cache_write"] != 1 || len(cnt) != 1 {
				r.Bad("R18.2", op, "write-metric", c.Pos(p.RetPos), "a Write emits "+fmtCounts(cnt)+", expected exactly one cache_write", shortTrace(p))
			}
		}
		if n == 0 {
			r.Unknown("R18.2", op, "no tracked path")
		} else if !hasViolation(r.Obls, "R18.2", op) {
			r.OK("R18.2", op, fmt.Sprintf("%d tracked paths, one cache_write each", n))
		}
	}
	op = b.Name + ".Delete"
	run = c.bk(b, op, true)
	if run.err != nil {
		r.Unknown("R18.2", op, run.err.Error())
		return
	}
	nOK, nNF := 0, 0
	for _, p := range run.paths {
		cnt := metricCounts(p.Events)
		removed := false
		if isNil, known := p.NilFact(p.Ret[0]); known && isNil {
			removed = true
		}
		st := statTri(p)
		if b.Sharded && removed {
			for _, e2 := range splitCheckActs(p) {
				r.Bad("R18.2", op, "delete-counted-twice-under-race", c.Pos(e2.Pos), "the presence check and the removal are in different critical sections: two concurrent Deletes of one entry both succeed and both count cache_delete", shortTrace(p))
			}
		}
		if !removed {
			nNF++
			if len(cnt) != 0 {
				r.Bad("R18.2", op, "delete-metric-without-removal", c.Pos(p.RetPos), "a Delete that removed nothing emits "+fmtCounts(cnt), shortTrace(p))
			}
			continue
		}
		if st == triFalse {
			continue
		}
		nOK++
		if st == triUnknown || cnt["cache_delete"] != 1 || len(cnt) != 1 {
			r.Bad("R18.2", op, "delete-metric", c.Pos(p.RetPos), "a removing Delete emits "+fmtCounts(cnt)+", expected exactly one cache_delete", shortTrace(p))
		}
	}
	if nOK > 0 && nNF == 0 {
		r.Bad("R18.2", op, "delete-always-counted", "-", "every path of Delete reports success and counts cache_delete, also for keys that are not present", nil)
	} else if nOK == 0 {
		r.Unknown("R18.2", op, fmt.Sprintf("vacuous: %d removing tracked paths, %d non-removing paths", nOK, nNF))
	} else if !hasViolation(r.Obls, "R18.2", op) {
		r.OK("R18.2", op, fmt.Sprintf("%d removing paths with one cache_delete, %d non-removing paths silent", nOK, nNF))
	}
}

func (c *Ctx) c18Batch(b BK) {
	r := c.R
	for _, s := range []struct{ op, metric string }{{"ExpireAll", "cache_expired"}, {"DeleteAll", "cache_delete"}} {
		op := b.Name + "." + s.op
		run := c.bk(b, op, true)
		if run.err != nil {
			r.Unknown("R18.3", op, run.err.Error())
			continue
		}
		n := 0
		for _, p := range run.paths {
			st := statTri(p)
			cnt := metricCounts(p.Events)
			if st == triFalse {
				continue
			}
			n++
			if ev := countersStartAtZero(p); ev != nil {
				r.Bad("R18.3", op, "counter-not-zero", c.Pos(ev.Pos), "the per-entry counter reported by the metric does not start at 0", shortTrace(p))
			}
			// what is reported is counted where the entries are touched, not measured by a separate scan: Len() taken before (or
			// after) the operation's own critical sections differs from the number of entries it removed / expired as soon as
			// another goroutine writes in between
			for _, ev := range p.Events {
				if ev.Frame != nil && ev.Frame.Parent != nil && ev.Frame.InFunc("cache."+b.Name+".Len") {
					r.Bad("R18.3", op, "count-from-separate-scan", c.Pos(ev.Pos), s.op+" runs Len() as a separate scan: the number it reports is not the number of entries its own critical sections touched", shortTrace(p))
					break
				}
			}
			if st == triUnknown || cnt[s.metric] != 1 || len(cnt) != 1 {
				r.Bad("R18.3", op, "batch-metric", c.Pos(p.RetPos), fmt.Sprintf("%s emits %s, expected exactly one %s", s.op, fmtCounts(cnt), s.metric), shortTrace(p))
				continue
			}
			// the value is the per-entry counter: a variable incremented once per iteration (C07 R07.4), converted to float64
			for _, ev := range p.Events {
				if metricName(ev) != s.metric {
					continue
				}
				v := ev.Args[2]
				for v != nil && v.Kind == pw.KConv {
					v = v.Src
				}
				ok := false
				if v != nil {
					switch v.Kind {
					case pw.KHavoc:
						ok = true
					case pw.KArith:
						ok = v.Op == token.ADD
					case pw.KConst, pw.KZero:
						// zero iterations: counter still 0. On a path that went through an entry's iteration the value is the
						// incremented counter — a constant there is the counter read before the loop ran (e.g. the argument of a
						// defer statement placed ahead of the loop, evaluated when the defer executes)
						ok = true
						for _, g := range iterations(p) {
							if g.overData {
								ok = false
							}
						}
					case pw.KParam:
						ok = true // inlined Notify: the parameter bound to the counter
					}
				}
				if !ok {
					r.Bad("R18.3", op, "batch-metric-value", c.Pos(ev.Pos), "the value added to "+s.metric+" is not the per-entry counter", shortTrace(p))
				}
			}
		}
		if n == 0 {
			r.Unknown("R18.3", op, "no tracked path")
		} else if !hasViolation(r.Obls, "R18.3", op) {
			r.OK("R18.3", op, fmt.Sprintf("%d tracked paths, one %s(counter) each", n, s.metric))
		}
	}
}

func (c *Ctx) c18Failover(fo *FO) {
	r := c.R
	cons := fo.Name + ".Get"
	nExec := 0
	for _, p := range fo.Paths {
		seqs, facts := fullSeqs(p)
		for si, seq := range seqs {
			fp := facts[si]
			if si == 0 && len(seqs) > 1 {
				// main sequence of a path that spawns: complete executions are the spawned variants; still check the main part alone
			}
			var evs []*pw.Event
			for _, se := range seq {
				evs = append(evs, se.ev)
			}
			st := triUnknown
			for _, ev := range evs {
				if ev.Kind == pw.EvFieldRead && ev.Field != nil && fname(ev.Field) == "stat" {
					switch nilTri(fp, ev.Value) {
					case triTrue:
						st = triFalse
					case triFalse:
						if st == triUnknown {
							st = triTrue
						}
					}
				}
			}
			builds, failed, refreshes := 0, 0, 0
			for _, ev := range evs {
				if isBuilderCall(fo, ev) {
					builds++
					if nilTri(fp, ev.Results[1]) == triFalse {
						failed++
					}
				}
				if ev.Kind == pw.EvCall && ev.Role == "BackendWrite" && isTTLChild(ev.Args[0]) {
					refreshes++
				}
			}
			// metrics emitted by the frontend itself (not by inlined backends: those are opaque here)
			cnt := map[string]int{}
			for _, ev := range evs {
				if n := metricName(ev); n != "" && ev.Frame != nil && (ev.Frame.InFunc("cache."+fo.Name+".doBuild") || ev.Frame.InFunc("cache."+fo.Name+".refreshStale") || ev.Frame.InFunc("cache."+fo.Name+".Get") || ev.Frame.InFunc("cache."+fo.Name+".observeMutability")) {
					cnt[n]++
					if perEventMetrics[n] && len(ev.Args) > 2 {
						if cst, ok := poly.Of(ev.Args[2], nil).IsConst(); !ok || cst.Cmp(big.NewRat(1, 1)) != 0 {
							d, t := c.pathDetail(fo, p, n+" is added with a value other than 1 per event")
							r.Bad("R18.4", cons, "metric-value:"+n, c.Pos(ev.Pos), d, t)
						}
					}
				}
			}
			if st == triFalse {
				if cnt["cache_build"]+cnt["cache_failed"]+cnt["cache_refreshed"] != 0 {
					d, t := c.pathDetail(fo, p, "metrics emitted although the tracker is nil: "+fmtCounts(cnt))
					r.Bad("R18.4", cons, "metric-without-tracker", c.Pos(p.RetPos), d, t)
				}
				continue
			}
			if builds+refreshes == 0 {
				continue
			}
			if st == triUnknown {
				d, t := c.pathDetail(fo, p, "an execution that builds or refreshes never consults the stats tracker")
				r.Bad("R18.4", cons, "tracker-unchecked", c.Pos(p.RetPos), d, t)
				continue
			}
			nExec++
			if cnt["cache_build"] != builds {
				d, t := c.pathDetail(fo, p, fmt.Sprintf("%d builder invocation(s) but cache_build emitted %d time(s)", builds, cnt["cache_build"]))
				r.Bad("R18.4", cons, "cache_build-count", c.Pos(p.RetPos), d, t)
			}
			if cnt["cache_failed"] != failed {
				d, t := c.pathDetail(fo, p, fmt.Sprintf("%d failing builder invocation(s) but cache_failed emitted %d time(s)", failed, cnt["cache_failed"]))
				r.Bad("R18.4", cons, "cache_failed-count", c.Pos(p.RetPos), d, t)
			}
			if cnt["cache_refreshed"] != refreshes {
				d, t := c.pathDetail(fo, p, fmt.Sprintf("%d stale re-store(s) but cache_refreshed emitted %d time(s)", refreshes, cnt["cache_refreshed"]))
				r.Bad("R18.4", cons, "cache_refreshed-count", c.Pos(p.RetPos), d, t)
			}
		}
	}
	if nExec == 0 {
		r.Unknown("R18.4", cons, "no tracked building execution")
	} else if !hasViolation(r.Obls, "R18.4", cons) {
		r.OK("R18.4", cons, fmt.Sprintf("%d tracked executions with builds/refreshes", nExec))
	}
}

func (c *Ctx) c18Evict() {
	r := c.R
	_, paths, _, err := c.runFunc("Trait.invokeCleanup", cleanupPolicy())
	if err != nil {
		r.Unknown("R18.5", "Trait.invokeCleanup", err.Error())
		return
	}
	n := 0
	for _, p := range paths {
		ev := p.Calls("DynField:Evict")
		cnt := metricCounts(p.Events)
		st := statTri(p)
		if len(ev) == 0 {
			if cnt["cache_evict"] != 0 {
				r.Bad("R18.5", "Trait.invokeCleanup", "evict-metric-without-eviction", c.Pos(p.RetPos), "cache_evict emitted on a cycle that did not evict", shortTrace(p))
			}
			continue
		}
		if st == triFalse {
			continue
		}
		n++
		if st == triUnknown || cnt["cache_evict"] != 1 {
			r.Bad("R18.5", "Trait.invokeCleanup", "evict-metric", c.Pos(p.RetPos), "an evicting cycle emits "+fmtCounts(cnt)+", expected one cache_evict", shortTrace(p))
			continue
		}
		for _, m := range p.Events {
			if metricName(m) == "cache_evict" {
				v := m.Args[2]
				for v != nil && v.Kind == pw.KConv {
					v = v.Src
				}
				if v != ev[0].Results[0] {
					r.Bad("R18.5", "Trait.invokeCleanup", "evict-metric-value", c.Pos(m.Pos), "cache_evict does not carry the evictor's return value", shortTrace(p))
				}
			}
		}
	}
	if n == 0 {
		r.Unknown("R18.5", "Trait.invokeCleanup", "no tracked evicting path")
	} else if !hasViolation(r.Obls, "R18.5", "Trait.invokeCleanup") {
		r.OK("R18.5", "Trait.invokeCleanup", fmt.Sprintf("%d tracked evicting paths", n))
	}
	_ = types.Typ
}
