// Package poly is engine E of cachelint: polynomial normal form (rational coefficients) of arithmetic value graphs
// produced by the pw engine, so that formulas are compared up to algebraic identity, never textually.
package poly

import (
	"fmt"
	"go/constant"
	"go/token"
	"math/big"
	"sort"
	"strings"

	"cachelint/pw"
)

// Poly maps a monomial (sorted atom names joined by '*', "" for the constant term) to its coefficient.
type Poly map[string]*big.Rat

// Const builds a constant polynomial.
func Const(r *big.Rat) Poly {
	if r.Sign() == 0 {
		return Poly{}
	}
	return Poly{"": new(big.Rat).Set(r)}
}

// Int builds an integer constant.
func Int(n int64) Poly { return Const(big.NewRat(n, 1)) }

// Rat builds a rational constant.
func Rat(a, b int64) Poly { return Const(big.NewRat(a, b)) }

// Atom builds the polynomial consisting of one atom.
func Atom(name string) Poly { return Poly{name: big.NewRat(1, 1)} }

// Add returns p+q.
func (p Poly) Add(q Poly) Poly {
	out := Poly{}
	for k, v := range p {
		out[k] = new(big.Rat).Set(v)
	}
	for k, v := range q {
		if cur, ok := out[k]; ok {
			cur.Add(cur, v)
			if cur.Sign() == 0 {
				delete(out, k)
			}
		} else {
			out[k] = new(big.Rat).Set(v)
		}
	}
	return out
}

// Neg returns -p.
func (p Poly) Neg() Poly {
	out := Poly{}
	for k, v := range p {
		out[k] = new(big.Rat).Neg(v)
	}
	return out
}

// Sub returns p-q.
func (p Poly) Sub(q Poly) Poly { return p.Add(q.Neg()) }

func mulMono(a, b string) string {
	var parts []string
	if a != "" {
		parts = append(parts, strings.Split(a, "*")...)
	}
	if b != "" {
		parts = append(parts, strings.Split(b, "*")...)
	}
	sort.Strings(parts)
	return strings.Join(parts, "*")
}

// Mul returns p*q.
func (p Poly) Mul(q Poly) Poly {
	out := Poly{}
	for k1, v1 := range p {
		for k2, v2 := range q {
			k := mulMono(k1, k2)
			c := new(big.Rat).Mul(v1, v2)
			if cur, ok := out[k]; ok {
				cur.Add(cur, c)
				if cur.Sign() == 0 {
					delete(out, k)
				}
			} else if c.Sign() != 0 {
				out[k] = c
			}
		}
	}
	return out
}

// IsConst reports whether p is a constant and returns it.
func (p Poly) IsConst() (*big.Rat, bool) {
	if len(p) == 0 {
		return new(big.Rat), true
	}
	if len(p) == 1 {
		if c, ok := p[""]; ok {
			return c, true
		}
	}
	return nil, false
}

// Div returns p/q: exact for constant q, otherwise an opaque quotient atom named canonically.
func (p Poly) Div(q Poly) Poly {
	if c, ok := q.IsConst(); ok && c.Sign() != 0 {
		return p.Mul(Const(new(big.Rat).Inv(c)))
	}
	return Atom("{(" + p.String() + ")/(" + q.String() + ")}")
}

// Equal reports algebraic identity.
func (p Poly) Equal(q Poly) bool { return len(p.Sub(q)) == 0 }

func (p Poly) String() string {
	if len(p) == 0 {
		return "0"
	}
	var ks []string
	for k := range p {
		ks = append(ks, k)
	}
	sort.Strings(ks)
	var parts []string
	for _, k := range ks {
		c := p[k].RatString()
		switch {
		case k == "":
			parts = append(parts, c)
		case c == "1":
			parts = append(parts, k)
		default:
			parts = append(parts, c+"*"+k)
		}
	}
	return strings.Join(parts, " + ")
}

// Namer assigns atom names to abstract values that are not arithmetic.
type Namer func(v *pw.Val) string

// Of normalises the value graph rooted at v. Conversions between numeric types are the identity (truncation and
// rounding are outside the model), time.Time.Add is +, UnixNano is the identity, time.Since(t) is now-t with a
// per-call "now" atom. Everything else is an atom named by namer (default: the value's identity).
func Of(v *pw.Val, namer Namer) Poly {
	if v == nil {
		return Atom("<nil>")
	}
	name := func(x *pw.Val) string {
		if namer != nil {
			if n := namer(x); n != "" {
				return n
			}
		}
		return fmt.Sprintf("v%d", x.ID)
	}
	switch v.Kind {
	case pw.KConst:
		if v.Const != nil && (v.Const.Kind() == constant.Int || v.Const.Kind() == constant.Float) {
			if r, ok := ratOf(v.Const); ok {
				return Const(r)
			}
		}
	case pw.KZero:
		return Poly{}
	case pw.KConv:
		return Of(v.Src, namer)
	case pw.KUnary:
		if v.Op == token.SUB {
			return Of(v.Src, namer).Neg()
		}
		if v.Op == token.ADD {
			return Of(v.Src, namer)
		}
	case pw.KArith:
		a, b := Of(v.Src, namer), Of(v.Src2, namer)
		switch v.Op {
		case token.ADD:
			return a.Add(b)
		case token.SUB:
			return a.Sub(b)
		case token.MUL:
			return a.Mul(b)
		case token.QUO:
			return a.Div(b)
		}
	case pw.KCall:
		if v.Ev != nil && v.Ev.Callee != nil {
			switch pw.FuncName(v.Ev.Callee) {
			case "time.Time.Add":
				if len(v.Ev.Args) == 1 {
					return Of(v.Ev.Recv, namer).Add(Of(v.Ev.Args[0], namer))
				}
			case "time.Time.UnixNano":
				return Of(v.Ev.Recv, namer)
			case "time.Time.Sub":
				if len(v.Ev.Args) == 1 {
					return Of(v.Ev.Recv, namer).Sub(Of(v.Ev.Args[0], namer))
				}
			case "time.Since":
				if len(v.Ev.Args) == 1 {
					return Atom(fmt.Sprintf("now@%d", v.Ev.Seq)).Sub(Of(v.Ev.Args[0], namer))
				}
			case "time.Duration.Seconds":
				return Of(v.Ev.Recv, namer).Mul(Rat(1, 1000000000))
			}
		}
	}
	return Atom(name(v))
}

func ratOf(c constant.Value) (*big.Rat, bool) {
	switch c.Kind() {
	case constant.Int:
		if i, ok := constant.Int64Val(c); ok {
			return big.NewRat(i, 1), true
		}
		if bi, ok := constant.Val(c).(*big.Int); ok {
			return new(big.Rat).SetInt(bi), true
		}
	case constant.Float:
		switch x := constant.Val(c).(type) {
		case *big.Rat:
			return x, true
		case *big.Float:
			r, _ := x.Rat(nil)
			if r != nil {
				return r, true
			}
		}
		f, _ := constant.Float64Val(c)
		r := new(big.Rat)
		if r.SetFloat64(f) != nil {
			return r, true
		}
	}
	return nil, false
}
