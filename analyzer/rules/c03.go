package rules

import (
	"fmt"
	"go/types"
	"math/big"
	"sort"
	"strings"

	"cachelint/pw"
)

func init() { register("C03", checkC03) }

// cfgVal returns the abstract value of a config field if the path read it.
func (fo *FO) cfgVal(p *pw.Path, name string) *pw.Val {
	return p.Heap(fmt.Sprintf("$%d.config.%s", fo.Recv.ID, name))
}

// tri is a three-valued boolean.
type tri int

const (
	triUnknown tri = iota
	triTrue
	triFalse
)

func (t tri) options() []bool {
	switch t {
	case triTrue:
		return []bool{true}
	case triFalse:
		return []bool{false}
	}
	return []bool{false, true}
}

func (fo *FO) cfgBool(p *pw.Path, name string) tri {
	v := fo.cfgVal(p, name)
	if v == nil {
		return triUnknown
	}
	if t, known := p.Truth(v); known {
		if t {
			return triTrue
		}
		return triFalse
	}
	return triUnknown
}

func nilTri(p *pw.Path, v *pw.Val) tri {
	if v == nil {
		return triUnknown
	}
	if n, known := p.NilFact(v); known {
		if n {
			return triTrue
		}
		return triFalse
	}
	return triUnknown
}

// c03Outcome is what a lone Get did on a path.
type c03Outcome struct {
	value     string // provenance tag of the returned value
	errTag    string // "nil" or provenance tag of the error
	build     string // none | sync | background
	refreshed bool
}

func (o c03Outcome) String() string {
	return fmt.Sprintf("value=%s error=%s build=%s refreshed=%v", o.value, o.errTag, o.build, o.refreshed)
}

// c03Cell is one concrete input cell.
type c03Cell struct {
	entry      string // fresh | absent | stale-ok | too-stale
	failCache  string // off | miss | hit
	syncUpdate bool
	failHard   bool
	refreshOK  bool
	buildOK    bool // builder returned nil error
	writeOK    bool // final backend write returned nil
	staleIsNil bool // the stale value is nil (non-generic API cannot serve it)
}

func (c c03Cell) String() string {
	return fmt.Sprintf("entry=%s failcache=%s SyncUpdate=%v FailHard=%v refreshOK=%v buildOK=%v writeOK=%v staleNil=%v",
		c.entry, c.failCache, c.syncUpdate, c.failHard, c.refreshOK, c.buildOK, c.writeOK, c.staleIsNil)
}

// c03Spec is the documented decision table (property statement + README bullets 2-7). It returns "" if the outcome
// is allowed in the cell, otherwise what is wrong.
func c03Spec(cell c03Cell, o c03Outcome) string {
	stale := o.value == "Stale" && o.errTag == "nil"
	switch cell.entry {
	case "fresh":
		if o.value == "ReadVal" && o.errTag == "nil" && o.build == "none" && !o.refreshed {
			return ""
		}
		return "a fresh value must be returned as is, without refresh or build"
	case "absent":
		if o.refreshed {
			return "nothing to refresh for an absent entry"
		}
		if cell.failCache == "hit" {
			if o.build == "none" && o.errTag == "CachedFailure" {
				return ""
			}
			return "absent entry with a cached failure must return the cached error without building"
		}
		if o.build != "sync" {
			return "absent entry must block on a synchronous build"
		}
		switch {
		case cell.buildOK && cell.writeOK:
			if o.value == "Built" && o.errTag == "nil" {
				return ""
			}
			return "successful build must return the built value"
		case !cell.buildOK:
			if o.errTag == "BuildErr" {
				return ""
			}
			return "failed build with no cached value must return the builder error"
		default:
			if o.errTag == "WriteErr" || o.value == "Built" && o.errTag == "nil" {
				return ""
			}
			return "rejected write must return the write error (or the built value)"
		}
	case "too-stale":
		if o.refreshed {
			return "a value expired longer than MaxStaleness must not be re-stored for other readers"
		}
		if cell.failCache == "hit" {
			if o.build == "none" && (stale && !cell.failHard || o.errTag == "CachedFailure") {
				return ""
			}
			return "cached failure: no build; the cached error, or (not under FailHard) the stale value"
		}
		if o.build != "sync" {
			return "too-stale entry must block on a synchronous build"
		}
		return c03AfterSyncBuild(cell, o, stale)
	case "stale-ok":
		if !o.refreshed {
			return "an acceptable stale value must be refreshed with UpdateTTL before building"
		}
		if !cell.refreshOK {
			if o.build == "none" && strings.HasPrefix(o.errTag, "Wrapped(WriteErr)") || o.errTag == "WriteErr" {
				return ""
			}
			return "failed refresh must return the backend's write error without building"
		}
		if cell.failCache == "hit" {
			if o.build == "none" && (stale && !cell.failHard || o.errTag == "CachedFailure") {
				return ""
			}
			return "cached failure: no build; the cached error, or (not under FailHard) the stale value"
		}
		if !cell.syncUpdate {
			if o.build == "background" && stale {
				return ""
			}
			return "acceptable stale value without SyncUpdate must be returned immediately while the build runs in background"
		}
		if o.build != "sync" {
			return "SyncUpdate must build before returning"
		}
		return c03AfterSyncBuild(cell, o, stale)
	}
	return "unknown cell"
}

func c03AfterSyncBuild(cell c03Cell, o c03Outcome, stale bool) string {
	switch {
	case cell.buildOK && cell.writeOK:
		if o.value == "Built" && o.errTag == "nil" {
			return ""
		}
		return "successful rebuild must return the built value (never the stale one)"
	case !cell.buildOK:
		if cell.failHard {
			if o.errTag == "BuildErr" {
				return ""
			}
			return "FailHard: failed build must return the builder error"
		}
		if stale {
			return ""
		}
		if cell.staleIsNil && o.errTag == "BuildErr" {
			return "" // a cached nil cannot be told apart from "none exists" in the interface{} API
		}
		return "failed build must serve the previously cached value unless FailHard"
	default:
		if o.errTag == "WriteErr" || stale && !cell.failHard || o.value == "Built" && o.errTag == "nil" {
			return ""
		}
		return "rejected write must return the write error, the stale value or the built value"
	}
}

func checkC03(c *Ctx) {
	r := c.R
	r.Explanation = "The decision table of a lone Get is extracted from the code instead of sampled: every feasible path of Get on which the " +
		"caller is the key-lock owner (or returns before the election) is classified into input cells from the path's own facts " +
		"(read error class, MaxStaleness comparison, failure-cache state, SyncUpdate, FailHard, refresh/build/write results) and its outcome " +
		"(provenance of value and error, build mode none/sync/background, refresh) is compared with the documented table (property " +
		"statement + README bullets 2–7). The MaxStaleness classification is specified independently of the branch the code took: " +
		"stale-ok ⇔ MaxStaleness==0 ∨ since<MaxStaleness (equality is don't-care). Cells where the documentation is ambiguous " +
		"(stale value × cached failure) accept both readings. Decides the table for every cell of both siblings; does not decide " +
		"how an entry is classified on a real clock, nor FailedUpdateTTL durations."
	r.Rule("R03.1", "every lone-call path's outcome is allowed by the documented table in every input cell consistent with the path's facts", 2)
	r.Rule("R03.2", "every documented cell is reachable (has at least one feasible path)", 2)
	r.Rule("R03.5", "the background build of a stale-served Get runs under a context detached from the caller's cancellation (obligations of C06 R06.4)", 3)
	r.Rule("R03.4", "a cached failure is what the table's 'failure cached' input means: every build failure is cached, for FailedUpdateTTL (obligations of C05 R05.3/R05.6)", 6)
	r.Rule("R03.3", "entry state as seen by the frontend: the in-module backends classify fresh / absent / expired (with the value) by E vs now", 3)
	r.NotDecided = []string{"classification of an entry on a real clock", "backend-error cells (property is silent; C02 applies)", "concurrent calls (C01/C02/C05)"}
	for _, sib := range siblings {
		fo := c.failover(sib)
		if fo.Err != nil {
			r.Unknown("R03.1", sib+".Get", fo.Err.Error())
			continue
		}
		c.c03Sibling(fo)
	}
	// R03.3: the entry state reaches the frontend as documented — the in-module backends report fresh / absent / expired-with-
	// value exactly by E vs now (an expired entry must not look absent: its value is the stale fallback)
	c.borrow("C07", func() {
		for _, b := range backends {
			c.c07Read(b)
		}
	}, func(o *coreObl) (string, bool) { return "R03.3", o.Rule == "R07.2" })
	// … and what Get stores is stored: Write performs its store whatever the state of the (caller's) context (C08 R08.3) — otherwise a
	// Get under a done context turns "stale served" / "built value returned" into a write error
	c.borrowKinds("C08", func() {
		for _, b := range backends {
			c.c08Backend(b)
		}
	}, "R03.3", "backends.Write:stores", []string{"R08.3"}, "write-effect")
	// R03.5: "returned immediately while the build runs in background": that build is not tied to the caller's context, which is
	// typically cancelled right after Get returned (C06 R06.4)
	c.borrow("C06", func() { c.c06Detached() }, func(o *coreObl) (string, bool) { return "R03.5", o.Rule == "R06.4" })
	for _, sib := range siblings {
		if fo := c.failover(sib); fo.Err == nil {
			fo := fo
			c.borrowKinds("C06", func() { c.c06Sibling(fo) }, "R03.5", sib+".Get:background-build-detached", []string{"R06.4"}, "bg-ctx-not-detached")
		}
	}
	// R03.4: "whether a failure is cached for the key" — the failure cache holds a build failure for FailedUpdateTTL: written under a
	// private default-TTL cell (not the caller's TTL), the cell being what WithTTL(ctx, DefaultTTL, false) installs, with the
	// configured/default FailedUpdateTTL as the cache's TimeToLive
	c.borrow("C05", func() {
		for _, sib := range siblings {
			if fo := c.failover(sib); fo.Err == nil {
				c.c05Sibling(fo)
			}
			c.c05Constructor(sib)
			c.ctorDefaults("R05.6", "New"+sib, "config", map[string]*big.Rat{"FailedUpdateTTL": big.NewRat(20*1000000000, 1)})
		}
		c.borrow("C06", func() { c.c06WithTTL() }, func(o *coreObl) (string, bool) { return "R05.6", o.Rule == "R06.3" })
	}, func(o *coreObl) (string, bool) { return "R03.4", o.Rule == "R05.6" || o.Rule == "R05.3" })
	// "a lone Get" finds no key lock left behind by an earlier Get: the background build releases the entry registered for the key
	// through its private copy of the key (C04 R04.1/R04.4) — a leaked entry makes every later lone Get a waiter on a closed lock
	for _, sib := range siblings {
		if fo := c.failover(sib); fo.Err == nil {
			fo := fo
			c.borrowKinds("C01", func() { c.c01Sibling(fo) }, "R03.1", sib+".Get:release-on-every-exit", []string{"R01.4", "R01.5"},
				"missing-release", "leak", "double-release", "waiter-releases", "bg-release-key-from-caller-slice")
			c.borrowKinds("C04", func() { c.c04Sibling(fo) }, "R03.1", sib+".Get:no-lock-left-behind", []string{"R04.1", "R04.4"},
				"bg-release-key-from-caller-slice", "bg-uses-caller-key", "leak", "double-release", "waiter-releases", "missing-release")
		}
	}
	c.c03ExpiryErrorTypes()
	// "expired within MaxStaleness / beyond it": the instant Get compares with MaxStaleness is the ExpiredAt() of the read error, which is
	// tsTime(entry.E); tsTime inverts ts exactly (C10 R10.5) — a view that is up to a second early turns a just-expired value into a
	// too-stale one
	c.borrow("C10", func() { c.c10Views() }, func(o *coreObl) (string, bool) { return "R03.3", o.Rule == "R10.5" })
	// the options of the documented table (SyncUpdate, SyncRead, FailHard, MaxStaleness, …) are the ones the user configured: the
	// constructors complete zero fields only, they do not derive one option from another
	c.configOverwritesIn("R03.1", "NewFailover", "FailoverConfig", nil)
	c.configOverwritesIn("R03.1", "NewFailoverOf", "FailoverConfigOf", nil)
}

func (c *Ctx) c03Sibling(fo *FO) {
	r := c.R
	cons := fo.Name + ".Get"
	cellsSeen := map[string]int{}
	nLone := 0
	zero := fo.E.IntConst(0)
	_ = fo.E.IntConst(-1)
	for _, p := range fo.Paths {
		if len(p.Unsup) > 0 {
			r.Unknown("R03.1", cons, "unmodelled construct: "+p.Unsup[0])
			return
		}
		cl, err := fo.classify(p)
		if err != nil {
			r.Unknown("R03.1", cons, err.Error())
			return
		}
		if cl.lookup != nil && cl.found {
			continue // not a lone call
		}
		nLone++
		// the backend read(s) of the path: a lone path has exactly one
		reads := p.Calls("BackendRead")
		var readEv *pw.Event
		for _, ev := range reads {
			if readEv == nil {
				readEv = ev
			}
		}
		noRead := readEv == nil
		if !noRead && len(readEv.Results) != 2 {
			r.Unknown("R03.1", cons, "backend read with unexpected results at "+c.Pos(p.RetPos))
			return
		}
		if len(reads) > 1 {
			d, t := c.pathDetail(fo, p, "lone Get reads the backend twice")
			r.Bad("R03.1", cons, "double-read", c.Pos(reads[1].Pos), d, t)
			continue
		}
		var rerr *pw.Val
		if !noRead {
			rerr = readEv.Results[1]
		}
		// entry classes consistent with the facts
		var entries []string
		if noRead {
			// the path decides without looking at the backend: it must be right whatever the entry state is
			entries = []string{"fresh", "absent", "stale-ok", "too-stale"}
		}
		switch {
		case noRead:
		default:
			switch nilTri(p, rerr) {
			case triTrue:
				entries = []string{"fresh"}
			case triUnknown:
				d, t := c.pathDetail(fo, p, "path never tests the backend read error")
				r.Bad("R03.1", cons, "unchecked-read", c.Pos(readEv.Pos), d, t)
				continue
			default:
				// As / Is facts on this error
				as, is := triUnknown, triUnknown
				var asTarget *pw.Val
				for _, ev := range p.Events {
					if ev.Kind != pw.EvCall || ev.Callee == nil || len(ev.Args) == 0 || ev.Args[0] != rerr {
						continue
					}
					switch pw.FuncName(ev.Callee) {
					case "errors.As":
						if t, known := p.Truth(ev.Results[0]); known {
							as = map[bool]tri{true: triTrue, false: triFalse}[t]
						}
						_ = asTarget
					case "errors.Is":
						if len(ev.Args) > 1 && ev.Args[1].Obj != nil && ev.Args[1].Obj.Name() == "ErrNotFound" {
							if t, known := p.Truth(ev.Results[0]); known {
								is = map[bool]tri{true: triTrue, false: triFalse}[t]
							}
						}
					}
				}
				// identity with the bare sentinel (`err == ErrNotFound`): the same answer errors.As/Is would give for it
				for _, cv := range fo.E.Vals {
					if !isConstNamed(cv, "ErrNotFound") {
						continue
					}
					for _, k := range []*pw.Val{cv, cv.Canon} {
						if k != nil && p.Rel(rerr, k) == pw.REq {
							as, is = triFalse, triTrue
						}
					}
				}
				switch {
				case as == triTrue:
					entries = fo.staleClasses(p, rerr, zero)
				case as == triFalse && is == triTrue:
					entries = []string{"absent"}
				case as == triFalse && is == triFalse:
					entries = nil // backend error: property silent
				case as == triFalse:
					entries = []string{"absent"} // the code does not distinguish absent from foreign errors on this path
				default:
					d, t := c.pathDetail(fo, p, "path never asks whether the read error carries an expired item")
					r.Bad("R03.1", cons, "unclassified-read-error", c.Pos(readEv.Pos), d, t)
					continue
				}
			}
		}
		if len(entries) == 0 {
			continue
		}
		// outcome
		out := c03Outcome{build: "none"}
		retIdx := len(p.Events)
		for i, ev := range p.Events {
			if ev.Kind == pw.EvReturn && ev.Frame.Parent == nil && !ev.Frame.Deferred {
				retIdx = i
			}
		}
		var builderEv, finalWrite, refreshWrite, errorsRead *pw.Event
		scan := func(evs []*pw.Event, bg bool) {
			for _, ev := range evs {
				if isBuilderCall(fo, ev) {
					builderEv = ev
					if bg {
						out.build = "background"
					} else {
						out.build = "sync"
					}
				}
				if ev.Kind == pw.EvCall && ev.Role == "BackendWrite" {
					if isTTLChild(ev.Args[0]) {
						refreshWrite = ev
						out.refreshed = true
					} else {
						finalWrite = ev
					}
				}
				if ev.Kind == pw.EvCall && ev.Role == "ErrorsRead" {
					errorsRead = ev
				}
			}
		}
		scan(p.Events[:retIdx], false)
		var bgPaths []*pw.Path
		for _, g := range goEvents(p) {
			bgPaths = append(bgPaths, g.Sub...)
		}
		for _, sp := range bgPaths {
			for _, ev := range sp.Events {
				if isBuilderCall(fo, ev) && out.build == "none" {
					out.build = "background"
				}
			}
		}
		val, errv := p.Ret[0], p.Ret[1]
		out.value = fo.valueProv(p, p.Events, cl, val).tag
		if n, known := p.NilFact(errv); known && n {
			out.errTag = "nil"
		} else {
			out.errTag = fo.errProv(p, p.Events, cl, errv, 0).tag
			if !known {
				out.errTag = "maybe:" + out.errTag
			}
		}
		// remaining cell dimensions
		failCaches := []string{"off", "miss"}
		if fv := fo.cfgVal(p, "FailedUpdateTTL"); fv != nil {
			enabledTri := gtMinus1(p, fo.E, fv)
			switch {
			case enabledTri == triTrue: // > -1
				failCaches = []string{"miss"}
				if errorsRead != nil {
					switch nilTri(p, errorsRead.Results[1]) {
					case triTrue:
						failCaches = []string{"hit"}
					case triFalse:
						failCaches = []string{"miss"}
					default:
						failCaches = []string{"miss", "hit"}
					}
				} else {
					// enabled but never consulted on this path: the path must be allowed in both cells.
					failCaches = []string{"miss", "hit"}
				}
			case enabledTri == triFalse:
				failCaches = []string{"off"}
			}
		} else {
			failCaches = []string{"off", "miss", "hit"}
		}
		staleNil := triFalse
		// stale value nil-ness (non-generic only)
		for _, ev := range p.Events {
			if ev.Kind == pw.EvCall && ev.Role == "StaleValue" && len(ev.Results) > 0 {
				staleNil = nilTri(p, ev.Results[0])
				if staleNil == triUnknown {
					staleNil = triFalse
				}
			}
		}
		refresh := triTrue
		if refreshWrite != nil {
			refresh = nilTri(p, refreshWrite.Results[0])
		}
		buildOK, writeOK := triUnknown, triUnknown
		if builderEv != nil && out.build == "sync" {
			buildOK = nilTri(p, builderEv.Results[1])
			if finalWrite != nil {
				writeOK = nilTri(p, finalWrite.Results[0])
			}
		}
		su, fh := fo.cfgBool(p, "SyncUpdate"), fo.cfgBool(p, "FailHard")
		// pre-election fresh hit: everything else irrelevant
		for _, entry := range entries {
			if entry == "fresh" {
				cell := c03Cell{entry: "fresh"}
				cellsSeen[cell.entry]++
				if why := c03Spec(cell, out); why != "" {
					d, t := c.pathDetail(fo, p, fmt.Sprintf("cell [%s]: %s; observed %s", cell, why, out))
					r.Bad("R03.1", cons, "fresh:"+kindOf(why), c.Pos(p.RetPos), d, t)
				}
				continue
			}
			for _, fc := range failCaches {
				for _, s := range su.options() {
					for _, h := range fh.options() {
						for _, rok := range refresh.options() {
							for _, bok := range buildOK.options() {
								for _, wok := range writeOK.options() {
									// nil-tri semantics: triTrue means "error is nil" = OK
									cell := c03Cell{entry: entry, failCache: fc, syncUpdate: s, failHard: h,
										refreshOK: triIsOK(refresh, rok), buildOK: triIsOK(buildOK, bok), writeOK: triIsOK(writeOK, wok),
										staleIsNil: staleNil == triTrue}
									key := fmt.Sprintf("%s/%s/su=%v/fh=%v", cell.entry, cell.failCache, s, h)
									cellsSeen[key]++
									if why := c03Spec(cell, out); why != "" {
										d, t := c.pathDetail(fo, p, fmt.Sprintf("cell [%s]: %s; observed %s", cell, why, out))
										r.Bad("R03.1", cons, entry+"/"+fc+":"+kindOf(why), c.Pos(p.RetPos), d, t)
									}
								}
							}
						}
					}
				}
			}
		}
	}
	r.Count("lone_paths:"+cons, nLone)
	var ks []string
	for k := range cellsSeen {
		ks = append(ks, k)
	}
	sort.Strings(ks)
	r.Count("cells:"+cons, len(ks))
	r.Extra["cells_"+fo.Name] = ks
	if !hasViolation(r.Obls, "R03.1", cons) {
		r.OK("R03.1", cons, fmt.Sprintf("%d lone-call paths, %d distinct (entry, failure cache, SyncUpdate, FailHard) cells, all outcomes allowed", nLone, len(ks)))
	}
	// reachability of documented cells
	missing := []string{}
	for _, e := range []string{"fresh", "absent", "stale-ok", "too-stale"} {
		found := false
		for k := range cellsSeen {
			if strings.HasPrefix(k, e) {
				found = true
			}
		}
		if !found {
			missing = append(missing, e)
		}
	}
	if len(missing) > 0 {
		r.Bad("R03.2", cons, "unreachable-cells", "-", "no feasible lone-call path for entry classes: "+strings.Join(missing, ", "), nil)
	} else {
		r.OK("R03.2", cons, "fresh, absent, stale-ok and too-stale all reachable")
	}
}

// triIsOK interprets a nil-tri of an error ("error is nil") with a chosen option for the unknown case.
func triIsOK(t tri, opt bool) bool {
	switch t {
	case triTrue:
		return true
	case triFalse:
		return false
	}
	return opt
}

func kindOf(why string) string {
	w := strings.Fields(why)
	if len(w) > 5 {
		w = w[:5]
	}
	return strings.Join(w, "-")
}

// isTTLChild: the context argument is the result of WithTTL (the private child used for the stale refresh).
func isTTLChild(v *pw.Val) bool {
	return v != nil && v.Kind == pw.KCall && v.Ev != nil && v.Ev.Role == "Repo:WithTTL"
}

// staleClasses evaluates the documented MaxStaleness rule under the path's ordering facts.
func (fo *FO) staleClasses(p *pw.Path, rerr, zero *pw.Val) []string {
	max := fo.cfgVal(p, "MaxStaleness")
	if max == nil {
		return []string{"stale-ok", "too-stale"}
	}
	// the "time since expiry" atom: time.Since(x.ExpiredAt()) or time.Now().Sub(x.ExpiredAt())
	var since *pw.Val
	for _, ev := range p.Events {
		if ev.Kind != pw.EvCall {
			continue
		}
		if ev.Role == "Std:time.Since" && len(ev.Args) == 1 && ev.Args[0].Kind == pw.KCall && ev.Args[0].Ev.Role == "StaleExpiredAt" {
			since = ev.Results[0]
		}
		if ev.Role == "Std:time.Time.Sub" && len(ev.Args) == 1 && ev.Args[0].Kind == pw.KCall && ev.Args[0].Ev.Role == "StaleExpiredAt" {
			since = ev.Results[0]
		}
	}
	relMax0 := p.Rel(max, zero)
	relSM := uint8(pw.RAny)
	if since != nil {
		relSM = p.Rel(since, max)
	}
	got := map[string]bool{}
	for _, a := range []uint8{pw.RLt, pw.REq, pw.RGt} {
		if relMax0&a == 0 {
			continue
		}
		for _, b := range []uint8{pw.RLt, pw.RGt} { // equality is don't-care
			if relSM&b == 0 {
				continue
			}
			if a == pw.REq || b == pw.RLt {
				got["stale-ok"] = true
			} else {
				got["too-stale"] = true
			}
		}
		if a == pw.REq {
			got["stale-ok"] = true
		}
	}
	var out []string
	for _, k := range []string{"stale-ok", "too-stale"} {
		if got[k] {
			out = append(out, k)
		}
	}
	return out
}

// c03ExpiryErrorTypes: the frontends recognise a stale entry with errors.As into their expired-item interface. Every in-module
// expiry error must be assignable to the interface of every frontend that can sit on its backend: errExpired (ShardedMap, SyncMap)
// to ErrWithExpiredItem and to ErrWithExpiredItemOf[any] (FailoverOf[any] over a non-generic backend), errExpiredOf[V] to
// ErrWithExpiredItemOf[V]. A method added to one interface only makes errors.As fail silently: stale values are then treated as
// absent.
func (c *Ctx) c03ExpiryErrorTypes() {
	r := c.R
	scope := c.Pkg.Types.Scope()
	ifNon, _ := scope.Lookup("ErrWithExpiredItem").(*types.TypeName)
	ifGen, _ := scope.Lookup("ErrWithExpiredItemOf").(*types.TypeName)
	errNon := c.lookupType("errExpired")
	errGen := c.lookupType("errExpiredOf")
	if ifNon == nil || ifGen == nil || errNon == nil || errGen == nil {
		r.Unknown("R03.3", "expiry-error-types", "expired-item interfaces or error types do not resolve")
		return
	}
	anyT := types.Universe.Lookup("any").Type()
	inst := func(tn *types.TypeName) types.Type {
		n, ok := tn.Type().(*types.Named)
		if !ok || n.TypeParams().Len() != 1 {
			return tn.Type()
		}
		t, err := types.Instantiate(nil, n, []types.Type{anyT}, false)
		if err != nil {
			return nil
		}
		return t
	}
	impl := func(t, iface types.Type) bool {
		if t == nil || iface == nil {
			return false
		}
		it, ok := iface.Underlying().(*types.Interface)
		// the backends return the expiry error by value: the value's method set is what errors.As / errors.Is see
		return ok && types.Implements(t, it)
	}
	checks := []struct {
		name  string
		t, it types.Type
	}{
		{"errExpired→ErrWithExpiredItem", errNon.Type(), ifNon.Type()},
		{"errExpired→ErrWithExpiredItemOf[any]", errNon.Type(), inst(ifGen)},
		{"errExpiredOf[any]→ErrWithExpiredItemOf[any]", inst(errGen), inst(ifGen)},
	}
	for _, ck := range checks {
		if impl(ck.t, ck.it) {
			r.OK("R03.3", ck.name, "assignable: errors.As in the frontend recognises this backend's expiry error")
		} else {
			r.Bad("R03.3", ck.name, "expiry-error-not-recognised", c.Pos(errNon.Pos()), "this expiry error type does not implement the expired-item interface a frontend matches with errors.As: expired entries of that backend are treated as absent (no stale serving, no fallback on build failure)", nil)
		}
	}
	// … and both match the exported sentinel: errors.Is(err, ErrExpired) finds an Is(error) bool method in the method set of the
	// value that is returned (a pointer receiver on Is, with the error returned by value, is never consulted)
	for _, ck := range []struct {
		name string
		t    types.Type
	}{{"errExpired", errNon.Type()}, {"errExpiredOf[any]", inst(errGen)}} {
		ok := false
		if ck.t != nil {
			ms := types.NewMethodSet(ck.t)
			for i := 0; i < ms.Len(); i++ {
				if fn, isFn := ms.At(i).Obj().(*types.Func); isFn && fn.Name() == "Is" {
					if sig, _ := fn.Type().(*types.Signature); sig != nil && sig.Params().Len() == 1 && sig.Results().Len() == 1 {
						ok = true
					}
				}
			}
		}
		if ok {
			r.OK("R03.3", ck.name+".Is", "the returned value has an Is method: errors.Is(err, ErrExpired) matches")
		} else {
			r.Bad("R03.3", ck.name, "sentinel-not-matched", c.Pos(errNon.Pos()), "the expiry error as returned (by value) has no Is(error) bool method in its method set: errors.Is(err, ErrExpired) is false for expired entries of that backend", nil)
		}
	}
}
