#!/bin/bash
# usage: confirm_seed.sh <seed dir> <n> <out dir>   — confirms a seeded change in a scratch worktree of /repo HEAD:
# patch applies, existing suite passes with it, demo fails with it, demo passes without it. Writes <out>/<prop>-seed<n>.result
set -u
D="$1"; N="$2"; OUT="$3"; P=$(basename "$D")
export GOFLAGS=-mod=mod GOPROXY=off GOSUMDB=off GOTOOLCHAIN=local GOWORK=off
W=$(mktemp -d /tmp/confirm.XXXXXX); rmdir "$W"
git -C /repo worktree add -q --detach "$W" HEAD || exit 9
res="$OUT/$P-seed$N.result"; : > "$res"
cleanup() { git -C /repo worktree remove --force "$W" >/dev/null 2>&1; }
trap cleanup EXIT
cd "$W"
patch="$D/seed$N.diff"; [ -f "$D/seed$N.rebased.diff" ] && patch="$D/seed$N.rebased.diff"
if ! git apply "$patch" 2>>"$res"; then echo "apply=FAIL" >> "$res"; exit 0; fi
echo "apply=ok" >> "$res"
suite=FAIL
for try in 1 2 3; do if go test -vet=off -count=1 ./... > "$OUT/$P-seed$N.suite.log" 2>&1; then suite=ok; break; fi; done
echo "suite_with_change=$suite" >> "$res"
cp "$D/seed${N}_demo_test.go.txt" "$W/zz_seed_demo_test.go"
if go test -vet=off -count=1 ${RACE:-} -run 'Seed' . > "$OUT/$P-seed$N.demo_with.log" 2>&1; then echo "demo_with_change=PASS(unexpected)" >> "$res"; else echo "demo_with_change=fails" >> "$res"; fi
git apply -R "$patch"
if go test -vet=off -count=1 ${RACE:-} -run 'Seed' . > "$OUT/$P-seed$N.demo_without.log" 2>&1; then echo "demo_without_change=passes" >> "$res"; else echo "demo_without_change=FAIL(unexpected)" >> "$res"; fi
