#!/usr/bin/env python3
"""Regenerates /verif/MANIFEST.json from tools/claims.json (one record per property)."""
import json, os
here = os.path.dirname(os.path.dirname(os.path.abspath(__file__)))
claims = json.load(open(os.path.join(here, "tools", "claims.json")))
props = [json.loads(l)["id"] for l in open(os.path.join(here, "properties.jsonl"))]
checks, na = [], []
for pid in props:
    c = claims.get(pid)
    if not c or not c.get("claimed"):
        na.append({"property_id": pid, "reason": (c or {}).get("reason", "no static rule built yet for this property in this round")})
        continue
    checks.append({
        "property_id": pid,
        "quick_cmd": f"./check.sh {pid} quick",
        "thorough_cmd": f"./check.sh {pid} thorough",
        "evidence_file": f"/verif/evidence/{pid}.json",
        "replay_cmd_template": f"./check.sh {pid} quick   # re-derives the violation; details in {{path}}",
        "engine": "cachelint",
        "level_claimed": {"category": "other", "text": c["text"], "design_ref": c.get("design_ref", f"DESIGN.md §3 {pid}")},
        "level_note": c["note"],
        "technique": c["technique"],
    })
m = {
    "version": 1,
    "setup_cmd": "cd /verif/analyzer && GOFLAGS=-mod=mod GOPROXY=off GOSUMDB=off GOTOOLCHAIN=local GOWORK=off go build -o /verif/bin/cachelint ./cmd/cachelint",
    "hooks": {"guard": "verif", "enable": "none needed: the checks read source and add nothing to it", 
              "baseline_off_cmd": "cd /repo && GOFLAGS=-mod=mod GOPROXY=off GOSUMDB=off go test -vet=off -count=1 ./...",
              "source_commits": [], "add_only": True},
    "engines": [{"name": "cachelint", "path": "/verif/analyzer", "serves_properties": [c["property_id"] for c in checks],
                 "kind_free_text": "custom static analyser (go/packages + go/types typed AST): path-sensitive typestate walker with helper inlining and predicate abstraction, lockset replay, value-provenance, who-may-call queries; nothing from /repo is executed"}],
    "checks": checks,
    "not_applicable": na,
    "notes": "All claims are at level 'other': each check decides named structural necessary conditions of its property for every path/configuration, not the runtime behaviour itself; see DESIGN.md.",
}
json.dump(m, open(os.path.join(here, "MANIFEST.json"), "w"), indent=1)
print("checks:", len(checks), "not_applicable:", len(na))
