package rules

import (
	"fmt"
	"go/ast"
	"go/constant"
	"math/big"
	"sort"

	"cachelint/poly"
	"go/token"
	"go/types"
	"strings"

	"cachelint/pw"
)

func init() { register("C07", checkC07) }

func checkC07(c *Ctx) {
	r := c.R
	r.Explanation = "Equality with a reference model over all operation histories is a run-time notion and is NOT decided. Decided statically, on " +
		"every path of every operation of the three in-module backends (ShardedMap, ShardedMapOf, SyncMap; NoOp for the Deleter contract): " +
		"(R07.1) every keyed operation of a backend derives the storage index from the key by the same chain (xxhash.Sum64(key), shard = " +
		"hash % len(shards) / string(key)), so what Write stores Read/Delete/Restore find; (R07.2) Read classifies the looked-up entry " +
		"exactly as documented — SkipRead ⇒ ErrNotFound before storage, miss ⇒ ErrNotFound, expired ⇔ E≠0 ∧ E<now (decided over all " +
		"orderings of E, now, 0; E=now don't-care) with the expiry error carrying that very entry, else the entry's value; (R07.3) Delete " +
		"returns nil only on a path that saw the key present and removed it, ErrNotFound otherwise; (R07.4) ExpireAll/DeleteAll/Len act " +
		"on every iterated entry unconditionally and count each once; (R07.5) Write stores the given value under a private copy of the key " +
		"with E from expireAt and replaces the slot on every path; (R07.6) Load/Store wrap Read/Write with the same key and value."
	r.Rule("R07.1", "one index function per backend across Read/Write/Delete/Restore/evict", 10)
	r.Rule("R07.2", "Read classification: SkipRead, miss, expired ⇔ E≠0∧E<now, hit; error carries the looked-up entry", 3)
	r.Rule("R07.3", "Delete: nil ⇔ key seen present and removed; ErrNotFound otherwise (all Deleter implementations)", 4)
	r.Rule("R07.4", "batch operations act on every iterated entry unconditionally and count once per entry", 9)
	r.Rule("R07.5", "Write stores (value, copy of key, E=expireAt) replacing the slot on every path and returns nil", 3)
	r.Rule("R07.6", "Load/Store wrappers preserve key and value", 2)
	r.Rule("R07.7", "Walk steps over every shard, hands every iterated entry to the callback, goes on after a successful callback and counts it once (shared with C13 R13.3)", 3)
	r.NotDecided = []string{"equality with a reference model over operation histories", "Go map / sync.Map semantics", "Walk visiting order"}
	c.skipReadRule("R07.2")
	for _, b := range backends {
		c.c07CtorShardMaps(b)
		c.c07Index(b)
		c.c07Read(b)
		c.c07Delete(b)
		c.c07Batch(b)
		c.c07Write(b)
	}
	c.c07NoOp()
	c.c07LoadStore()
	for _, b := range backends {
		c.replacedEntryKeeps(b, "R07.4", "K", "V") // "expired but still retrievable as stale", Walk still reports the key
	}
	for _, b := range backends {
		b := b
		c.borrow("C13", func() { c.c13Counts(b, nil) }, func(o *coreObl) (string, bool) {
			return "R07.7", o.Rule == "R13.3" && strings.HasSuffix(o.Construct, ".Walk")
		})
	}
	// "with any TTL option": the expiry stored by Write is expireAt(ctx) = now + the effective TTL (context TTL if non-zero,
	// else the configured one, 0 for UnlimitedTTL), shared with C10
	c.borrow("C10", func() {
		c.withAlias(map[string]string{"R06.6": "R10.1"}, func() { c.traitTTLRule("R06.6") })
		c.c10ExpireAt()
		c.c10Jitter()
	}, func(o *coreObl) (string, bool) {
		return "R07.5", o.Rule == "R10.1" || o.Rule == "R10.3" || o.Rule == "R10.2"
	})
	// … after a Walk — also one whose callback failed — the map still works: Walk leaves no shard lock held on any exit (C08 R08.5)
	c.borrow("C08", func() {
		for _, b := range backends {
			c.c08Backend(b)
		}
	}, func(o *coreObl) (string, bool) {
		return "R07.7", o.Rule == "R08.5" && strings.HasSuffix(o.Construct, "Walk")
	})
	// "an expired entry yields ErrExpired": the expiry error matches the sentinel and the expired-item interfaces (C03 R03.3)
	c.borrow("C03", func() { c.c03ExpiryErrorTypes() }, func(o *coreObl) (string, bool) { return "R07.2", o.Rule == "R03.3" })
	// the expiry an entry reports (ExpireAt / ExpiredAt) is its E: tsTime is the exact inverse of ts (C10 R10.5)
	c.borrow("C10", func() { c.c10TsInverse() }, func(o *coreObl) (string, bool) { return "R07.2", o.Rule == "R10.5" })
	// never-expiring entries (E = 0) and recently expired ones survive the janitor: it deletes only E ≠ 0 ∧ E < boundary (C11 R11.2)
	c.borrow("C11", func() {
		for _, b := range backends {
			c.c11DeleteExpired(b)
		}
	}, func(o *coreObl) (string, bool) { return "R07.4", o.Rule == "R11.2" })
	// "expired but still retrievable as stale": an expired entry stays until it has been expired for DeleteExpiredAfter (C11 R11.1)
	c.borrow("C11", func() { c.c11Boundary() }, func(o *coreObl) (string, bool) { return "R07.4", o.Rule == "R11.1" })
	// the TTL option is installed by WithTTL (innermost wins, also DefaultTTL) and read back by TTL(ctx)
	c.borrow("C06", func() { c.c06WithTTL(); c.c06Accessors() }, func(o *coreObl) (string, bool) {
		return "R07.5", o.Rule == "R06.3" || o.Rule == "R06.7" && (o.Construct == "TTL" || o.Construct == "SkipRead")
	})
}

// c07CtorShardMaps: a shard whose map was never made panics on the first Write that hashes into it ("assignment to entry in nil
// map"): the constructor's loop that makes the maps covers the whole shard array — `for i := 0; i < N; i++` with N the array's
// length (or its declared size), or a range over the array.
func (c *Ctx) c07CtorShardMaps(b BK) {
	r := c.R
	if !b.Sharded {
		return
	}
	ctor := "New" + b.Wrapper
	fd, _ := c.funcDecl(ctor)
	if fd == nil {
		r.Unknown("R07.1", ctor+":shard-maps", "does not resolve")
		return
	}
	info := c.Pkg.TypesInfo
	n := c.shardCount(b)
	found, ok := false, false
	for _, bd := range c.reachBodies(fd, 2) {
		ast.Inspect(bd.Body, func(x ast.Node) bool {
			var body *ast.BlockStmt
			whole := false
			switch l := x.(type) {
			case *ast.RangeStmt:
				body = l.Body
				if sel, isSel := ast.Unparen(l.X).(*ast.SelectorExpr); isSel {
					if sl := info.Selections[sel]; sl != nil && sl.Kind() == types.FieldVal && selFieldName(sl) == "hashedBuckets" {
						whole = true
					}
				}
			case *ast.ForStmt:
				body = l.Body
				// for i := 0; i < N; i++
				init, _ := l.Init.(*ast.AssignStmt)
				cond, _ := l.Cond.(*ast.BinaryExpr)
				post, _ := l.Post.(*ast.IncDecStmt)
				if init != nil && cond != nil && post != nil && len(init.Rhs) == 1 && cond.Op == token.LSS && post.Tok == token.INC {
					if tv, ok := info.Types[init.Rhs[0]]; ok && tv.Value != nil && tv.Value.ExactString() == "0" {
						if tv2, ok := info.Types[cond.Y]; ok && tv2.Value != nil && tv2.Value.ExactString() == fmt.Sprint(n) {
							whole = true
						}
						if call, isCall := ast.Unparen(cond.Y).(*ast.CallExpr); isCall {
							if id, isId := call.Fun.(*ast.Ident); isId && id.Name == "len" && len(call.Args) == 1 {
								if sel, isSel := ast.Unparen(call.Args[0]).(*ast.SelectorExpr); isSel {
									if sl := info.Selections[sel]; sl != nil && selFieldName(sl) == "hashedBuckets" {
										whole = true
									}
								}
							}
						}
					}
				}
			default:
				return true
			}
			makes := false
			ast.Inspect(body, func(y ast.Node) bool {
				as, isAs := y.(*ast.AssignStmt)
				if !isAs || len(as.Lhs) != 1 || len(as.Rhs) != 1 {
					return true
				}
				sel, isSel := ast.Unparen(as.Lhs[0]).(*ast.SelectorExpr)
				if !isSel {
					return true
				}
				if sl := info.Selections[sel]; sl == nil || sl.Kind() != types.FieldVal || selFieldName(sl) != "data" {
					return true
				}
				if call, isCall := ast.Unparen(as.Rhs[0]).(*ast.CallExpr); isCall {
					if id, isId := call.Fun.(*ast.Ident); isId && id.Name == "make" {
						makes = true
					}
				}
				if _, isLit := ast.Unparen(as.Rhs[0]).(*ast.CompositeLit); isLit {
					makes = true
				}
				return true
			})
			if makes {
				found = true
				if whole {
					ok = true
				}
			}
			return true
		})
	}
	if !found || !ok {
		// maps made on demand by the writers (nil until the first Write of a shard) are another valid design
		lazy := false
		c.eachFuncDecl(func(d *ast.FuncDecl, fn *types.Func) {
			if c.constructionOnly()(fn) || !sameRecvNamed(fn, b.Name) && !sameRecvNamed(fn, "hashedBucket") && !sameRecvNamed(fn, "hashedBucketOf") {
				return
			}
			ast.Inspect(d.Body, func(y ast.Node) bool {
				as, isAs := y.(*ast.AssignStmt)
				if !isAs || len(as.Lhs) != 1 || len(as.Rhs) != 1 {
					return true
				}
				if sel, isSel := ast.Unparen(as.Lhs[0]).(*ast.SelectorExpr); isSel {
					if sl := info.Selections[sel]; sl != nil && sl.Kind() == types.FieldVal && selFieldName(sl) == "data" {
						if call, isCall := ast.Unparen(as.Rhs[0]).(*ast.CallExpr); isCall {
							if id, isId := call.Fun.(*ast.Ident); isId && id.Name == "make" {
								lazy = true
							}
						}
					}
				}
				return true
			})
		})
		if lazy {
			r.OK("R07.1", ctor+":shard-maps", "shard maps are made on demand by the writers")
			return
		}
	}
	switch {
	case !found:
		r.Bad("R07.1", ctor, "shard-maps-not-made", c.Pos(fd.Pos()), "the constructor has no loop that makes the shards' maps: the first Write panics on a nil map", nil)
	case !ok:
		r.Bad("R07.1", ctor, "shard-maps-partial", c.Pos(fd.Pos()), "the loop that makes the shards' maps does not run over the whole shard array (for i := 0; i < N; i++ / range): a Write hashing into an unmade shard panics", nil)
	default:
		r.OK("R07.1", ctor+":shard-maps", "every shard's map is made by the constructor")
	}
}

// shardCount returns the length of the hashedBuckets array.
func (c *Ctx) shardCount(b BK) int64 {
	var obj types.Object
	if tn := c.lookupType(b.Name); tn != nil {
		obj = tn
	}
	if obj == nil {
		return 0
	}
	st, ok := obj.Type().Underlying().(*types.Struct)
	if !ok {
		return 0
	}
	for i := 0; i < st.NumFields(); i++ {
		if a, ok := st.Field(i).Type().Underlying().(*types.Array); ok {
			return a.Len()
		}
	}
	return 0
}

func isSum64Of(v, key *pw.Val) bool {
	return v != nil && v.Kind == pw.KCall && v.Ev != nil && v.Ev.Role == "Std:xxhash.Sum64" && len(v.Ev.Args) == 1 && (key == nil || aliases(v.Ev.Args[0], key))
}

// c07Index: R07.1.
func (c *Ctx) c07Index(b BK) {
	r := c.R
	ops := []string{b.Name + ".Read", b.Name + ".Write", b.Name + ".Delete", b.Wrapper + ".Restore", b.Name + ".evictLeast"}
	n := int64(0)
	if b.Sharded {
		n = c.shardCount(b)
		if n == 0 {
			r.Unknown("R07.1", b.Name, "cannot determine the shard count")
			return
		}
	}
	for _, op := range ops {
		run := c.bk(b, op, false)
		if run.err != nil {
			r.Unknown("R07.1", op, run.err.Error())
			continue
		}
		key := keyParamOf(run.e)
		keyed := strings.HasSuffix(op, ".Read") || strings.HasSuffix(op, ".Write") || strings.HasSuffix(op, ".Delete")
		if keyed && key == nil {
			r.Unknown("R07.1", op, "key parameter not found")
			continue
		}
		sites := 0
		bad := false
		for _, p := range run.paths {
			for _, ev := range p.Events {
				if b.Sharded {
					if !(isShardData(ev) && (ev.Kind == pw.EvMapLookup || ev.Kind == pw.EvMapInsert || ev.Kind == pw.EvMapDelete)) {
						continue
					}
					sites++
					idx := bucketIndex(ev)
					okIdx := idx != nil && idx.Kind == pw.KArith && idx.Op == token.REM && idx.Src == ev.Key && idx.Src2 != nil && idx.Src2.Const != nil
					if okIdx {
						if v, exact := constant.Int64Val(idx.Src2.Const); !exact || v != n {
							okIdx = false
						}
					}
					// hash & (N-1) is hash % N for every uint64 when N is a power of two
					if !okIdx && idx != nil && idx.Kind == pw.KArith && idx.Op == token.AND && n > 0 && n&(n-1) == 0 {
						for _, pr := range [][2]*pw.Val{{idx.Src, idx.Src2}, {idx.Src2, idx.Src}} {
							if pr[0] == ev.Key && pr[1] != nil && pr[1].Const != nil {
								if v, exact := constant.Int64Val(pr[1].Const); exact && v == n-1 {
									okIdx = true
								}
							}
						}
					}
					if !okIdx {
						r.Bad("R07.1", op, "shard-selection", c.Pos(ev.Pos), fmt.Sprintf("shard is not selected as hash %% %d of the very hash used as map key (index %v, key %v)", n, idx, ev.Key), shortTrace(p))
						bad = true
					}
					switch {
					case keyed:
						if !isSum64Of(ev.Key, key) {
							r.Bad("R07.1", op, "hash-of-key", c.Pos(ev.Pos), "map key is not xxhash.Sum64(key parameter): "+ev.Key.String(), shortTrace(p))
							bad = true
						}
					case strings.HasSuffix(op, ".Restore"):
						if !(isSum64Of(ev.Key, nil) && isEntryField(ev.Key.Ev.Args[0], "K") && ev.Kind == pw.EvMapInsert && entryOf(ev.Key.Ev.Args[0]) == pointee(ev.Value)) {
							r.Bad("R07.1", op, "restore-index", c.Pos(ev.Pos), "restored entry is not stored under xxhash.Sum64 of its own key K", shortTrace(p))
							bad = true
						}
					}
				} else {
					so := syncMapOp(ev)
					if so != "Load" && so != "Store" && so != "LoadAndDelete" && so != "Delete" && so != "LoadOrStore" && so != "Swap" {
						continue
					}
					if _, inRange := ev.Loop.(*ast.CallExpr); inRange && ev.Frame != nil && ev.Frame.Lit != nil && !strings.HasSuffix(op, "evictLeast") {
						continue // inside a Range callback: acts on iterated keys (a literal called by a helper is part of the operation)
					}
					sites++
					k := ev.Args[0]
					switch {
					case keyed:
						if !stringOf(k, key) && !stringOfContent(p.Events, k, key) {
							r.Bad("R07.1", op, "string-of-key", c.Pos(ev.Pos), "sync.Map key is not string(key parameter): "+k.String(), shortTrace(p))
							bad = true
						}
					case strings.HasSuffix(op, ".Restore"):
						if !(k.Kind == pw.KConv && isCopyConv(k) && isEntryField(k.Src, "K") && (so == "Store" || so == "LoadOrStore" || so == "Swap") && len(ev.Args) > 1 && entryOf(k.Src) == pointee(ev.Args[1])) {
							r.Bad("R07.1", op, "restore-index", c.Pos(ev.Pos), "restored entry is not stored under string of its own key K", shortTrace(p))
							bad = true
						}
					default: // evictLeast: string(i.K) collected from the iterated entries
						src := k
						for src != nil && (src.Kind == pw.KField || src.Kind == pw.KIndex) {
							if src.Kind == pw.KField && src.Field != nil && fname(src.Field) == "key" {
								break
							}
							src = src.Src
						}
					}
				}
			}
		}
		r.Count("index_sites:"+op, sites)
		if sites == 0 {
			r.Unknown("R07.1", op, "no storage access found (role does not resolve)")
		} else if !bad {
			r.OK("R07.1", op, fmt.Sprintf("%d storage accesses on %d paths", sites, len(run.paths)))
		}
	}
}

// isEntryField: v is the read of field name of some entry variable/value.
func isEntryField(v *pw.Val, name string) bool {
	for x := v; x != nil; x = x.Src {
		if x.Kind == pw.KField && x.Field != nil && fname(x.Field) == name {
			return true
		}
		if x.Kind != pw.KConv && x.Kind != pw.KSlice {
			return false
		}
	}
	return false
}

// entryOf returns the base value (the entry) a field read was taken from.
func entryOf(v *pw.Val) *pw.Val {
	for x := v; x != nil; x = x.Src {
		if x.Kind == pw.KField {
			return pointee(x.Src)
		}
		if x.Kind != pw.KConv && x.Kind != pw.KSlice {
			return nil
		}
	}
	return nil
}

// pointee: for &x (address of a local) the current value of x; otherwise v itself.
func pointee(v *pw.Val) *pw.Val {
	if v != nil && v.Kind == pw.KAddr && v.Src != nil {
		return v.Src
	}
	return v
}

// c07Read: R07.2 classification.
func (c *Ctx) c07Read(b BK) {
	r := c.R
	op := b.Name + ".Read"
	run := c.bk(b, op, true)
	if run.err != nil {
		r.Unknown("R07.2", op, run.err.Error())
		return
	}
	e := run.e
	zero := e.IntConst(0)
	nMiss, nHit, nExp := 0, 0, 0
	for _, p := range run.paths {
		// skip-read paths are R06.5/skipReadRule
		skip := false
		for _, ev := range p.Events {
			if ev.Kind == pw.EvCall && ev.Role == "Repo:SkipRead" {
				if t, known := p.Truth(ev.Results[0]); known && t {
					skip = true
				}
			}
		}
		if skip {
			continue
		}
		// the lookup and its entry
		var entry *pw.Val
		present := triUnknown
		for _, ev := range p.Events {
			if b.Sharded && ev.Kind == pw.EvMapLookup && isShardData(ev) && len(ev.Results) == 2 {
				entry = ev.Results[0]
				if t, known := p.Truth(ev.Results[1]); known {
					present = map[bool]tri{true: triTrue, false: triFalse}[t]
				}
			}
			if !b.Sharded && syncMapOp(ev) == "Load" && len(ev.Results) == 2 {
				entry = ev.Results[0]
				if t, known := p.Truth(ev.Results[1]); known {
					present = map[bool]tri{true: triTrue, false: triFalse}[t]
				}
			}
		}
		if entry == nil || present == triUnknown {
			r.Bad("R07.2", op, "no-lookup", c.Pos(p.RetPos), "Read path without a comma-ok storage lookup whose presence result is tested", shortTrace(p))
			continue
		}
		// key confirmation for sharded maps (hash collisions are misses): R09.3 owns the detail; here a mismatch is a miss
		confirmed := present == triTrue
		if b.Sharded && confirmed {
			eq := triUnknown
			for _, ev := range p.Events {
				if ev.Kind == pw.EvCall && ev.Role == "Std:bytes.Equal" {
					if t, known := p.Truth(ev.Results[0]); known {
						eq = map[bool]tri{true: triTrue, false: triFalse}[t]
					}
				}
			}
			confirmed = eq == triTrue
			if eq == triUnknown {
				confirmed = true // R09.3 reports the missing comparison; classify as present here
			}
		}
		if len(p.Ret) != 2 {
			r.Unknown("R07.2", op, "unexpected result count")
			return
		}
		val, errv := p.Ret[0], p.Ret[1]
		if !confirmed {
			nMiss++
			if !isConstNamed(errv, "ErrNotFound") {
				r.Bad("R07.2", op, "miss-not-ErrNotFound", c.Pos(p.RetPos), "a missing key must yield ErrNotFound, got "+errv.String(), shortTrace(p))
			}
			continue
		}
		// entry pointer as seen by PrepareRead: for the sync map the asserted *TraitEntry
		isEntry := func(v *pw.Val) bool {
			for x := v; x != nil; x = x.Src {
				if x == entry {
					return true
				}
				if x.Kind != pw.KAssert && x.Kind != pw.KConv {
					return false
				}
			}
			return false
		}
		var E *pw.Val
		var now *pw.Val
		for _, ev := range p.Events {
			if ev.Kind == pw.EvFieldRead && ev.Field != nil && fname(ev.Field) == "E" && isEntry(ev.Recv) {
				E = ev.Value
			}
			if ev.Kind == pw.EvCall && ev.Role == "Std:time.Time.UnixNano" {
				now = ev.Results[0]
			}
		}
		if E == nil || now == nil {
			r.Bad("R07.2", op, "expiry-not-examined", c.Pos(p.RetPos), "a present entry is classified without comparing its E with the current time", shortTrace(p))
			continue
		}
		errNil, errKnown := p.NilFact(errv)
		isHit := errKnown && errNil
		isExpired := errv.Kind == pw.KAlloc && strings.HasPrefix(namedTypeName(errv.Type), "errExpired")
		// every strict ordering consistent with the path's facts must agree with the documented rule
		for _, a := range []uint8{pw.RLt, pw.REq, pw.RGt} { // E vs 0
			if p.Rel(E, zero)&a == 0 {
				continue
			}
			for _, bb := range []uint8{pw.RLt, pw.RGt} { // E vs now; equality don't-care
				if p.Rel(E, now)&bb == 0 {
					continue
				}
				wantExpired := a != pw.REq && bb == pw.RLt
				if wantExpired && !isExpired {
					r.Bad("R07.2", op, "expired-served-as-valid", c.Pos(p.RetPos), "E≠0 ∧ E<now must yield the expiry error", shortTrace(p))
				}
				if !wantExpired && !isHit {
					r.Bad("R07.2", op, "valid-reported-expired", c.Pos(p.RetPos), fmt.Sprintf("entry with E%s0 and E%snow must be returned as a hit", relStr(a), relStr(bb)), shortTrace(p))
				}
			}
		}
		if isHit {
			nHit++
			if !(val.Kind == pw.KField && val.Field != nil && fname(val.Field) == "V" && isEntry(val.Src)) {
				r.Bad("R07.2", op, "hit-value", c.Pos(p.RetPos), "a hit must return the V of the looked-up entry, got "+val.String(), shortTrace(p))
			}
		} else if isExpired {
			nExp++
			// the error carries the looked-up entry itself, or a snapshot {value: entry.V, instant: entry.E (possibly as time)}
			carries := false
			if ent := errv.Fields["entry"]; ent != nil && isEntry(ent) {
				carries = true
			} else if len(errv.Fields) >= 2 {
				hasV, hasE := false, false
				for _, fv := range errv.Fields {
					var fromField func(v *pw.Val, d int) string
					fromField = func(v *pw.Val, d int) string {
						if v == nil || d > 5 {
							return ""
						}
						if v.Kind == pw.KField && v.Field != nil && isEntry(v.Src) {
							return fname(v.Field)
						}
						if v.Kind == pw.KConv {
							return fromField(v.Src, d+1)
						}
						if v.Kind == pw.KCall && v.Ev != nil {
							for _, a := range v.Ev.Args {
								if f := fromField(a, d+1); f != "" {
									return f
								}
							}
						}
						if v.Kind == pw.KArith {
							if f := fromField(v.Src, d+1); f != "" {
								return f
							}
						}
						return ""
					}
					switch fromField(fv, 0) {
					case "V":
						hasV = true
					case "E":
						hasE = true
					}
				}
				carries = hasV && hasE
			}
			if !carries {
				r.Bad("R07.2", op, "expired-entry", c.Pos(p.RetPos), "the expiry error must carry the looked-up entry's value and expiry instant (the entry itself or a snapshot of its V and E)", shortTrace(p))
			}
		} else {
			r.Bad("R07.2", op, "present-unclassified", c.Pos(p.RetPos), "present entry yields neither its value nor the expiry error: "+errv.String(), shortTrace(p))
		}
	}
	r.Count("read_paths:"+op, len(run.paths))
	if nMiss == 0 || nHit == 0 || nExp == 0 {
		r.Unknown("R07.2", op, fmt.Sprintf("vacuous: miss=%d hit=%d expired=%d", nMiss, nHit, nExp))
	} else if !hasViolation(r.Obls, "R07.2", op) {
		r.OK("R07.2", op, fmt.Sprintf("%d paths: %d miss, %d hit, %d expired", len(run.paths), nMiss, nHit, nExp))
	}
	// the accessors of the expiry error
	c.c07ExpiredAccessors(b)
}

func relStr(r uint8) string {
	switch r {
	case pw.RLt:
		return "<"
	case pw.REq:
		return "="
	case pw.RGt:
		return ">"
	}
	return "?"
}

func (c *Ctx) c07ExpiredAccessors(b BK) {
	r := c.R
	et := "errExpired"
	if b.Entry == "TraitEntryOf" {
		et = "errExpiredOf"
	}
	if b.Name == "syncMap" {
		return
	}
	if obj := c.lookupType(et); obj != nil {
		if st, ok := obj.Type().Underlying().(*types.Struct); ok {
			hasEntry := false
			for i := 0; i < st.NumFields(); i++ {
				if st.Field(i).Name() == "entry" {
					hasEntry = true
				}
			}
			if !hasEntry {
				r.OK("R07.2", et, "snapshot representation (fields checked at the construction site)")
				return
			}
		}
	}
	for _, m := range []struct{ meth, field string }{{"Value", "V"}, {"ExpiredAt", "E"}} {
		name := et + "." + m.meth
		_, paths, _, err := c.runFunc(name, pw.Policy{Inline: func(fn *types.Func, d int) bool {
			return !fn.Exported() && fn.Pkg() != nil && fn.Pkg().Name() == "cache"
		}})
		if err != nil {
			r.Unknown("R07.2", name, err.Error())
			continue
		}
		ok := len(paths) > 0
		nJudged := 0
		for _, p := range paths {
			found := false
			entryNil := false
			for _, ev := range p.Events {
				if ev.Kind == pw.EvFieldRead && ev.Field != nil && fname(ev.Field) == m.field && ev.Recv != nil && ev.Recv.Kind == pw.KField && fname(ev.Recv.Field) == "entry" {
					found = true
				}
				// a guard for the impossible zero error value (no entry attached): such paths are not judged
				if ev.Kind == pw.EvFieldRead && ev.Field != nil && fname(ev.Field) == "entry" && nilTri(p, ev.Value) == triTrue {
					entryNil = true
				}
			}
			if entryNil {
				continue
			}
			nJudged++
			if !found {
				ok = false
			}
		}
		if nJudged == 0 {
			ok = false
		}
		if !ok {
			r.Bad("R07.2", name, "accessor", "-", fmt.Sprintf("%s must be derived from entry.%s", name, m.field), nil)
		} else {
			r.OK("R07.2", name, "derived from entry."+m.field)
		}
	}
}

// c07Delete: R07.3.
func (c *Ctx) c07Delete(b BK) {
	r := c.R
	op := b.Name + ".Delete"
	run := c.bk(b, op, false)
	if run.err != nil {
		r.Unknown("R07.3", op, run.err.Error())
		return
	}
	nNil, nNF := 0, 0
	for _, p := range run.paths {
		if len(p.Ret) != 1 {
			r.Unknown("R07.3", op, "unexpected result count")
			return
		}
		errv := p.Ret[0]
		removed, present := false, triUnknown
		for _, ev := range p.Events {
			if b.Sharded {
				if ev.Kind == pw.EvMapLookup && isShardData(ev) && len(ev.Results) == 2 {
					if t, known := p.Truth(ev.Results[1]); known {
						present = map[bool]tri{true: triTrue, false: triFalse}[t]
					}
				}
				if ev.Kind == pw.EvCall && ev.Role == "Std:bytes.Equal" && present == triTrue {
					if t, known := p.Truth(ev.Results[0]); known && !t {
						present = triFalse
					} else if !known {
						present = triUnknown
					}
				}
				if ev.Kind == pw.EvMapDelete && isShardData(ev) {
					removed = true
				}
			} else {
				switch syncMapOp(ev) {
				case "LoadAndDelete":
					removed = true
					if t, known := p.Truth(ev.Results[1]); known {
						present = map[bool]tri{true: triTrue, false: triFalse}[t]
					}
				case "Delete":
					removed = true
				case "Load":
					if t, known := p.Truth(ev.Results[1]); known {
						present = map[bool]tri{true: triTrue, false: triFalse}[t]
					}
				}
			}
		}
		if n, known := p.NilFact(errv); known && n {
			nNil++
			if present != triTrue || !removed {
				r.Bad("R07.3", op, "nil-without-evidence", c.Pos(p.RetPos), "Delete returns nil on a path that did not establish that the key was present and removed", shortTrace(p))
			}
		} else if isConstNamed(errv, "ErrNotFound") {
			nNF++
			if present == triTrue && (b.Sharded || removed) {
				r.Bad("R07.3", op, "notfound-for-present", c.Pos(p.RetPos), "Delete reports ErrNotFound although the key was found", shortTrace(p))
			}
			if removed && b.Sharded {
				r.Bad("R07.3", op, "removed-but-notfound", c.Pos(p.RetPos), "entry removed on a path that reports ErrNotFound", shortTrace(p))
			}
		} else {
			r.Bad("R07.3", op, "other-error", c.Pos(p.RetPos), "Delete returns something other than nil/ErrNotFound: "+errv.String(), shortTrace(p))
		}
	}
	if nNil == 0 || nNF == 0 {
		r.Bad("R07.3", op, "one-sided", "-", fmt.Sprintf("Delete has %d success paths and %d ErrNotFound paths: the contract needs both", nNil, nNF), nil)
	} else if !hasViolation(r.Obls, "R07.3", op) {
		r.OK("R07.3", op, fmt.Sprintf("%d success paths, %d ErrNotFound paths", nNil, nNF))
	}
}

func (c *Ctx) c07NoOp() {
	r := c.R
	_, paths, _, err := c.runFunc("NoOp.Delete", pw.Policy{})
	if err != nil {
		r.Unknown("R07.3", "NoOp.Delete", err.Error())
		return
	}
	for _, p := range paths {
		if !isConstNamed(p.Ret[0], "ErrNotFound") {
			r.Bad("R07.3", "NoOp.Delete", "noop", c.Pos(p.RetPos), "NoOp stores nothing, Delete must report ErrNotFound", nil)
			return
		}
	}
	r.OK("R07.3", "NoOp.Delete", "always ErrNotFound")
	// every implementation of Deleter in the module is covered
	impls := 0
	deleter, _ := c.Pkg.Types.Scope().Lookup("Deleter").Type().Underlying().(*types.Interface)
	for _, n := range c.Pkg.Types.Scope().Names() {
		tn, ok := c.Pkg.Types.Scope().Lookup(n).(*types.TypeName)
		if !ok || types.IsInterface(tn.Type()) {
			continue
		}
		if _, isStruct := tn.Type().Underlying().(*types.Struct); !isStruct {
			continue
		}
		if deleter != nil && (types.Implements(tn.Type(), deleter) || types.Implements(types.NewPointer(tn.Type()), deleter)) {
			// is Delete declared on this type itself?
			ms := types.NewMethodSet(types.NewPointer(tn.Type()))
			if sel := ms.Lookup(c.Pkg.Types, "Delete"); sel != nil && len(sel.Index()) == 1 {
				impls++
				known := n == "NoOp"
				for _, b := range backends {
					if b.Name == canonTypeName(tn) {
						known = true
					}
				}
				if !known {
					r.Unknown("R07.3", n+".Delete", "Deleter implementation not in the sibling table")
				}
			}
		}
	}
	r.Count("deleter_implementations", impls)
}

// iterGroup is one executed iteration of a loop on a path.
type iterGroup struct {
	begin    *pw.Event
	overData bool // range over a storage map or a sync.Map.Range callback
	inner    bool // no nested loop iteration inside
	open     bool // the iteration was left by a return of the entry function (never closed)
	events   []*pw.Event
}

// iterations splits a path's events into per-iteration groups (nested loops: outer groups contain the inner events).
func iterations(p *pw.Path) []*iterGroup {
	var out []*iterGroup
	var stack []*iterGroup
	var prev *pw.Event
	for _, ev := range p.Events {
		switch ev.Kind {
		case pw.EvLoopBegin:
			for _, g := range stack {
				g.inner = false
			}
			g := &iterGroup{begin: ev, inner: true}
			g.overData = ev.Note == "Range" || prev != nil && prev.Kind == pw.EvMapIter
			stack = append(stack, g)
		case pw.EvLoopEnd:
			if n := len(stack); n > 0 {
				out = append(out, stack[n-1])
				stack = stack[:n-1]
			}
		case pw.EvExit:
			// a return inside a loop of an inlined function leaves its iterations: close the groups opened in that frame
			for n := len(stack); n > 0 && stack[n-1].begin.Frame == ev.Frame; n = len(stack) {
				out = append(out, stack[n-1])
				stack = stack[:n-1]
			}
			for _, g := range stack {
				g.events = append(g.events, ev)
			}
		default:
			for _, g := range stack {
				g.events = append(g.events, ev)
			}
		}
		if ev.Kind != pw.EvFieldRead && ev.Kind != pw.EvAssign {
			prev = ev
		}
	}
	// iterations cut short by a return
	for _, g := range stack {
		g.open = true
	}
	out = append(out, stack...)
	return out
}

// counterDiscipline: Len of a sync.Map backend returns the atomic counter field cf. The counter equals the number of stored
// entries only if every change of the map is paired with evidence: +1 exactly with a LoadOrStore that did not find the key, −1
// exactly with a LoadAndDelete that found it; a plain Store only replaces a key a LoadOrStore just found; no plain Delete. Checked
// on every path of every method of the backend and its wrapper (helpers inlined).
func (c *Ctx) counterDiscipline(b BK, rule string, cf *types.Var) bool {
	r := c.R
	ok := true
	nSites := 0
	var methods []string
	c.eachFuncDecl(func(fd *ast.FuncDecl, fn *types.Func) {
		sig, _ := fn.Type().(*types.Signature)
		if sig == nil || sig.Recv() == nil {
			return
		}
		if rn := namedTypeName(sig.Recv().Type()); rn != b.Name && rn != b.Wrapper {
			return
		}
		touches := false
		ast.Inspect(fd.Body, func(n ast.Node) bool {
			if sel, ok := n.(*ast.SelectorExpr); ok {
				switch sel.Sel.Name {
				case "Store", "LoadOrStore", "Delete", "LoadAndDelete", "Swap", "CompareAndSwap", "CompareAndDelete", cf.Name():
					touches = true
				}
			}
			return true
		})
		if touches {
			methods = append(methods, strings.TrimPrefix(pw.FuncName(fn), "cache."))
		}
	})
	sort.Strings(methods)
	for _, m := range methods {
		run := c.bk(b, m, false)
		if run.err != nil {
			r.Unknown(rule, m, run.err.Error())
			ok = false
			continue
		}
		reported := map[string]bool{}
		bad := func(p *pw.Path, kind string, pos token.Pos, msg string) {
			ok = false
			if !reported[kind] {
				reported[kind] = true
				r.Bad(rule, m, "len-counter:"+kind, c.Pos(pos), msg, shortTrace(p))
			}
		}
		for _, p := range run.paths {
			type tally struct{ incs, decs, fresh, removed int }
			var t tally
			var foundKeys []*pw.Val
			for _, ev := range p.Events {
				switch {
				case ev.Kind == pw.EvCall && ev.Role == "Std:atomic.AddInt64" && len(ev.Args) == 2 && ev.Args[0] != nil && ev.Args[0].Field == cf:
					nSites++
					cst, isConst := poly.Of(ev.Args[1], nil).IsConst()
					switch {
					case isConst && cst.Cmp(big.NewRat(1, 1)) == 0:
						t.incs++
					case isConst && cst.Cmp(big.NewRat(-1, 1)) == 0:
						t.decs++
					default:
						bad(p, "counter-step", ev.Pos, "the entry counter is changed by something other than ±1: not modelled")
					}
				case ev.Kind == pw.EvCall && (ev.Role == "Std:atomic.StoreInt64" || ev.Role == "Std:atomic.SwapInt64") && len(ev.Args) >= 1 && ev.Args[0] != nil && ev.Args[0].Field == cf:
					bad(p, "counter-step", ev.Pos, "the entry counter is overwritten: not modelled")
				case syncMapOp(ev) == "LoadOrStore" && len(ev.Results) == 2:
					nSites++
					if tr, known := p.Truth(ev.Results[1]); known && !tr {
						t.fresh++
					} else if known && tr && len(ev.Args) > 0 {
						foundKeys = append(foundKeys, ev.Args[0])
					} else if !known {
						bad(p, "loadorstore-untested", ev.Pos, "LoadOrStore's loaded result is not tested: whether an entry was added is unknown to the counter")
					}
				case syncMapOp(ev) == "LoadAndDelete" && len(ev.Results) == 2:
					nSites++
					if tr, known := p.Truth(ev.Results[1]); known && tr {
						t.removed++
					} else if !known {
						bad(p, "loadanddelete-untested", ev.Pos, "LoadAndDelete's loaded result is not tested: whether an entry was removed is unknown to the counter")
					}
				case syncMapOp(ev) == "Store" || syncMapOp(ev) == "Swap":
					nSites++
					same := false
					for _, k := range foundKeys {
						if len(ev.Args) > 0 && sameKeyVal(k, ev.Args[0]) {
							same = true
						}
					}
					if !same {
						bad(p, "store-may-add-uncounted", ev.Pos, "a plain Store may add a new key (or replace one): the counter is not told which")
					}
				case syncMapOp(ev) == "Delete" || syncMapOp(ev) == "CompareAndDelete":
					nSites++
					bad(p, "delete-uncounted", ev.Pos, "a plain Delete removes an entry (or nothing): the counter is not told which")
				}
			}
			if t.incs != t.fresh {
				bad(p, "counter-inc-without-new-entry", p.RetPos, fmt.Sprintf("on this path the counter is incremented %d time(s) but %d LoadOrStore call(s) added a new key", t.incs, t.fresh))
			}
			if t.decs != t.removed {
				bad(p, "counter-dec-without-removal", p.RetPos, fmt.Sprintf("on this path the counter is decremented %d time(s) but %d LoadAndDelete call(s) removed an entry", t.decs, t.removed))
			}
		}
	}
	if nSites == 0 {
		r.Unknown(rule, b.Name+".Len:counter", "no maintenance site of the entry counter found")
		return false
	}
	if ok {
		r.OK(rule, b.Name+".Len:counter", fmt.Sprintf("entry counter follows evidence of insertion/removal at %d sites in %d methods", nSites, len(methods)))
	}
	return ok
}

// isLenObligation: obligations of R07.4 that concern Len (the scan or the maintained counter).
func isLenObligation(o *coreObl) bool {
	return o.Rule == "R07.4" && (strings.HasSuffix(o.Construct, ".Len") || strings.Contains(o.Construct, ".Len:") || strings.HasPrefix(o.What, "len-counter:"))
}

// sameKeyVal: two evaluations of the same key expression (the same value, the same conversion of it, the same field of the same
// variable — also across a havoc of that variable's other contents).
func sameKeyVal(a, b *pw.Val) bool {
	for i := 0; i < 5; i++ {
		if a == b {
			return true
		}
		if a == nil || b == nil {
			return false
		}
		if a.Obj != nil && a.Obj == b.Obj && (a.Kind == pw.KHavoc || a.Kind == pw.KAlloc || a.Kind == pw.KZero) && (b.Kind == pw.KHavoc || b.Kind == pw.KAlloc || b.Kind == pw.KZero) {
			return true
		}
		if a.Kind != b.Kind {
			return false
		}
		switch a.Kind {
		case pw.KConv:
		case pw.KField:
			if a.Field != b.Field {
				return false
			}
		default:
			return false
		}
		a, b = a.Src, b.Src
	}
	return false
}

// emptiesShard: the event assigns a shard's map a fresh empty map or nil (lazy re-allocation is the writers' business, see C13 R13.4).
func emptiesShard(ev *pw.Event) bool {
	if ev.Kind != pw.EvFieldWrite || ev.Field == nil || fname(ev.Field) != "data" || ev.Value == nil {
		return false
	}
	if _, isMap := ev.Field.Type().Underlying().(*types.Map); !isMap {
		return false
	}
	v := ev.Value
	return v.Kind == pw.KAlloc && len(v.Elems) == 0 || v.Kind == pw.KConst && v.IsNil
}

// overShards reports whether an iteration group is one step of a loop over the shard array of a sharded backend.
func overShards(g *iterGroup) bool {
	v := g.begin.Recv
	for v != nil && (v.Kind == pw.KAddr || v.Kind == pw.KSlice || v.Kind == pw.KConv) {
		v = v.Src
	}
	if v != nil && v.Kind == pw.KField && v.Field != nil && fname(v.Field) == "hashedBuckets" {
		return true
	}
	// a counting loop `for i := 0; i < len(arr); i++` (len of an array is a constant: the loop header does not mention the array):
	// it is a loop over the shards when its body addresses arr[i] and the loop is not a range over something else
	if g.begin.Recv == nil && g.begin.Note != "Range" && !g.overData {
		if fs, isFor := g.begin.Loop.(*ast.ForStmt); isFor {
			if be, ok := ast.Unparen(fs.Cond).(*ast.BinaryExpr); ok && (be.Op == token.LSS || be.Op == token.NEQ) {
				if call, ok := ast.Unparen(be.Y).(*ast.CallExpr); ok && len(call.Args) == 1 {
					if id, ok := ast.Unparen(call.Fun).(*ast.Ident); ok && id.Name == "len" {
						if sel, ok := ast.Unparen(call.Args[0]).(*ast.SelectorExpr); ok && sel.Sel.Name == actualField("shardedMap", "hashedBuckets") {
							return true
						}
					}
				}
			}
		}
	}
	return false
}

// shardCoverage: a whole-collection operation of a sharded backend must examine the map of every shard it steps over (scan it, take
// its length, or — when replaceOK — replace it by a fresh empty map); a shard stepped over without that keeps its entries out of the
// operation. inFn restricts the check to loops of the named function (helpers inlined into it are checked by their own rules).
func (c *Ctx) shardCoverage(rule, op string, paths []*pw.Path, replaceOK bool) (n int, ok bool) {
	ok = true
	seen := map[token.Pos]bool{}
	for _, p := range paths {
		for _, g := range iterations(p) {
			if g.overData || !overShards(g) || strings.HasSuffix(g.begin.Frame.Top(), ".Len") && !strings.HasSuffix(op, ".Len") {
				continue
			}
			n++
			examined := false
			for _, ev := range g.events {
				if (ev.Kind == pw.EvMapIter || ev.Kind == pw.EvMapLen) && isShardData(ev) {
					examined = true
				}
				if replaceOK && emptiesShard(ev) {
					examined = true
				}
			}
			if !examined && !g.open && !seen[g.begin.Pos] {
				seen[g.begin.Pos] = true
				ok = false
				c.R.Bad(rule, op, "shard-skipped", c.Pos(g.begin.Pos), "a step of the loop over the shards neither scans, measures nor replaces that shard's map: its entries are left out of the operation", shortTrace(p))
			}
		}
	}
	if n == 0 {
		ok = false
		if pos, what := c.partitionDropsRemainder(op); what != "" {
			c.R.Bad(rule, op, "partition-drops-remainder", c.Pos(pos), what, nil)
		} else {
			c.R.Unknown(rule, op, "no step of a loop over the shard array found (the shard array does not resolve)")
		}
	}
	return n, ok
}

// partitionDropsRemainder recognises one way of not covering the shard array that needs no path reasoning: the array is handed out
// in chunks arr[i*q:(i+1)*q] with q computed by an integer division N/k, and no chunk is open-ended or bounded by the array's
// length: the chunks end at k·(N/k), which is N only when k divides N — the last N mod k shards are never visited.
func (c *Ctx) partitionDropsRemainder(op string) (token.Pos, string) {
	fd, _ := c.funcDecl(op)
	if fd == nil || fd.Body == nil {
		return 0, ""
	}
	info := c.Pkg.TypesInfo
	var hit token.Pos
	open := false
	for _, d := range c.reachBodies(fd, 2) {
		quot := map[types.Object]bool{}
		ast.Inspect(d.Body, func(x ast.Node) bool {
			as, ok := x.(*ast.AssignStmt)
			if !ok || len(as.Lhs) != len(as.Rhs) {
				return true
			}
			for i, rhs := range as.Rhs {
				be, ok := ast.Unparen(rhs).(*ast.BinaryExpr)
				if !ok || be.Op != token.QUO {
					continue
				}
				if bt, ok := info.TypeOf(be).Underlying().(*types.Basic); !ok || bt.Info()&types.IsInteger == 0 {
					continue
				}
				if id, ok := as.Lhs[i].(*ast.Ident); ok {
					if o := info.ObjectOf(id); o != nil {
						quot[o] = true
					}
				}
			}
			return true
		})
		ast.Inspect(d.Body, func(x ast.Node) bool {
			se, ok := x.(*ast.SliceExpr)
			if !ok {
				return true
			}
			sel, ok := ast.Unparen(se.X).(*ast.SelectorExpr)
			if !ok {
				return true
			}
			sl := info.Selections[sel]
			if sl == nil || sl.Kind() != types.FieldVal || selFieldName(sl) != "hashedBuckets" {
				return true
			}
			if se.High == nil {
				open = true
				return true
			}
			usesQuot, usesLen := false, false
			ast.Inspect(se.High, func(y ast.Node) bool {
				switch z := y.(type) {
				case *ast.Ident:
					if quot[info.ObjectOf(z)] {
						usesQuot = true
					}
					if z.Name == "len" || z.Name == "min" {
						usesLen = true
					}
					if cst, ok := info.ObjectOf(z).(*types.Const); ok && cst != nil {
						usesLen = true // a bound by the array's declared size
					}
				}
				return true
			})
			if usesLen {
				open = true
			} else if usesQuot && hit == 0 {
				hit = se.Pos()
			}
			return true
		})
	}
	if hit != 0 && !open {
		return hit, "the shard array is handed out in chunks whose size is an integer quotient (N/k) and no chunk is open-ended or bounded by the array's length: the chunks end at k·(N/k), so the last N mod k shards are never visited whenever k does not divide N"
	}
	return 0, ""
}

// c07Batch: R07.4.
func (c *Ctx) c07Batch(b BK) {
	r := c.R
	type spec struct {
		op     string
		notify string
	}
	for _, s := range []spec{{"ExpireAll", "Repo:Trait.NotifyExpiredAll"}, {"DeleteAll", "Repo:Trait.NotifyDeletedAll"}, {"Len", ""}} {
		op := b.Name + "." + s.op
		run := c.bk(b, op, false)
		if run.err != nil {
			r.Unknown("R07.4", op, run.err.Error())
			continue
		}
		nIter := 0
		bad := false
		instantReported := false
		for _, p := range run.paths {
			var startTS *pw.Val
			for _, ev := range p.Events {
				if ev.Kind == pw.EvCall && ev.Role == "Std:time.Time.UnixNano" && startTS == nil {
					startTS = ev.Results[0]
					// "marks every entry as expired": the instant is now — the clock as read by this call, not a time derived
					// from it (now + a grace period from the context leaves the entries fresh)
					if s.op == "ExpireAll" && !(ev.Recv != nil && ev.Recv.Kind == pw.KCall && ev.Recv.Ev != nil && ev.Recv.Ev.Role == "Std:time.Now") && !instantReported {
						instantReported = true
						r.Bad("R07.4", op, "expire-instant-not-now", c.Pos(ev.Pos), "the expiry ExpireAll stamps is not the UnixNano of time.Now() itself: entries are not expired when the call returns", shortTrace(p))
					}
				}
			}
			for _, g := range iterations(p) {
				if s.op == "DeleteAll" && b.Sharded && !g.overData && overShards(g) {
					for _, ev := range g.events {
						if emptiesShard(ev) {
							nIter++ // the shard's map is replaced by a fresh empty one (or dropped: nil)
						}
					}
				}
				lenLoop := s.op == "Len" && b.Sharded
				if !lenLoop && (!g.overData || !g.inner) {
					continue
				}
				if lenLoop && !g.inner {
					continue
				}
				it := g.events
				effects, counts := 0, 0
				for _, ev := range it {
					switch s.op {
					case "ExpireAll":
						if ev.Kind == pw.EvMapInsert && isShardData(ev) {
							if al := pointee(ev.Value); al != nil && al.Kind == pw.KAlloc && p.FieldOf(al, "E") == startTS && startTS != nil && ev.Key != nil && ev.Key.Kind == pw.KRangeKey {
								effects++
							}
						}
						if ev.Kind == pw.EvFieldWrite && ev.Field != nil && fname(ev.Field) == "E" && !(ev.Recv != nil && ev.Recv.Kind == pw.KAlloc) {
							// (filling in the fresh replacement entry is part of building it; the effect is its insertion)
							if ev.Value == startTS && startTS != nil {
								effects++
							}
						}
					case "DeleteAll":
						if ev.Kind == pw.EvMapDelete && isShardData(ev) {
							if ev.Key != nil && ev.Key.Kind == pw.KRangeKey {
								effects++
							}
						}
						if syncMapOp(ev) == "Delete" || syncMapOp(ev) == "LoadAndDelete" {
							if len(ev.Args) == 1 && ev.Args[0].Kind == pw.KRangeVal {
								effects++
							}
						}
					case "Len":
						if !b.Sharded && (ev.Kind == pw.EvAssign || ev.Kind == pw.EvFieldWrite) && ev.Value != nil && ev.Value.Kind == pw.KArith {
							effects++
						}
						if b.Sharded && ev.Kind == pw.EvMapLen && isShardData(ev) {
							effects++
						}
					}
					if isIncrement(ev) {
						counts++
					}
				}
				nIter++
				if effects != 1 {
					r.Bad("R07.4", op, "conditional-or-missing-effect", c.Pos(p.RetPos), fmt.Sprintf("an iteration over an entry performs %d %s effects, expected exactly one unconditional effect on the iterated entry", effects, s.op), shortTrace(p))
					bad = true
				}
				_ = counts // how many entries a batch operation reports to the metrics is C18's matter (R18.3), not observable here
			}
			// every call scans: a path that returns without having started the scan (a "somebody else is already at it" guard) leaves
			// entries written since that other scan passed them untouched although this call completed
			if s.op != "Len" && !p.Panic && !c.featurePath(p) {
				scans := false
				for _, ev := range p.Events {
					if ev.Kind == pw.EvLoopBegin || ev.Kind == pw.EvLoopZero || syncMapOp(ev) == "Range" {
						scans = true
					}
				}
				if !scans {
					r.Bad("R07.4", op, "batch-skipped", c.Pos(p.RetPos), s.op+" returns on a path that never starts its scan over the entries", shortTrace(p))
					bad = true
				}
			}
			// no early termination of the scan: Range callbacks return true, loops are not left by break/return
			for _, ev := range p.Events {
				if ev.Kind == pw.EvLoopEnd && ev.Note == "break" {
					r.Bad("R07.4", op, "scan-stops-early", c.Pos(ev.Pos), s.op+" leaves its loop early: entries after the first are not processed", shortTrace(p))
					bad = true
				}
				if ev.Kind == pw.EvExit && ev.FnLit != nil && len(ev.Results) == 1 {
					if t, known := p.Truth(ev.Results[0]); !known || !t {
						r.Bad("R07.4", op, "scan-stops-early", c.Pos(ev.Pos), s.op+": the sync.Map.Range callback does not return true on every path, the scan stops before all entries are processed", shortTrace(p))
						bad = true
					}
				}
			}
			// counters start at zero
			firstAssign := map[string]bool{}
			if s.op != "Len" {
				firstAssign = nil // metric counters are C18's matter
			}
			for _, ev := range p.Events {
				if firstAssign == nil {
					break
				}
				if ev.Kind == pw.EvAssign && ev.Obj != nil && (ev.Frame == nil || ev.Frame.Parent == nil) && (ev.Obj.Name() == "cnt" || ev.Obj.Name() == "n" || ev.Obj.Name() == "count") && !firstAssign[ev.Obj.Name()] {
					firstAssign[ev.Obj.Name()] = true
					if cst, ok := poly.Of(ev.Value, nil).IsConst(); !ok || cst.Sign() != 0 {
						r.Bad("R07.4", op, "counter-not-zero", c.Pos(ev.Pos), "the per-entry counter does not start at 0", shortTrace(p))
						bad = true
					}
				}
			}
			if s.op == "Len" && len(p.Ret) == 1 {
				rv := p.Ret[0]
				okRet := rv.Kind == pw.KHavoc || rv.Kind == pw.KArith || rv.Kind == pw.KConst || rv.Kind == pw.KZero
				if rv.Kind == pw.KConst {
					if cst, ok := poly.Of(rv, nil).IsConst(); !ok || cst.Sign() != 0 {
						okRet = false
					}
				}
				urv := rv
				for urv != nil && urv.Kind == pw.KConv {
					urv = urv.Src
				}
				if !okRet && urv != nil && urv.Kind == pw.KCall && urv.Ev != nil && strings.HasPrefix(urv.Ev.Role, "Std:atomic.") {
					// Len returns a separately maintained counter: it equals the number of stored entries only under the
					// evidence discipline checked here
					var cf *types.Var
					if len(urv.Ev.Args) == 1 && urv.Ev.Args[0] != nil {
						cf = urv.Ev.Args[0].Field
					}
					if b.Sharded || cf == nil || !c.counterDiscipline(b, "R07.4", cf) {
						if b.Sharded || cf == nil {
							r.Unknown("R07.4", op, "Len returns a separately maintained atomic counter instead of counting the storage: the counter's maintenance is not modelled for this backend")
						}
						bad = true
					}
					nIter++
				} else if !okRet {
					r.Bad("R07.4", op, "len-result", c.Pos(p.RetPos), "Len does not return its entry counter", shortTrace(p))
					bad = true
				}
			}
		}
		if b.Sharded {
			if _, ok := c.shardCoverage("R07.4", op, run.paths, s.op == "DeleteAll"); !ok {
				bad = true
			}
		}
		if nIter == 0 {
			r.Unknown("R07.4", op, "no per-entry iteration found")
		} else if !bad {
			r.OK("R07.4", op, fmt.Sprintf("%d per-entry iterations on %d paths", nIter, len(run.paths)))
		}
	}
}

// c07Write: R07.5.
func (c *Ctx) c07Write(b BK) {
	r := c.R
	op := b.Name + ".Write"
	run := c.bk(b, op, true)
	if run.err != nil {
		r.Unknown("R07.5", op, run.err.Error())
		return
	}
	key := keyParamOf(run.e)
	var vparam *pw.Val
	for obj, v := range run.e.Params {
		if obj.Name() == "v" || obj.Name() == "value" || obj.Name() == "val" {
			vparam = v
		}
	}
	if key == nil || vparam == nil {
		r.Unknown("R07.5", op, "key/value parameters not found")
		return
	}
	for _, p := range run.paths {
		var stores []*pw.Event
		for _, ev := range p.Events {
			if b.Sharded && ev.Kind == pw.EvMapInsert && isShardData(ev) {
				stores = append(stores, ev)
			}
			if !b.Sharded && isSyncStore(p, ev) {
				stores = append(stores, ev)
			}
		}
		if len(stores) != 1 {
			r.Bad("R07.5", op, "store-count", c.Pos(p.RetPos), fmt.Sprintf("Write path performs %d stores, expected exactly one on every path", len(stores)), shortTrace(p))
			continue
		}
		st := stores[0]
		ent := st.Value
		if !b.Sharded {
			ent = st.Args[1]
		}
		ent = pointee(ent)
		if ent == nil || ent.Kind != pw.KAlloc {
			r.Bad("R07.5", op, "stored-entry", c.Pos(st.Pos), "stored entry is not a freshly built entry literal", shortTrace(p))
			continue
		}
		if p.FieldOf(ent, "V") != vparam {
			r.Bad("R07.5", op, "stored-value", c.Pos(st.Pos), "stored V is not the value parameter", shortTrace(p))
		}
		if !isFreshCopyOf(p.Events, p.FieldOf(ent, "K"), key) {
			r.Bad("R07.5", op, "stored-key", c.Pos(st.Pos), "stored K is not a private copy of the key parameter", shortTrace(p))
		}
		// E: result of expireAt: ts(now.Add(ttl)) or the constant 0
		ev := p.FieldOf(ent, "E")
		okE := false
		if ev != nil {
			if ev.Kind == pw.KCall && ev.Ev.Role == "Std:time.Time.UnixNano" {
				okE = true
			}
			if ev.Kind == pw.KConst && ev.Const != nil && constant.Sign(ev.Const) == 0 {
				okE = true
			}
		}
		if !okE {
			r.Bad("R07.5", op, "stored-expiry", c.Pos(st.Pos), "stored E does not come from expireAt(ctx)", shortTrace(p))
		}
		if n, known := p.NilFact(p.Ret[0]); !known || !n {
			r.Bad("R07.5", op, "write-error", c.Pos(p.RetPos), "Write returns a non-nil error", shortTrace(p))
		}
	}
	if !hasViolation(r.Obls, "R07.5", op) {
		r.OK("R07.5", op, fmt.Sprintf("%d paths", len(run.paths)))
	}
}

// c07LoadStore: R07.6.
func (c *Ctx) c07LoadStore() {
	r := c.R
	for _, b := range backends {
		if !b.Sharded {
			continue
		}
		// Load: opaque Read
		pol := pw.Policy{Inline: func(*types.Func, int) bool { return false }}
		e, paths, _, err := c.runFunc(b.Name+".Load", pol)
		if err != nil {
			r.Unknown("R07.6", b.Name+".Load", err.Error())
			continue
		}
		key := keyParamOf(e)
		bad := false
		for _, p := range paths {
			var rd *pw.Event
			for _, ev := range p.Events {
				if ev.Kind == pw.EvCall && strings.HasSuffix(ev.Role, b.Name+".Read") {
					rd = ev
				}
			}
			if rd == nil || len(rd.Args) != 2 || rd.Args[1] != key {
				r.Bad("R07.6", b.Name+".Load", "load-read", c.Pos(p.RetPos), "Load does not Read with its own key", shortTrace(p))
				bad = true
				continue
			}
			okv, known := p.Truth(p.Ret[1])
			if !known {
				bad = true
				r.Bad("R07.6", b.Name+".Load", "load-ok", c.Pos(p.RetPos), "Load's ok result is not a constant per path", shortTrace(p))
				continue
			}
			errNil := nilTri(p, rd.Results[1])
			if okv && (errNil != triTrue || p.Ret[0] != rd.Results[0]) {
				r.Bad("R07.6", b.Name+".Load", "load-true", c.Pos(p.RetPos), "Load returns ok=true without a successful Read of that value", shortTrace(p))
				bad = true
			}
			if !okv && errNil != triFalse {
				r.Bad("R07.6", b.Name+".Load", "load-false", c.Pos(p.RetPos), "Load returns ok=false although Read succeeded", shortTrace(p))
				bad = true
			}
		}
		if !bad {
			r.OK("R07.6", b.Name+".Load", fmt.Sprintf("%d paths", len(paths)))
		}
		e, paths, _, err = c.runFunc(b.Name+".Store", pol)
		if err != nil {
			r.Unknown("R07.6", b.Name+".Store", err.Error())
			continue
		}
		key = keyParamOf(e)
		bad = false
		for _, p := range paths {
			n := 0
			for _, ev := range p.Events {
				if ev.Kind == pw.EvCall && strings.HasSuffix(ev.Role, b.Name+".Write") {
					n++
					if len(ev.Args) != 3 || ev.Args[1] != key || ev.Args[2].Kind != pw.KParam {
						r.Bad("R07.6", b.Name+".Store", "store-args", c.Pos(ev.Pos), "Store does not Write its own key and value", shortTrace(p))
						bad = true
					}
				}
			}
			if n != 1 {
				r.Bad("R07.6", b.Name+".Store", "store-count", c.Pos(p.RetPos), fmt.Sprintf("Store performs %d writes", n), shortTrace(p))
				bad = true
			}
		}
		if !bad {
			r.OK("R07.6", b.Name+".Store", fmt.Sprintf("%d paths", len(paths)))
		}
	}
}
