package rules

import (
	"go/ast"
	"go/types"
	"strings"

	"cachelint/pw"
)

// Role anchors are unexported names of the subject (fields, helper types, helper functions). A consistent rename of one of them —
// or moving two fields into an unexported helper struct — does not change behaviour, so anchors that no longer resolve by name are
// re-identified by their shape (types and wiring) and mapped back to the canonical name the rules use. Exported names are API and are
// never re-identified. When a shape matches nothing or more than one candidate, the anchor stays unresolved (the rules then report
// undecided, never a violation).
type canonNames struct {
	field      map[*types.Var]string      // field → canonical field name
	fieldOwner map[*types.Var]string      // field → canonical owner type (for fields moved into a helper struct)
	typ        map[*types.TypeName]string // type → canonical type name
	actual     map[string]string          // canonical "Owner.field" → actual field name
	lockChain  map[string][]string        // sibling → actual field chain from the sibling struct to its key-lock mutex
	notes      []string
}

var cn = &canonNames{}

// fname is the canonical name of a field.
func fname(f *types.Var) string {
	if f == nil {
		return ""
	}
	if n, ok := cn.field[f.Origin()]; ok {
		return n
	}
	return f.Name()
}

// actualField returns the actual name of the field the rules know as owner.field.
func actualField(owner, field string) string {
	if a, ok := cn.actual[owner+"."+field]; ok {
		return a
	}
	return field
}

func canonTypeName(tn *types.TypeName) string {
	if n, ok := cn.typ[tn]; ok {
		return n
	}
	return tn.Name()
}

func structOf(pkg *types.Package, name string) (*types.TypeName, *types.Struct) {
	tn, _ := pkg.Scope().Lookup(name).(*types.TypeName)
	if tn == nil {
		return nil, nil
	}
	st, _ := tn.Type().Underlying().(*types.Struct)
	return tn, st
}

func structField(st *types.Struct, name string) *types.Var {
	if st == nil {
		return nil
	}
	for i := 0; i < st.NumFields(); i++ {
		if st.Field(i).Name() == name {
			return st.Field(i)
		}
	}
	return nil
}

func isMutexType(t types.Type) bool {
	n, ok := t.(*types.Named)
	return ok && n.Obj().Pkg() != nil && n.Obj().Pkg().Path() == "sync" && (n.Obj().Name() == "Mutex" || n.Obj().Name() == "RWMutex")
}

// resolveNames fills cn for the loaded subject package.
func (c *Ctx) resolveNames() {
	cn = &canonNames{field: map[*types.Var]string{}, fieldOwner: map[*types.Var]string{}, typ: map[*types.TypeName]string{}, actual: map[string]string{}, lockChain: map[string][]string{}}
	pw.CanonFunc = map[*types.Func]string{}
	pkg := c.Pkg.Types
	note := func(s string) { cn.notes = append(cn.notes, s) }
	setField := func(f *types.Var, owner, name string) {
		if f.Name() != name {
			cn.field[f.Origin()] = name
			note("field " + owner + "." + name + " is " + f.Name())
		}
		cn.fieldOwner[f.Origin()] = owner
		cn.actual[owner+"."+name] = f.Name()
	}
	// ---- Failover siblings: key-lock table, its mutex, the key-lock entry type
	for _, sib := range siblings {
		_, st := structOf(pkg, sib)
		if st == nil {
			continue
		}
		klCanon := "kl"
		if sib == "FailoverOf" {
			klCanon = "klOf"
		}
		type hit struct {
			chain []string
			in    *types.Struct
			f     *types.Var
			elem  *types.Named
		}
		var hits []hit
		var scan func(s *types.Struct, chain []string, depth int)
		scan = func(s *types.Struct, chain []string, depth int) {
			for i := 0; i < s.NumFields(); i++ {
				f := s.Field(i)
				if m, ok := f.Type().Underlying().(*types.Map); ok {
					if p, ok := m.Elem().(*types.Pointer); ok {
						if en, ok := p.Elem().(*types.Named); ok {
							if est, ok := en.Underlying().(*types.Struct); ok {
								for j := 0; j < est.NumFields(); j++ {
									if _, isChan := est.Field(j).Type().Underlying().(*types.Chan); isChan {
										hits = append(hits, hit{append(append([]string{}, chain...), f.Name()), s, f, en})
									}
								}
							}
						}
					}
				}
				if fs, ok := f.Type().Underlying().(*types.Struct); ok && depth < 2 && !f.Exported() && !isMutexType(f.Type()) {
					if n, isNamed := f.Type().(*types.Named); !isNamed || n.Obj().Pkg() == pkg {
						scan(fs, append(append([]string{}, chain...), f.Name()), depth+1)
					}
				}
			}
		}
		scan(st, nil, 0)
		if len(hits) != 1 {
			continue
		}
		h := hits[0]
		setField(h.f, sib, "keyLocks")
		var mus []*types.Var
		for i := 0; i < h.in.NumFields(); i++ {
			if isMutexType(h.in.Field(i).Type()) && !h.in.Field(i).Embedded() {
				mus = append(mus, h.in.Field(i))
			}
		}
		if len(mus) == 1 {
			setField(mus[0], sib, "lock")
			cn.lockChain[sib] = append(append([]string{}, h.chain[:len(h.chain)-1]...), mus[0].Name())
		}
		if h.elem.Obj().Name() != klCanon {
			cn.typ[h.elem.Obj()] = klCanon
			note("type " + klCanon + " is " + h.elem.Obj().Name())
		}
		est := h.elem.Underlying().(*types.Struct)
		var rest []*types.Var
		for j := 0; j < est.NumFields(); j++ {
			f := est.Field(j)
			switch {
			case func() bool { _, ok := f.Type().Underlying().(*types.Chan); return ok }():
				setField(f, klCanon, "lock")
			case types.TypeString(f.Type(), nil) == "error":
				setField(f, klCanon, "err")
			default:
				rest = append(rest, f)
			}
		}
		if len(rest) == 1 {
			setField(rest[0], klCanon, "val")
		}
	}
	// ---- Invalidator: the time of the last accepted run
	if _, st := structOf(pkg, "Invalidator"); st != nil && structField(st, "lastRun") == nil {
		var cands []*types.Var
		for i := 0; i < st.NumFields(); i++ {
			f := st.Field(i)
			if !f.Exported() && types.TypeString(f.Type(), nil) == "time.Time" {
				cands = append(cands, f)
			}
		}
		if len(cands) == 1 {
			setField(cands[0], "Invalidator", "lastRun")
		}
	}
	// ---- InvalidationIndex: deleters by name, label index, mutex
	if _, st := structOf(pkg, "InvalidationIndex"); st != nil {
		var dels, idx, mus []*types.Var
		for i := 0; i < st.NumFields(); i++ {
			f := st.Field(i)
			if isMutexType(f.Type()) {
				mus = append(mus, f)
				continue
			}
			m, ok := f.Type().Underlying().(*types.Map)
			if !ok {
				continue
			}
			if sl, ok := m.Elem().Underlying().(*types.Slice); ok && namedTypeName(sl.Elem()) == "Deleter" {
				dels = append(dels, f)
			}
			if inner, ok := m.Elem().Underlying().(*types.Map); ok {
				if _, ok := inner.Elem().Underlying().(*types.Slice); ok {
					idx = append(idx, f)
				}
			}
		}
		if len(dels) == 1 {
			setField(dels[0], "InvalidationIndex", "deleters")
		}
		if len(idx) == 1 {
			setField(idx[0], "InvalidationIndex", "labeledKeysByName")
		}
		if len(mus) == 1 {
			setField(mus[0], "InvalidationIndex", "mu")
		}
	}
	// ---- helper functions re-identified by signature (only when the canonical name is gone)
	byCanon := map[string]bool{}
	c.eachFuncDecl(func(_ *ast.FuncDecl, fn *types.Func) { byCanon[strings.TrimPrefix(rawFuncName(fn), "cache.")] = true })
	type fcand struct {
		canon string
		match func(fn *types.Func, sig *types.Signature, recv string) bool
	}
	under := func(t types.Type) string { return types.TypeString(t.Underlying(), nil) }
	cands := []fcand{
		{"InvalidationIndex.invalidateByLabels", func(fn *types.Func, sig *types.Signature, recv string) bool {
			if recv != "InvalidationIndex" || sig.Results().Len() != 2 || under(sig.Results().At(0).Type()) != "int" || types.TypeString(sig.Results().At(1).Type(), nil) != "error" {
				return false
			}
			for i := 0; i < sig.Params().Len(); i++ {
				if sl, ok := sig.Params().At(i).Type().Underlying().(*types.Slice); ok && namedTypeName(sl.Elem()) == "Deleter" {
					return true
				}
			}
			return false
		}},
		{"InvalidationIndex.cutKeys", func(fn *types.Func, sig *types.Signature, recv string) bool {
			if (recv != "InvalidationIndex" && recv != "") || sig.Results().Len() != 1 || !sig.Variadic() {
				return false
			}
			m, ok := sig.Results().At(0).Type().Underlying().(*types.Map)
			if !ok {
				return false
			}
			_, isSlice := m.Elem().Underlying().(*types.Slice)
			return isSlice
		}},
		{"Trait.expireAt", func(fn *types.Func, sig *types.Signature, recv string) bool {
			return recv == "Trait" && sig.Results().Len() == 2 && types.TypeString(sig.Results().At(0).Type(), nil) == "time.Duration" && under(sig.Results().At(1).Type()) == "int64"
		}},
		{"ts", func(fn *types.Func, sig *types.Signature, recv string) bool {
			return recv == "" && sig.Params().Len() == 1 && sig.Results().Len() == 1 && types.TypeString(sig.Params().At(0).Type(), nil) == "time.Time" && under(sig.Results().At(0).Type()) == "int64"
		}},
		{"tsTime", func(fn *types.Func, sig *types.Signature, recv string) bool {
			return recv == "" && sig.Params().Len() == 1 && sig.Results().Len() == 1 && types.TypeString(sig.Results().At(0).Type(), nil) == "time.Time" && under(sig.Params().At(0).Type()) == "int64"
		}},
	}
	for _, b := range backends {
		b := b
		cands = append(cands,
			fcand{b.Name + ".deleteExpired", func(fn *types.Func, sig *types.Signature, recv string) bool {
				return recv == b.Name && sig.Results().Len() == 0 && sig.Params().Len() == 1 && types.TypeString(sig.Params().At(0).Type(), nil) == "time.Time"
			}},
			fcand{b.Name + ".evictLeast", func(fn *types.Func, sig *types.Signature, recv string) bool {
				if recv != b.Name || sig.Results().Len() != 1 || sig.Params().Len() != 2 {
					return false
				}
				_, isFn := sig.Params().At(1).Type().Underlying().(*types.Signature)
				return isFn && under(sig.Params().At(0).Type()) == "float64"
			}})
	}
	for _, fc := range cands {
		if byCanon[fc.canon] {
			continue
		}
		var found []*types.Func
		c.eachFuncDecl(func(_ *ast.FuncDecl, fn *types.Func) {
			if fn.Exported() {
				return
			}
			sig, _ := fn.Type().(*types.Signature)
			if sig == nil {
				return
			}
			recv := ""
			if sig.Recv() != nil {
				recv = namedTypeName(sig.Recv().Type())
			}
			if fc.match(fn, sig, recv) {
				found = append(found, fn)
			}
		})
		if len(found) == 1 {
			pw.CanonFunc[found[0].Origin()] = "cache." + fc.canon
			note("function " + fc.canon + " is " + rawFuncName(found[0]))
		}
	}
	// Trait.invokeCleanup: the unexported Trait method that calls the Evict callback
	if !byCanon["Trait.invokeCleanup"] {
		var found []*types.Func
		c.eachFuncDecl(func(fd *ast.FuncDecl, fn *types.Func) {
			if fn.Exported() || !sameRecvNamed(fn, "Trait") {
				return
			}
			callsEvict := false
			inspectCalls(fd, func(sel string) {
				if sel == "Evict" {
					callsEvict = true
				}
			})
			if callsEvict {
				found = append(found, fn)
			}
		})
		if len(found) == 1 {
			pw.CanonFunc[found[0].Origin()] = "cache.Trait.invokeCleanup"
			note("function Trait.invokeCleanup is " + rawFuncName(found[0]))
		}
	}
}

// rawFuncName is pw.FuncName without canonicalisation.
func rawFuncName(fn *types.Func) string {
	saved := pw.CanonFunc
	pw.CanonFunc = nil
	defer func() { pw.CanonFunc = saved }()
	return pw.FuncName(fn)
}

// inspectCalls reports the selector name of every call of the form x.Sel(...) in fd.
func inspectCalls(fd *ast.FuncDecl, f func(sel string)) {
	if fd == nil || fd.Body == nil {
		return
	}
	ast.Inspect(fd.Body, func(n ast.Node) bool {
		if call, ok := n.(*ast.CallExpr); ok {
			if sel, ok := ast.Unparen(call.Fun).(*ast.SelectorExpr); ok {
				f(sel.Sel.Name)
			}
		}
		return true
	})
}

// Prepare resolves the role anchors of the loaded subject; call once per Ctx before running a property.
func (c *Ctx) Prepare() {
	c.resolveNames()
	for _, n := range cn.notes {
		c.R.Notes = append(c.R.Notes, "anchor re-identified by shape: "+n)
	}
}
