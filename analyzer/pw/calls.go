package pw

import (
	"fmt"
	"go/ast"
	"go/token"
	"go/types"
	"strings"

	"golang.org/x/tools/go/types/typeutil"
)

type callInfo struct {
	st      *State
	call    *ast.CallExpr
	callee  *types.Func // statically resolved (origin), may be interface method
	builtin string
	conv    bool
	fn      *Val // function value for dynamic calls / closures
	recv    *Val
	args    []*Val
	iface   bool
}

// prepareCall evaluates callee, receiver and arguments.
func (e *Engine) prepareCall(st *State, call *ast.CallExpr) []*callInfo {
	fun := ast.Unparen(call.Fun)
	// conversion?
	if tv, ok := e.Info.Types[fun]; ok && tv.IsType() {
		var out []*callInfo
		if len(call.Args) == 1 {
			for _, a := range e.eval(st, call.Args[0]) {
				out = append(out, &callInfo{st: a.st, call: call, conv: true, args: []*Val{a.v}})
			}
		}
		return out
	}
	obj := typeutil.Callee(e.Info, call)
	base := &callInfo{call: call}
	sts := []*State{st}
	var recvs []*Val
	switch o := obj.(type) {
	case *types.Builtin:
		base.builtin = o.Name()
	case *types.Func:
		base.callee = o.Origin()
		if sig, ok := o.Type().(*types.Signature); ok && sig.Recv() != nil {
			if _, isIface := sig.Recv().Type().Underlying().(*types.Interface); isIface {
				base.iface = true
			}
			if selx, ok := fun.(*ast.SelectorExpr); ok {
				if sel := e.Info.Selections[selx]; sel != nil && sel.Kind() == types.MethodVal {
					sts = nil
					for _, b := range e.evalBase(st, selx.X) {
						rv := b.v
						// walk embedded path to the actual receiver
						idx := sel.Index()
						if len(idx) > 1 {
							t := sel.Recv()
							loc := rv.Loc()
							for _, i := range idx[:len(idx)-1] {
								s, ok := derefType(t).Underlying().(*types.Struct)
								if !ok {
									break
								}
								f := s.Field(i)
								loc = loc + "." + f.Name()
								if _, isPtr := f.Type().Underlying().(*types.Pointer); isPtr {
									rv = e.readLoc(b.st, loc, f, selx.Pos(), rv)
									loc = rv.Loc()
								} else if _, isIface := f.Type().Underlying().(*types.Interface); isIface {
									rv = e.readLoc(b.st, loc, f, selx.Pos(), rv)
									loc = rv.Loc()
								} else {
									a := e.newVal(KAddr, types.NewPointer(f.Type()), selx.Pos())
									a.Path = loc
									a.Src = rv
									a.Field = f
									rv = a
								}
								t = f.Type()
							}
						}
						sts = append(sts, b.st)
						recvs = append(recvs, rv)
					}
				}
			}
		}
	default:
		// dynamic: evaluate the function expression
		sts = nil
		var out []*callInfo
		for _, f := range e.eval(st, fun) {
			ci := &callInfo{call: call, fn: f.v}
			if f.v.Kind == KFuncRef {
				if fo, ok := f.v.Obj.(*types.Func); ok {
					ci.callee = fo.Origin()
					ci.recv = f.v.Recv
					ci.fn = nil
				}
			}
			for _, a := range e.evalArgs(f.st, call.Args) {
				c := *ci
				c.st, c.args = a.st, a.vs
				out = append(out, &c)
			}
		}
		return out
	}
	var out []*callInfo
	argx := call.Args
	if (base.builtin == "make" || base.builtin == "new") && len(argx) > 0 {
		argx = argx[1:]
	}
	for i, s := range sts {
		for _, a := range e.evalArgs(s, argx) {
			c := *base
			c.st, c.args = a.st, a.vs
			if recvs != nil {
				c.recv = recvs[i]
			}
			out = append(out, &c)
		}
	}
	return out
}

func (e *Engine) evalArgs(st *State, args []ast.Expr) []multiOut {
	outs := []multiOut{{st, nil}}
	if len(args) == 1 {
		if tup, ok := e.Info.TypeOf(args[0]).(*types.Tuple); ok && tup.Len() > 1 {
			return e.evalMulti(st, args[0], tup.Len())
		}
	}
	for _, a := range args {
		var next []multiOut
		for _, o := range outs {
			for _, v := range e.eval(o.st, a) {
				next = append(next, multiOut{v.st, append(append([]*Val(nil), o.vs...), v.v)})
			}
		}
		outs = next
	}
	return outs
}

// evalCall evaluates a call expression; n is the number of results wanted.
func (e *Engine) evalCall(st *State, call *ast.CallExpr, n int) []multiOut {
	var out []multiOut
	for _, ci := range e.prepareCall(st, call) {
		out = append(out, e.invoke(ci.st, ci, false, false)...)
	}
	return out
}

func lockOp(name string) (op string, ok bool) {
	switch name {
	case "sync.Mutex.Lock", "sync.RWMutex.Lock":
		return "Lock", true
	case "sync.Mutex.Unlock", "sync.RWMutex.Unlock":
		return "Unlock", true
	case "sync.RWMutex.RLock":
		return "RLock", true
	case "sync.RWMutex.RUnlock":
		return "RUnlock", true
	}
	return "", false
}

// invoke performs the call described by ci in state st.
func (e *Engine) invoke(st *State, ci *callInfo, isDeferred, isSpawn bool) []multiOut {
	pos := ci.call.Pos()
	if ci.conv {
		t := e.Info.TypeOf(ci.call)
		v := e.newVal(KConv, t, pos)
		v.Src = ci.args[0]
		if c, ok := e.Info.Types[ci.call]; ok && c.Value != nil {
			v = e.constVal(c.Value, t)
		}
		return []multiOut{{st, []*Val{v}}}
	}
	if ci.builtin != "" {
		return e.invokeBuiltin(st, ci)
	}
	// closures
	if ci.fn != nil && ci.fn.Kind == KClosure {
		return e.inlineBody(st, ci, nil, ci.fn.Lit.Type, ci.fn.Lit.Body, ci.fn.Lit, isDeferred, isSpawn)
	}
	if ci.callee != nil {
		name := FuncName(ci.callee)
		if op, ok := lockOp(name); ok {
			path := ""
			if ci.recv != nil {
				path = ci.recv.Loc()
			}
			lev := &Event{Kind: EvLock, Pos: pos, Op: op, Path: path, Recv: ci.recv, Callee: ci.callee, Write: op == "Lock" || op == "Unlock"}
			if isDeferred {
				lev.Note = "deferred" // `defer mu.Unlock()`: runs at every exit of the frame, panics included
			}
			e.emit(st, lev)
			return []multiOut{{st, nil}}
		}
		switch name {
		case "sync.WaitGroup.Done", "sync.WaitGroup.Wait":
			// a WaitGroup armed with Add(1) is a completion signal like a channel that is closed once: Done ≙ close, Wait ≙ receive
			// (the location the WaitGroup was taken from is described like the channel's would be)
			if ci.recv != nil && !isDeferred {
				kind := EvClose
				if name == "sync.WaitGroup.Wait" {
					kind = EvRecv
				}
				wev := &Event{Kind: kind, Pos: pos, Path: ci.recv.Loc(), Recv: ci.recv, Note: "waitgroup"}
				if (ci.recv.Kind == KAddr || ci.recv.Kind == KField) && ci.recv.Field != nil {
					wev.Path, wev.Field, wev.Key = ci.recv.Path, ci.recv.Field, ci.recv.Src
				} else if r := st.lastReadOf(ci.recv); r != nil {
					wev.Path, wev.Field, wev.Key = r.Path, r.Field, r.Recv
				} else if selx, ok := ast.Unparen(ci.call.Fun).(*ast.SelectorExpr); ok {
					// x.f.Done(): the WaitGroup is field f of x
					if inner, ok := ast.Unparen(selx.X).(*ast.SelectorExpr); ok {
						if sl := e.Info.Selections[inner]; sl != nil && sl.Kind() == types.FieldVal {
							if fv, _ := sl.Obj().(*types.Var); fv != nil {
								if outs := e.eval(st, inner.X); len(outs) == 1 {
									st = outs[0].st
									wev.Field, wev.Key = fv, outs[0].v
								}
							}
						}
					}
				}
				e.emit(st, wev)
				return []multiOut{{st, nil}}
			}
		case "errors.As":
			return e.modelErrorsAs(st, ci)
		case "sync.Map.Range":
			// synchronous higher-order: run the callback as a loop body
			if len(ci.args) == 1 && ci.args[0].Kind == KClosure {
				return e.rangeCallback(st, ci)
			}
			// a method value or declared function as callback: its body is the loop body
			if len(ci.args) == 1 && ci.args[0].Kind == KFuncRef {
				if fn, ok := ci.args[0].Obj.(*types.Func); ok {
					if fd := e.Decls[fn.Origin()]; fd != nil && fd.Body != nil && st.frame.Depth < e.Policy.MaxDepth && !st.frame.active(fn.Origin()) &&
						e.Policy.Inline != nil && e.Policy.Inline(fn.Origin(), st.frame.Depth) {
						return e.rangeCallbackDecl(st, ci, fn.Origin(), fd)
					}
				}
			}
		}
		if fd := e.Decls[ci.callee]; fd != nil && !ci.iface && st.frame.Depth < e.Policy.MaxDepth &&
			!st.frame.active(ci.callee) && e.Policy.Inline != nil && e.Policy.Inline(ci.callee, st.frame.Depth) {
			return e.inlineBody(st, ci, fd.Recv, fd.Type, fd.Body, nil, isDeferred, isSpawn)
		}
		if e.Policy.Pure != nil && e.Policy.Pure(ci.callee) {
			return e.pureCall(st, ci)
		}
	}
	return e.opaqueCall(st, ci)
}

func (e *Engine) resultTypes(ci *callInfo) []types.Type {
	t := e.Info.TypeOf(ci.call)
	switch t := t.(type) {
	case *types.Tuple:
		var out []types.Type
		for i := 0; i < t.Len(); i++ {
			out = append(out, t.At(i).Type())
		}
		return out
	case nil:
		return nil
	}
	if b, ok := t.(*types.Basic); ok && b.Kind() == types.Invalid {
		return nil
	}
	return []types.Type{t}
}

func (e *Engine) markEscapes(args []*Val) {
	for _, a := range args {
		if a == nil {
			continue
		}
		if a.Kind == KAlloc {
			a.Elems = append(a.Elems[:0:0], a.Elems...)
		}
	}
}

func (e *Engine) opaqueCall(st *State, ci *callInfo) []multiOut {
	ev := &Event{Kind: EvCall, Pos: ci.call.Pos(), Callee: ci.callee, CalleeVal: ci.fn, Recv: ci.recv, Args: ci.args}
	var rs []*Val
	for i, t := range e.resultTypes(ci) {
		v := e.newVal(KCall, t, ci.call.Pos())
		v.Ev, v.Idx = ev, i
		if ci.callee != nil {
			switch FuncName(ci.callee) {
			case "fmt.Errorf", "errors.New", "time.After", "context.Background", "context.WithValue":
				v.NonNil = true
			}
		}
		rs = append(rs, v)
	}
	ev.Results = rs
	// allocations handed to opaque code: what it wrote into them is unknown
	for _, a := range ci.args {
		if a != nil && a.Kind == KAlloc {
			a.Escaped = true
		}
	}
	// pointers to locals handed to opaque code: their contents become unknown
	for _, a := range ci.args {
		if a != nil && a.Kind == KAddr && a.Obj != nil {
			if cur, ok := st.env[a.Obj]; ok {
				h := e.newVal(KHavoc, cur.Type, ci.call.Pos())
				h.Src = cur
				h.Obj = a.Obj
				st.env[a.Obj] = h
			}
		}
	}
	e.emit(st, ev)
	if e.Policy.WalkFuncArgs != nil && ci.callee != nil && e.Policy.WalkFuncArgs(ci.callee) {
		var fvs []*Val
		for _, a := range ci.args {
			if a == nil {
				continue
			}
			if a.Kind == KAlloc && len(a.Elems) > 0 {
				fvs = append(fvs, a.Elems...)
			} else {
				fvs = append(fvs, a)
			}
		}
		for _, fv := range fvs {
			ev.Sub = append(ev.Sub, e.walkFuncArg(st, ci, fv)...)
		}
	}
	return []multiOut{{st, rs}}
}

// walkFuncArg walks a function value handed to an opaque callee, with unknown arguments, on a copy of the state.
func (e *Engine) walkFuncArg(st *State, outer *callInfo, fv *Val) []*Path {
	if fv == nil {
		return nil
	}
	var (
		ft     *ast.FuncType
		body   *ast.BlockStmt
		lit    *ast.FuncLit
		recv   *ast.FieldList
		callee *types.Func
	)
	switch fv.Kind {
	case KClosure:
		if fv.Lit == nil {
			return nil
		}
		lit, ft, body = fv.Lit, fv.Lit.Type, fv.Lit.Body
	case KFuncRef:
		fn, ok := fv.Obj.(*types.Func)
		if !ok {
			return nil
		}
		fd := e.Decls[fn.Origin()]
		if fd == nil || fd.Body == nil || st.frame.active(fn.Origin()) {
			return nil
		}
		ft, body, recv, callee = fd.Type, fd.Body, fd.Recv, fn.Origin()
	default:
		return nil
	}
	cp := st.clone()
	base := len(cp.Events)
	cp.frame = &Frame{Parent: st.frame, Depth: st.frame.Depth}
	inner := &callInfo{st: cp, call: outer.call, callee: callee, recv: fv.Recv}
	if lit != nil {
		inner.fn = fv
	}
	if ft.Params != nil {
		for _, f := range ft.Params.List {
			k := len(f.Names)
			if k == 0 {
				k = 1
			}
			for i := 0; i < k; i++ {
				inner.args = append(inner.args, e.newVal(KHavoc, e.Info.TypeOf(f.Type), f.Pos()))
			}
		}
	}
	var out []*Path
	for _, o := range e.inlineBody(cp, inner, recv, ft, body, lit, false, false) {
		out = append(out, &Path{Events: o.st.Events[base:], Trace: o.st.Trace, Unsup: o.st.Unsup, st: o.st, Panic: o.st.ctrl == cPanic})
	}
	return out
}

func (e *Engine) pureCall(st *State, ci *callInfo) []multiOut {
	var kb strings.Builder
	kb.WriteString(FuncName(ci.callee))
	if ci.recv != nil {
		fmt.Fprintf(&kb, "|r%d", ci.recv.ID)
	}
	for _, a := range ci.args {
		fmt.Fprintf(&kb, "|%d", a.ID)
	}
	key := kb.String()
	ev := &Event{Kind: EvCall, Pos: ci.call.Pos(), Callee: ci.callee, Recv: ci.recv, Args: ci.args, Note: "pure"}
	var rs []*Val
	for i, t := range e.resultTypes(ci) {
		k := fmt.Sprintf("%s#%d", key, i)
		v, ok := e.pure[k]
		if !ok {
			v = e.newVal(KCall, t, ci.call.Pos())
			v.Ev, v.Idx = ev, i
			e.pure[k] = v
			e.pureList = append(e.pureList, v)
		}
		rs = append(rs, v)
	}
	ev.Results = rs
	e.emit(st, ev)
	return []multiOut{{st, rs}}
}

func (e *Engine) modelErrorsAs(st *State, ci *callInfo) []multiOut {
	outs := e.pureCallKeyed(st, ci, func() string {
		t := "?"
		if len(ci.args) > 1 && ci.args[1].Type != nil {
			t = typeStr(ci.args[1].Type)
		}
		return fmt.Sprintf("errors.As|%d|%s", ci.args[0].ID, t)
	})
	if len(ci.args) == 2 && ci.args[1].Kind == KAddr && ci.args[1].Obj != nil {
		res := outs[0].vs[0]
		tv := e.newVal(KAsTarget, ci.args[1].Obj.Type(), ci.call.Pos())
		tv.Src = ci.args[0]
		tv.Src2 = res
		tv.NonNil = true
		// the target is only meaningful where the result is true; rules consult Src2's truth.
		st.env[ci.args[1].Obj] = tv
	}
	return outs
}

func (e *Engine) pureCallKeyed(st *State, ci *callInfo, keyf func() string) []multiOut {
	key := keyf()
	ev := &Event{Kind: EvCall, Pos: ci.call.Pos(), Callee: ci.callee, Recv: ci.recv, Args: ci.args, Note: "pure"}
	v, ok := e.pure[key]
	if !ok {
		v = e.newVal(KCall, types.Typ[types.Bool], ci.call.Pos())
		v.Ev = ev
		e.pure[key] = v
		e.pureList = append(e.pureList, v)
	}
	ev.Results = []*Val{v}
	e.emit(st, ev)
	return []multiOut{{st, []*Val{v}}}
}

func (e *Engine) rangeCallback(st *State, ci *callInfo) []multiOut {
	lit := ci.args[0].Lit
	ev := e.emit(st, &Event{Kind: EvCall, Pos: ci.call.Pos(), Callee: ci.callee, Recv: ci.recv, Args: ci.args, Note: "range"})
	_ = ev
	// zero iterations
	zero := st.clone()
	outs := []multiOut{{zero, nil}}
	// one iteration
	st.loops = append(st.loops, ci.call)
	e.emit(st, &Event{Kind: EvLoopBegin, Pos: ci.call.Pos(), Note: "Range", Recv: ci.recv})
	assigned := e.assignedIn(lit.Body)
	inner := &callInfo{st: st, call: ci.call, fn: ci.args[0]}
	for _, p := range lit.Type.Params.List {
		for range p.Names {
			a := e.newVal(KRangeVal, e.Info.TypeOf(p.Type), lit.Pos())
			a.Src = ci.recv
			inner.args = append(inner.args, a)
		}
	}
	for _, o := range e.inlineBody(st, inner, nil, lit.Type, lit.Body, lit, false, false) {
		e.emit(o.st, &Event{Kind: EvLoopEnd, Pos: ci.call.End()})
		o.st.loops = o.st.loops[:len(o.st.loops)-1]
		e.havoc(o.st, assigned, ci.call.Pos())
		outs = append(outs, multiOut{o.st, nil})
	}
	return outs
}

// rangeCallbackDecl: sync.Map.Range with a declared function / method value as callback.
func (e *Engine) rangeCallbackDecl(st *State, ci *callInfo, fn *types.Func, fd *ast.FuncDecl) []multiOut {
	e.emit(st, &Event{Kind: EvCall, Pos: ci.call.Pos(), Callee: ci.callee, Recv: ci.recv, Args: ci.args, Note: "range"})
	zero := st.clone()
	outs := []multiOut{{zero, nil}}
	st.loops = append(st.loops, ci.call)
	e.emit(st, &Event{Kind: EvLoopBegin, Pos: ci.call.Pos(), Note: "Range", Recv: ci.recv})
	assigned := e.assignedIn(fd.Body)
	inner := &callInfo{st: st, call: ci.call, callee: fn, recv: ci.args[0].Recv}
	if fd.Type.Params != nil {
		for _, p := range fd.Type.Params.List {
			for range p.Names {
				a := e.newVal(KRangeVal, e.Info.TypeOf(p.Type), fd.Pos())
				a.Src = ci.recv
				inner.args = append(inner.args, a)
			}
		}
	}
	for _, o := range e.inlineBody(st, inner, fd.Recv, fd.Type, fd.Body, nil, false, false) {
		// the callback's result (continue?) is reported like a literal's: as the exit event of a frame under the Range loop
		e.emit(o.st, &Event{Kind: EvLoopEnd, Pos: ci.call.End()})
		o.st.loops = o.st.loops[:len(o.st.loops)-1]
		e.havoc(o.st, assigned, ci.call.Pos())
		outs = append(outs, multiOut{o.st, nil})
	}
	return outs
}

// inlineBody interprets a callee body at the call site.
func (e *Engine) inlineBody(st *State, ci *callInfo, recv *ast.FieldList, ft *ast.FuncType, body *ast.BlockStmt,
	lit *ast.FuncLit, isDeferred, isSpawn bool) []multiOut {
	parent := st.frame
	fr := &Frame{Fn: ci.callee, Lit: lit, Parent: parent, Depth: parent.Depth + 1,
		Deferred: parent.Deferred || isDeferred, Spawned: parent.Spawned || isSpawn}
	if lit != nil {
		fr.Fn = nil
		fr.Depth = parent.Depth // closures do not count against the inlining bound
	}
	st.frame = fr
	enter := e.emit(st, &Event{Kind: EvEnter, Pos: ci.call.Pos(), Fn: ci.callee, FnLit: lit, Recv: ci.recv, Args: ci.args})
	fr.CallEv = enter
	if lit != nil {
		enter.Fn = nil
	}
	// bind receiver
	if recv != nil && len(recv.List) > 0 && len(recv.List[0].Names) > 0 && ci.recv != nil {
		if obj := e.Info.Defs[recv.List[0].Names[0]]; obj != nil {
			rv := ci.recv
			// value receiver called through a pointer/location: the receiver is a copy
			if _, isPtr := obj.Type().Underlying().(*types.Pointer); !isPtr {
				e.emit(st, &Event{Kind: EvStructCopy, Pos: ci.call.Pos(), Recv: ci.recv, Path: ci.recv.Loc(), Note: "value receiver"})
			}
			st.env[obj] = rv
		}
	}
	// bind params
	i := 0
	if ft.Params != nil {
		for _, f := range ft.Params.List {
			_, variadic := f.Type.(*ast.Ellipsis)
			if len(f.Names) == 0 {
				i++
				continue
			}
			for _, n := range f.Names {
				obj := e.Info.Defs[n]
				var v *Val
				if variadic {
					if ci.call.Ellipsis.IsValid() && i < len(ci.args) {
						v = ci.args[i]
					} else {
						v = e.newVal(KAlloc, obj.Type(), n.Pos())
						v.Path = "variadic" // the pack of a variadic call: its length is the number of arguments
						if i < len(ci.args) {
							v.Elems = ci.args[i:]
						}
					}
				} else if i < len(ci.args) {
					v = ci.args[i]
				} else {
					v = e.newVal(KUnknown, obj.Type(), n.Pos())
				}
				if obj != nil && n.Name != "_" {
					st.env[obj] = v
				}
				i++
			}
		}
	}
	e.bindResults(st, ft, fr)
	var out []multiOut
	for _, o := range e.execBody(st, body) {
		for _, f := range e.finishFrame(o, body.Rbrace) {
			rs := f.ret
			if f.ctrl == cNormal {
				rs = nil
				for _, r := range fr.results {
					if v, ok := f.env[r]; ok {
						rs = append(rs, v)
					}
				}
			}
			if f.ctrl != cPanic {
				f.ctrl = cNormal
			}
			f.ret = nil
			f.frame = fr
			e.emit(f, &Event{Kind: EvExit, Pos: body.Rbrace, Fn: enter.Fn, FnLit: lit, Results: rs})
			f.frame = parent
			out = append(out, multiOut{f, rs})
		}
	}
	return out
}

func (e *Engine) invokeBuiltin(st *State, ci *callInfo) []multiOut {
	pos := ci.call.Pos()
	t := e.Info.TypeOf(ci.call)
	switch ci.builtin {
	case "len", "cap":
		arg := ci.args[0]
		if mt := e.Info.TypeOf(ci.call.Args[0]); mt != nil {
			if _, isMap := mt.Underlying().(*types.Map); isMap {
				e.emit(st, &Event{Kind: EvMapLen, Pos: pos, Path: e.mapPath(ci.call.Args[0], arg), Recv: arg})
			}
		}
		if ci.builtin == "len" && arg.Kind == KAlloc && arg.Path == "variadic" {
			return []multiOut{{st, []*Val{e.IntConst(int64(len(arg.Elems)))}}}
		}
		key := fmt.Sprintf("len|%d", arg.ID)
		v, ok := e.pure[key]
		if !ok {
			v = e.newVal(KLen, t, pos)
			v.Src = arg
			e.pure[key] = v
		}
		return []multiOut{{st, []*Val{v}}}
	case "make", "new":
		v := e.newVal(KAlloc, t, pos)
		v.NonNil = true
		v.Fields = map[string]*Val{}
		return []multiOut{{st, []*Val{v}}}
	case "append":
		v := e.newVal(KAppend, t, pos)
		v.Src = ci.args[0]
		v.Elems = ci.args[1:]
		if ci.call.Ellipsis.IsValid() {
			v.Op = token.ELLIPSIS
		}
		return []multiOut{{st, []*Val{v}}}
	case "copy":
		e.emit(st, &Event{Kind: EvCall, Pos: pos, Role: "builtin.copy", Args: ci.args, Note: "copy"})
		v := e.newVal(KUnknown, t, pos)
		return []multiOut{{st, []*Val{v}}}
	case "delete":
		e.emit(st, &Event{Kind: EvMapDelete, Pos: pos, Path: e.mapPath(ci.call.Args[0], ci.args[0]), Recv: ci.args[0], Key: ci.args[1]})
		return []multiOut{{st, nil}}
	case "close":
		cev := &Event{Kind: EvClose, Pos: pos, Path: ci.args[0].Loc(), Recv: ci.args[0]}
		if r := st.lastReadOf(ci.args[0]); r != nil {
			cev.Path, cev.Field, cev.Key = r.Path, r.Field, r.Recv
		}
		e.emit(st, cev)
		return []multiOut{{st, nil}}
	case "panic":
		e.emit(st, &Event{Kind: EvPanic, Pos: pos, Args: ci.args})
		st.ctrl = cPanic
		return []multiOut{{st, nil}}
	}
	v := e.newVal(KUnknown, t, pos)
	return []multiOut{{st, []*Val{v}}}
}
