package pw

import (
	"fmt"
	"go/ast"
	"go/constant"
	"go/token"
	"go/types"
	"strings"
)

type valOut struct {
	st *State
	v  *Val
}

type multiOut struct {
	st *State
	vs []*Val
}

type condOut struct {
	st *State
	b  bool
}

type locOut struct {
	st    *State
	loc   string
	field *types.Var
	base  *Val
}

func one(st *State, v *Val) []valOut { return []valOut{{st, v}} }

// eval evaluates an expression to a single abstract value (forking where helper inlining or boolean
// sub-expressions require it).
func (e *Engine) eval(st *State, x ast.Expr) []valOut {
	switch x := x.(type) {
	case *ast.ParenExpr:
		return e.eval(st, x.X)
	case *ast.BasicLit:
		tv := e.Info.Types[x]
		if tv.Value != nil {
			return one(st, e.constVal(tv.Value, tv.Type))
		}
		return one(st, e.newVal(KUnknown, tv.Type, x.Pos()))
	case *ast.Ident:
		return one(st, e.evalIdent(st, x))
	case *ast.FuncLit:
		v := e.newVal(KClosure, e.Info.TypeOf(x), x.Pos())
		v.Lit = x
		return one(st, v)
	case *ast.CompositeLit:
		return e.evalComposite(st, x)
	case *ast.SelectorExpr:
		return e.evalSelector(st, x)
	case *ast.IndexExpr:
		return e.evalIndex(st, x)
	case *ast.IndexListExpr:
		return e.eval(st, x.X)
	case *ast.SliceExpr:
		var out []valOut
		for _, b := range e.eval(st, x.X) {
			v := e.newVal(KSlice, e.Info.TypeOf(x), x.Pos())
			v.Src = b.v
			// Path records whether the slice expression covers its whole operand (s[:], s[0:]) or only a part of it
			v.Path = "part"
			if x.High == nil && x.Max == nil {
				if x.Low == nil {
					v.Path = "full"
				} else if tv, ok := e.Info.Types[x.Low]; ok && tv.Value != nil && tv.Value.ExactString() == "0" {
					v.Path = "full"
				}
			}
			out = append(out, valOut{b.st, v})
		}
		return out
	case *ast.StarExpr:
		var out []valOut
		for _, p := range e.eval(st, x.X) {
			out = append(out, valOut{p.st, e.deref(p.st, p.v, x.Pos(), e.Info.TypeOf(x))})
		}
		return out
	case *ast.UnaryExpr:
		return e.evalUnary(st, x)
	case *ast.BinaryExpr:
		return e.evalBinary(st, x)
	case *ast.CallExpr:
		var out []valOut
		for _, m := range e.evalCall(st, x, 1) {
			var v *Val
			if len(m.vs) > 0 {
				v = m.vs[0]
			} else {
				v = e.newVal(KUnknown, nil, x.Pos())
			}
			out = append(out, valOut{m.st, v})
		}
		return out
	case *ast.TypeAssertExpr:
		var out []valOut
		for _, b := range e.eval(st, x.X) {
			v := e.newVal(KAssert, e.Info.TypeOf(x), x.Pos())
			v.Src = b.v
			// a single-value assertion to an interface type panics on a nil operand: the result is never nil
			if _, isIface := v.Type.Underlying().(*types.Interface); isIface {
				v.NonNil = true
			}
			out = append(out, valOut{b.st, v})
		}
		return out
	case *ast.KeyValueExpr:
		return e.eval(st, x.Value)
	}
	e.unsupported(st, x.Pos(), fmt.Sprintf("expression %T", x))
	return one(st, e.newVal(KUnknown, e.Info.TypeOf(x), x.Pos()))
}

// evalMulti evaluates a multi-valued expression (call, comma-ok forms).
func (e *Engine) evalMulti(st *State, x ast.Expr, n int) []multiOut {
	x = ast.Unparen(x)
	switch x := x.(type) {
	case *ast.CallExpr:
		return e.evalCall(st, x, n)
	case *ast.IndexExpr:
		// v, ok := m[k]
		var out []multiOut
		for _, b := range e.eval(st, x.X) {
			for _, k := range e.eval(b.st, x.Index) {
				ev := e.emit(k.st, &Event{Kind: EvMapLookup, Pos: x.Pos(), Path: e.mapPath(x.X, b.v), Recv: b.v, Key: k.v, Note: "commaok"})
				v := e.newVal(KMapVal, e.Info.TypeOf(x), x.Pos())
				if tup, ok := e.Info.TypeOf(x).(*types.Tuple); ok {
					v.Type = tup.At(0).Type()
				}
				v.Ev = ev
				ok := e.newVal(KMapOk, types.Typ[types.Bool], x.Pos())
				ok.Ev = ev
				ok.Src = v
				ev.Results = []*Val{v, ok}
				out = append(out, multiOut{k.st, []*Val{v, ok}})
			}
		}
		return out
	case *ast.TypeAssertExpr:
		var out []multiOut
		for _, b := range e.eval(st, x.X) {
			v := e.newVal(KAssert, nil, x.Pos())
			if tup, ok := e.Info.TypeOf(x).(*types.Tuple); ok {
				v.Type = tup.At(0).Type()
			} else {
				v.Type = e.Info.TypeOf(x)
			}
			v.Src = b.v
			ok := e.newVal(KMapOk, types.Typ[types.Bool], x.Pos())
			ok.Src = v
			out = append(out, multiOut{b.st, []*Val{v, ok}})
		}
		return out
	case *ast.UnaryExpr:
		if x.Op == token.ARROW {
			var out []multiOut
			for _, c := range e.eval(st, x.X) {
				ev := e.emit(c.st, e.recvEvent(c.st, c.v, x.Pos()))
				v := e.newVal(KRecv, nil, x.Pos())
				v.Ev = ev
				ok := e.newVal(KMapOk, types.Typ[types.Bool], x.Pos())
				ok.Src = v
				out = append(out, multiOut{c.st, []*Val{v, ok}})
			}
			return out
		}
	}
	var out []multiOut
	for _, o := range e.eval(st, x) {
		out = append(out, multiOut{o.st, []*Val{o.v}})
	}
	return out
}

func (e *Engine) evalIdent(st *State, id *ast.Ident) *Val {
	if id.Name == "_" {
		return e.newVal(KUnknown, nil, id.Pos())
	}
	obj := e.Info.Uses[id]
	if obj == nil {
		obj = e.Info.Defs[id]
	}
	switch o := obj.(type) {
	case *types.Nil:
		return e.nilVal()
	case *types.Const:
		key := "k:" + o.Name()
		if o.Pkg() != nil {
			key = "k:" + o.Pkg().Path() + "." + o.Name()
		}
		if v, ok := e.consts[key]; ok {
			return v
		}
		canon := e.constVal(o.Val(), o.Type())
		v := e.newVal(KConst, o.Type(), token.NoPos)
		v.Const = o.Val()
		v.Obj = o
		v.Canon = canon
		e.consts[key] = v
		return v
	case *types.Var:
		if v, ok := st.env[o]; ok {
			return v
		}
		if o.Pkg() != nil && o.Parent() == o.Pkg().Scope() {
			loc := "g:" + GlobalName(o)
			if v, ok := st.heap[loc]; ok {
				return v
			}
			v := e.newVal(KGlobal, o.Type(), id.Pos())
			v.Obj = o
			v.Path = loc
			st.heap[loc] = v
			e.emit(st, &Event{Kind: EvFieldRead, Pos: id.Pos(), Path: loc, Obj: o, Note: "global", Value: v})
			return v
		}
		// free variable of an isolated closure, or a variable whose definition was not modelled
		v := e.newVal(KParam, o.Type(), id.Pos())
		v.Obj = o
		st.env[o] = v
		return v
	case *types.Func:
		v := e.newVal(KFuncRef, o.Type(), id.Pos())
		v.Obj = o
		return v
	case *types.Builtin, *types.TypeName, *types.PkgName:
		v := e.newVal(KUnknown, nil, id.Pos())
		v.Obj = obj
		return v
	}
	return e.newVal(KUnknown, e.Info.TypeOf(id), id.Pos())
}

func (e *Engine) evalComposite(st *State, x *ast.CompositeLit) []valOut {
	t := e.Info.TypeOf(x)
	res := e.newVal(KAlloc, t, x.Pos())
	res.Fields = map[string]*Val{}
	res.NonNil = true
	sts := []*State{st}
	var stype *types.Struct
	if t != nil {
		stype, _ = t.Underlying().(*types.Struct)
	}
	for i, el := range x.Elts {
		var name string
		valx := el
		if kv, ok := el.(*ast.KeyValueExpr); ok {
			valx = kv.Value
			if id, ok := kv.Key.(*ast.Ident); ok && stype != nil {
				name = id.Name
			}
		} else if stype != nil && i < stype.NumFields() {
			name = stype.Field(i).Name()
		}
		var next []*State
		var lastV *Val
		for _, s := range sts {
			outs := e.eval(s, valx)
			for _, o := range outs {
				lastV = o.v
				next = append(next, o.st)
			}
		}
		// Note: with forking inside element evaluation the recorded element is the last outcome's value;
		// composite literals in the analysed code have fork-free elements.
		if name != "" {
			res.Fields[name] = lastV
			// a struct stored by value in a literal field is a copy taken now: later writes to the source are not seen through it
			if lastV != nil && lastV.Type != nil {
				if _, isStruct := lastV.Type.Underlying().(*types.Struct); isStruct && (lastV.Kind == KAlloc || lastV.Kind == KHavoc || lastV.Kind == KParam) {
					for _, s := range next {
						e.emit(s, &Event{Kind: EvStructCopy, Pos: valx.Pos(), Recv: lastV, Value: res, Note: "literal:" + name})
					}
				}
			}
		} else {
			res.Elems = append(res.Elems, lastV)
		}
		sts = next
	}
	var out []valOut
	for _, s := range sts {
		out = append(out, valOut{s, res})
	}
	return out
}

// selection path helper: returns the chain of fields for a (possibly promoted) field selection.
func (e *Engine) fieldChain(sel *types.Selection) []*types.Var {
	t := sel.Recv()
	var chain []*types.Var
	for _, idx := range sel.Index() {
		for {
			if p, ok := t.Underlying().(*types.Pointer); ok {
				t = p.Elem()
				continue
			}
			break
		}
		s, ok := t.Underlying().(*types.Struct)
		if !ok {
			break
		}
		f := s.Field(idx)
		chain = append(chain, f)
		t = f.Type()
	}
	return chain
}

// evalFieldLoc computes the heap location of a field selector (emitting reads for intermediate steps).
func (e *Engine) evalFieldLoc(st *State, x *ast.SelectorExpr, forWrite bool) []locOut {
	sel := e.Info.Selections[x]
	if sel == nil || sel.Kind() != types.FieldVal {
		return nil
	}
	chain := e.fieldChain(sel)
	var out []locOut
	for _, b := range e.evalBase(st, x.X) {
		loc := b.v.Loc()
		base := b.v
		for i, f := range chain {
			loc = loc + "." + f.Name()
			if i < len(chain)-1 {
				// intermediate embedded field read
				v := e.readLoc(b.st, loc, f, x.Pos(), base)
				if _, isPtr := f.Type().Underlying().(*types.Pointer); isPtr {
					loc = v.Loc()
					base = v
				}
			}
		}
		out = append(out, locOut{b.st, loc, chain[len(chain)-1], base})
	}
	return out
}

// evalBase evaluates the operand of a selector: addressable struct values are treated by location.
func (e *Engine) evalBase(st *State, x ast.Expr) []valOut {
	x = ast.Unparen(x)
	t := e.Info.TypeOf(x)
	if t != nil {
		if _, isStruct := t.Underlying().(*types.Struct); isStruct {
			// struct-valued operand: use its location, not a copy
			switch xx := x.(type) {
			case *ast.SelectorExpr:
				if sel := e.Info.Selections[xx]; sel != nil && sel.Kind() == types.FieldVal {
					var out []valOut
					for _, l := range e.evalFieldLoc(st, xx, false) {
						e.emit(l.st, &Event{Kind: EvFieldRead, Pos: xx.Pos(), Path: l.loc, Field: l.field, Recv: l.base, Note: "addr"})
						a := e.newVal(KAddr, types.NewPointer(t), x.Pos())
						a.Path = l.loc
						out = append(out, valOut{l.st, a})
					}
					return out
				}
			case *ast.Ident:
				if obj, ok := e.Info.Uses[xx].(*types.Var); ok {
					if v, ok := st.env[obj]; ok && (v.Kind == KAlloc || v.Kind == KParam || v.Kind == KZero || v.Kind == KRangeVal || v.Kind == KField || v.Kind == KCall || v.Kind == KAssert || v.Kind == KConv) {
						return one(st, v)
					}
				}
			case *ast.IndexExpr:
				var out []valOut
				for _, b := range e.evalBase(st, xx.X) {
					for _, k := range e.eval(b.st, xx.Index) {
						a := e.newVal(KAddr, types.NewPointer(t), x.Pos())
						a.Path = fmt.Sprintf("%s[$%d]", b.v.Loc(), k.v.ID)
						a.Src, a.Src2 = b.v, k.v
						out = append(out, valOut{k.st, a})
					}
				}
				return out
			case *ast.StarExpr:
				return e.eval(st, xx.X)
			}
		}
		if _, isArr := t.Underlying().(*types.Array); isArr {
			if xx, ok := x.(*ast.SelectorExpr); ok {
				if sel := e.Info.Selections[xx]; sel != nil && sel.Kind() == types.FieldVal {
					var out []valOut
					for _, l := range e.evalFieldLoc(st, xx, false) {
						a := e.newVal(KAddr, types.NewPointer(t), x.Pos())
						a.Path = l.loc
						out = append(out, valOut{l.st, a})
					}
					return out
				}
			}
		}
	}
	return e.eval(st, x)
}

func (e *Engine) readLoc(st *State, loc string, f *types.Var, pos token.Pos, base *Val) *Val {
	v, ok := st.heap[loc]
	if !ok {
		// allocation-site knowledge: field of a composite literal
		if base != nil && base.Kind == KAlloc && base.Fields != nil && f != nil {
			if fv, ok := base.Fields[f.Name()]; ok && fv != nil {
				v = fv
			} else if (len(base.Fields) > 0 || base.Lit == nil) && !base.Escaped {
				if _, isStruct := derefType(base.Type).Underlying().(*types.Struct); isStruct && base.Elems == nil {
					v = e.newVal(KZero, f.Type(), pos)
				}
			}
		}
		if v == nil {
			v = e.newVal(KField, nil, pos)
			if f != nil {
				v.Type = f.Type()
			}
			v.Path = loc
			v.Field = f
			v.Src = base
			if f != nil {
				q := qualField(f, base)
				if e.Policy.AssumeNil[q] {
					st.nilF[v.ID] = true
				}
				if e.Policy.AssumeNonNil[q] {
					st.nilF[v.ID] = false
				}
			}
		}
		st.heap[loc] = v
	}
	e.emit(st, &Event{Kind: EvFieldRead, Pos: pos, Path: loc, Field: f, Value: v, Recv: base})
	return v
}

func derefType(t types.Type) types.Type {
	if t == nil {
		return types.Typ[types.Invalid]
	}
	if p, ok := t.Underlying().(*types.Pointer); ok {
		return p.Elem()
	}
	return t
}

func qualField(f *types.Var, base *Val) string {
	return f.Name()
}

func (e *Engine) evalSelector(st *State, x *ast.SelectorExpr) []valOut {
	// qualified identifier
	if id, ok := x.X.(*ast.Ident); ok {
		if _, isPkg := e.Info.Uses[id].(*types.PkgName); isPkg {
			return one(st, e.evalIdent(st, x.Sel))
		}
	}
	sel := e.Info.Selections[x]
	if sel == nil {
		return one(st, e.evalIdent(st, x.Sel))
	}
	switch sel.Kind() {
	case types.FieldVal:
		var out []valOut
		for _, l := range e.evalFieldLoc(st, x, false) {
			out = append(out, valOut{l.st, e.readLoc(l.st, l.loc, l.field, x.Pos(), l.base)})
		}
		return out
	case types.MethodVal, types.MethodExpr:
		var out []valOut
		for _, b := range e.evalBase(st, x.X) {
			v := e.newVal(KFuncRef, e.Info.TypeOf(x), x.Pos())
			v.Obj = sel.Obj()
			v.Recv = b.v
			out = append(out, valOut{b.st, v})
		}
		return out
	}
	return one(st, e.newVal(KUnknown, e.Info.TypeOf(x), x.Pos()))
}

// mapPath names a map by location of its holder.
func (e *Engine) mapPath(x ast.Expr, v *Val) string {
	if id, ok := ast.Unparen(x).(*ast.Ident); ok {
		if obj, ok := e.Info.Uses[id].(*types.Var); ok && obj.Pkg() != nil && obj.Parent() == obj.Pkg().Scope() {
			return "g:" + GlobalName(obj)
		}
	}
	if v.Kind == KField || v.Kind == KGlobal || v.Kind == KAlloc && v.Path != "" && (v.Field != nil || strings.HasPrefix(v.Path, "g:")) {
		return v.Path
	}
	return v.Loc()
}

func (e *Engine) evalIndex(st *State, x *ast.IndexExpr) []valOut {
	// generic instantiation?
	if tv, ok := e.Info.Types[x.X]; ok && tv.IsValue() {
		if _, isSig := tv.Type.Underlying().(*types.Signature); isSig {
			return e.eval(st, x.X)
		}
	} else if ok && tv.IsType() {
		return one(st, e.newVal(KUnknown, nil, x.Pos()))
	}
	var out []valOut
	t := e.Info.TypeOf(x.X)
	_, isMap := derefUnder(t).(*types.Map)
	for _, b := range e.evalBase(st, x.X) {
		for _, k := range e.eval(b.st, x.Index) {
			if isMap {
				ev := e.emit(k.st, &Event{Kind: EvMapLookup, Pos: x.Pos(), Path: e.mapPath(x.X, b.v), Recv: b.v, Key: k.v})
				v := e.newVal(KMapVal, e.Info.TypeOf(x), x.Pos())
				v.Ev = ev
				ev.Results = []*Val{v}
				out = append(out, valOut{k.st, v})
				continue
			}
			loc := fmt.Sprintf("%s[$%d]", b.v.Loc(), k.v.ID)
			if hv, ok := k.st.heap[loc]; ok {
				out = append(out, valOut{k.st, hv})
				continue
			}
			v := e.newVal(KIndex, e.Info.TypeOf(x), x.Pos())
			v.Src, v.Src2 = b.v, k.v
			v.Path = loc
			k.st.heap[loc] = v
			out = append(out, valOut{k.st, v})
		}
	}
	return out
}

func derefUnder(t types.Type) types.Type {
	if t == nil {
		return types.Typ[types.Invalid]
	}
	return t.Underlying()
}

func (e *Engine) deref(st *State, p *Val, pos token.Pos, t types.Type) *Val {
	if p.Kind == KAddr && p.Obj != nil {
		if v, ok := st.env[p.Obj]; ok {
			return v
		}
	}
	loc := p.Loc()
	if p.Kind != KAddr {
		loc += ".*"
	}
	viaField := p.Kind == KAddr && p.Field != nil && p.Src != nil
	if v, ok := st.heap[loc]; ok {
		if viaField {
			e.emit(st, &Event{Kind: EvFieldRead, Pos: pos, Path: loc, Recv: p.Src, Field: p.Field, Value: v, Note: "via-pointer"})
		} else {
			e.emit(st, &Event{Kind: EvDeref, Pos: pos, Path: loc, Recv: p, Value: v})
		}
		return v
	}
	v := e.newVal(KField, t, pos)
	v.Path = loc
	v.Src = p
	if viaField {
		v.Src = p.Src
		v.Field = p.Field
	}
	st.heap[loc] = v
	if viaField {
		e.emit(st, &Event{Kind: EvFieldRead, Pos: pos, Path: loc, Recv: p.Src, Field: p.Field, Value: v, Note: "via-pointer"})
	} else {
		e.emit(st, &Event{Kind: EvDeref, Pos: pos, Path: loc, Recv: p, Value: v})
	}
	return v
}

func (e *Engine) evalUnary(st *State, x *ast.UnaryExpr) []valOut {
	switch x.Op {
	case token.AND:
		inner := ast.Unparen(x.X)
		switch in := inner.(type) {
		case *ast.CompositeLit:
			var out []valOut
			for _, o := range e.evalComposite(st, in) {
				o.v.Type = e.Info.TypeOf(x)
				out = append(out, o)
			}
			return out
		case *ast.Ident:
			obj := e.Info.Uses[in]
			a := e.newVal(KAddr, e.Info.TypeOf(x), x.Pos())
			a.Obj = obj
			a.Path = fmt.Sprintf("var:%s@%d", in.Name, e.Fset.Position(obj.Pos()).Line)
			if cur, ok := st.env[obj]; ok {
				a.Src = cur
			}
			return one(st, a)
		case *ast.SelectorExpr:
			var out []valOut
			for _, l := range e.evalFieldLoc(st, in, false) {
				a := e.newVal(KAddr, e.Info.TypeOf(x), x.Pos())
				a.Path = l.loc
				a.Field = l.field
				a.Src = l.base
				out = append(out, valOut{l.st, a})
			}
			if out != nil {
				return out
			}
		case *ast.IndexExpr:
			var out []valOut
			for _, b := range e.evalBase(st, in.X) {
				for _, k := range e.eval(b.st, in.Index) {
					a := e.newVal(KAddr, e.Info.TypeOf(x), x.Pos())
					a.Path = fmt.Sprintf("%s[$%d]", b.v.Loc(), k.v.ID)
					a.Src = b.v
					a.Src2 = k.v
					out = append(out, valOut{k.st, a})
				}
			}
			return out
		}
		var out []valOut
		for _, o := range e.eval(st, x.X) {
			a := e.newVal(KAddr, e.Info.TypeOf(x), x.Pos())
			a.Path = fmt.Sprintf("tmp$%d", o.v.ID)
			a.Src = o.v
			out = append(out, valOut{o.st, a})
		}
		return out
	case token.ARROW:
		var out []valOut
		for _, c := range e.eval(st, x.X) {
			ev := e.emit(c.st, e.recvEvent(c.st, c.v, x.Pos()))
			v := e.newVal(KRecv, e.Info.TypeOf(x), x.Pos())
			v.Ev = ev
			out = append(out, valOut{c.st, v})
		}
		return out
	case token.NOT:
		var out []valOut
		for _, c := range e.evalCond(st, x) {
			out = append(out, valOut{c.st, e.constVal(constant.MakeBool(c.b), types.Typ[types.Bool])})
		}
		return out
	}
	if tv, ok := e.Info.Types[x]; ok && tv.Value != nil {
		return one(st, e.constVal(tv.Value, tv.Type))
	}
	var out []valOut
	for _, o := range e.eval(st, x.X) {
		v := e.newVal(KUnary, e.Info.TypeOf(x), x.Pos())
		v.Src, v.Op = o.v, x.Op
		out = append(out, valOut{o.st, v})
	}
	return out
}

func isBoolOp(op token.Token) bool {
	switch op {
	case token.LAND, token.LOR, token.EQL, token.NEQ, token.LSS, token.LEQ, token.GTR, token.GEQ:
		return true
	}
	return false
}

func (e *Engine) evalBinary(st *State, x *ast.BinaryExpr) []valOut {
	if tv, ok := e.Info.Types[x]; ok && tv.Value != nil {
		return one(st, e.constVal(tv.Value, tv.Type))
	}
	if isBoolOp(x.Op) {
		var out []valOut
		for _, c := range e.evalCond(st, x) {
			out = append(out, valOut{c.st, e.constVal(constant.MakeBool(c.b), types.Typ[types.Bool])})
		}
		return out
	}
	var out []valOut
	for _, l := range e.eval(st, x.X) {
		for _, r := range e.eval(l.st, x.Y) {
			if cv := e.foldInt(x, l.v, r.v); cv != nil {
				out = append(out, valOut{r.st, cv})
				continue
			}
			v := e.newVal(KArith, e.Info.TypeOf(x), x.Pos())
			v.Src, v.Src2, v.Op = l.v, r.v, x.Op
			out = append(out, valOut{r.st, v})
		}
	}
	return out
}

// foldInt folds bit operations on two integer values known as constants on this path (flag sets kept in a local: of |= flag,
// of&flag != 0). Arithmetic is left symbolic: the polynomial rules read it.
func (e *Engine) foldInt(x *ast.BinaryExpr, a, b *Val) *Val {
	switch x.Op {
	case token.OR, token.AND, token.AND_NOT, token.XOR:
	default:
		return nil
	}
	t := e.Info.TypeOf(x)
	bt, ok := t.Underlying().(*types.Basic)
	if !ok || bt.Info()&types.IsInteger == 0 {
		return nil
	}
	ca, cb := intConstOf(a), intConstOf(b)
	if ca == nil || cb == nil {
		return nil
	}
	return e.constVal(constant.BinaryOp(ca, x.Op, cb), t)
}

func intConstOf(v *Val) constant.Value {
	if v == nil {
		return nil
	}
	if v.Kind == KZero {
		if bt, ok := v.Type.Underlying().(*types.Basic); ok && bt.Info()&types.IsInteger != 0 {
			return constant.MakeInt64(0)
		}
		return nil
	}
	if v.Kind == KConst && v.Const != nil && v.Const.Kind() == constant.Int {
		return v.Const
	}
	return nil
}

// ---------------------------------------------------------------------------------------------
// conditions

func (e *Engine) evalCond(st *State, x ast.Expr) []condOut {
	x = ast.Unparen(x)
	switch x := x.(type) {
	case *ast.UnaryExpr:
		if x.Op == token.NOT {
			outs := e.evalCond(st, x.X)
			for i := range outs {
				outs[i].b = !outs[i].b
			}
			return outs
		}
	case *ast.BinaryExpr:
		switch x.Op {
		case token.LAND:
			var out []condOut
			for _, l := range e.evalCond(st, x.X) {
				if !l.b {
					out = append(out, l)
					continue
				}
				out = append(out, e.evalCond(l.st, x.Y)...)
			}
			return out
		case token.LOR:
			var out []condOut
			for _, l := range e.evalCond(st, x.X) {
				if l.b {
					out = append(out, l)
					continue
				}
				out = append(out, e.evalCond(l.st, x.Y)...)
			}
			return out
		case token.EQL, token.NEQ, token.LSS, token.LEQ, token.GTR, token.GEQ:
			if tv, ok := e.Info.Types[x]; ok && tv.Value != nil {
				return []condOut{{st, constant.BoolVal(tv.Value)}}
			}
			var out []condOut
			for _, l := range e.eval(st, x.X) {
				for _, r := range e.eval(l.st, x.Y) {
					out = append(out, e.decideCmp(r.st, x.Op, l.v, r.v, x.Pos())...)
				}
			}
			return out
		}
	}
	if tv, ok := e.Info.Types[x]; ok && tv.Value != nil && tv.Value.Kind() == constant.Bool {
		return []condOut{{st, constant.BoolVal(tv.Value)}}
	}
	var out []condOut
	for _, o := range e.eval(st, x) {
		out = append(out, e.decideTruth(o.st, o.v)...)
	}
	return out
}

func (e *Engine) decideTruth(st *State, v *Val) []condOut {
	if b, known := st.truthKnown(v); known {
		return []condOut{{st, b}}
	}
	// comma-ok of a map lookup is tied to the nil-ness of a pointer-like value result? no: keep independent,
	// but a false ok implies the zero value (recorded as nil fact on the value when nil-able).
	f := st.clone()
	st.truth[v.ID] = true
	f.truth[v.ID] = false
	if v.Kind == KMapOk && v.Src != nil && isNilable(v.Src.Type) {
		if _, known := f.nilF[v.Src.ID]; !known {
			f.nilF[v.Src.ID] = true
		} else if !f.nilF[v.Src.ID] {
			f.dead = true
		}
	}
	var out []condOut
	if e.consistent(st) {
		out = append(out, condOut{st, true})
	}
	if !f.dead && e.consistent(f) {
		out = append(out, condOut{f, false})
	}
	return out
}

func (e *Engine) decideCmp(st *State, op token.Token, a, b *Val, pos token.Pos) []condOut {
	// nil comparisons
	if (op == token.EQL || op == token.NEQ) && (a.Kind == KConst && a.IsNil || b.Kind == KConst && b.IsNil) {
		other := a
		if a.Kind == KConst && a.IsNil {
			other = b
		}
		if isNil, known := st.nilKnown(other); known {
			return []condOut{{st, isNil == (op == token.EQL)}}
		}
		f := st.clone()
		st.nilF[other.ID] = true
		f.nilF[other.ID] = false
		var out []condOut
		if e.consistent(st) {
			out = append(out, condOut{st, op == token.EQL})
		}
		if e.consistent(f) {
			out = append(out, condOut{f, op != token.EQL})
		}
		return out
	}
	// boolean equality against a constant
	if op == token.EQL || op == token.NEQ {
		if cb, ok := numericConst(b); ok && cb.Kind() == constant.Bool {
			outs := e.decideTruth(st, a)
			for i := range outs {
				outs[i].b = (outs[i].b == constant.BoolVal(cb)) == (op == token.EQL)
			}
			return outs
		}
	}
	cur := e.tightenInt(st, a, b, st.relOf(a, b))
	want := opRel(op)
	if cur&^want == 0 {
		return []condOut{{st, true}}
	}
	if cur&want == 0 {
		return []condOut{{st, false}}
	}
	f := st.clone()
	st.setRel(a, b, cur&want)
	f.setRel(a, b, cur&^want)
	var out []condOut
	if e.consistent(st) {
		out = append(out, condOut{st, true})
	}
	if e.consistent(f) {
		out = append(out, condOut{f, false})
	}
	return out
}

// recvEvent builds a receive event; Path/Field/Key describe the location the channel was read from.
func (e *Engine) recvEvent(st *State, ch *Val, pos token.Pos) *Event {
	ev := &Event{Kind: EvRecv, Pos: pos, Path: ch.Loc(), Recv: ch}
	if r := st.lastReadOf(ch); r != nil {
		ev.Path, ev.Field, ev.Key = r.Path, r.Field, r.Recv
	}
	return ev
}

// lastReadOf finds the most recent field read that produced v.
func (s *State) lastReadOf(v *Val) *Event {
	for i := len(s.Events) - 1; i >= 0; i-- {
		ev := s.Events[i]
		if ev.Kind == EvFieldRead && ev.Value == v {
			return ev
		}
	}
	return nil
}

// tightenInt uses what the path already knows about an integer value and the neighbours of an integer constant: x > c−1 ⇔ x ≥ c,
// x < c+1 ⇔ x ≤ c. So `ttl >= 0` and `ttl > -1` are one test, wherever each form is written.
func (e *Engine) tightenInt(st *State, a, b *Val, cur uint8) uint8 {
	flip := func(r uint8) uint8 {
		var o uint8
		if r&RLt != 0 {
			o |= RGt
		}
		if r&REq != 0 {
			o |= REq
		}
		if r&RGt != 0 {
			o |= RLt
		}
		return o
	}
	isInt := func(v *Val) bool {
		if v == nil || v.Type == nil {
			return false
		}
		bt, ok := v.Type.Underlying().(*types.Basic)
		return ok && bt.Info()&types.IsInteger != 0
	}
	constInt := func(v *Val) (int64, bool) {
		if v == nil || v.Kind != KConst || v.Const == nil || v.Const.Kind() != constant.Int {
			return 0, false
		}
		n, ok := constant.Int64Val(v.Const)
		return n, ok && n > -1<<62 && n < 1<<62
	}
	x, c, swapped := a, b, false
	if _, ok := constInt(b); !ok {
		x, c, swapped = b, a, true
		cur = flip(cur)
	}
	n, ok := constInt(c)
	if !ok || !isInt(x) {
		if swapped {
			cur = flip(cur)
		}
		return cur
	}
	lo := st.relOf(x, e.IntConst(n-1))
	hi := st.relOf(x, e.IntConst(n+1))
	if lo&RGt == 0 { // x ≤ n−1
		cur &= RLt
	} else if lo&^RGt == 0 { // x > n−1
		cur &= REq | RGt
	}
	if hi&RLt == 0 { // x ≥ n+1
		cur &= RGt
	} else if hi&^RLt == 0 { // x < n+1
		cur &= RLt | REq
	}
	if swapped {
		cur = flip(cur)
	}
	return cur
}
