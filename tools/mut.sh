#!/bin/bash
# usage: mut.sh <name> <file> <old> <new> <prop>...  — analyses an in-memory variant (overlay) of one repo file
name="$1"; f="$2"; old="$3"; new="$4"; shift 4
mkdir -p /tmp/mutwork; cp /repo/$f /tmp/mutwork/$f
python3 - "$f" "$old" "$new" <<'PY' || exit 1
import sys
f,old,new=sys.argv[1:4]
s=open('/tmp/mutwork/'+f).read()
assert old in s, "pattern not found: "+old
open('/tmp/mutwork/'+f,'w').write(s.replace(old,new,1))
PY
echo "== $name"
for p in "$@"; do ${CL:-/verif/bin/cachelint} -verif /tmp/mutwork -prop $p -overlay /repo/$f=/tmp/mutwork/$f | grep -E 'violated|BROKEN|UNDECIDED|quick:' | grep -v "KNOWN" | cut -c1-240 | head -5; done
