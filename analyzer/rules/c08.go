package rules

import (
	"fmt"
	"go/ast"
	"go/token"
	"go/types"
	"golang.org/x/tools/go/types/typeutil"
	"math/big"
	"sort"
	"strings"

	"cachelint/pw"
)

func init() { register("C08", checkC08) }

// backendEntryMethods lists methods of a backend's types that are API or callback entry points: exported methods and
// methods whose value is taken (installed as Trait callbacks). Unexported helpers are covered through inlining.
func (c *Ctx) backendEntryMethods(b BK) []string {
	info := c.Pkg.TypesInfo
	methodValue := map[*types.Func]bool{}
	for _, f := range c.Pkg.Syntax {
		ast.Inspect(f, func(n ast.Node) bool {
			sel, ok := n.(*ast.SelectorExpr)
			if !ok {
				return true
			}
			s := info.Selections[sel]
			if s == nil || s.Kind() != types.MethodVal {
				return true
			}
			methodValue[s.Obj().(*types.Func).Origin()] = true
			return true
		})
		// calls are method values too in Selections; remove those that are only called
	}
	called := map[*types.Func]int{}
	valued := map[*types.Func]int{}
	for _, f := range c.Pkg.Syntax {
		ast.Inspect(f, func(n ast.Node) bool {
			if call, ok := n.(*ast.CallExpr); ok {
				if sel, ok := ast.Unparen(call.Fun).(*ast.SelectorExpr); ok {
					if s := info.Selections[sel]; s != nil && s.Kind() == types.MethodVal {
						called[s.Obj().(*types.Func).Origin()]++
					}
				}
			}
			if sel, ok := n.(*ast.SelectorExpr); ok {
				if s := info.Selections[sel]; s != nil && s.Kind() == types.MethodVal {
					valued[s.Obj().(*types.Func).Origin()]++
				}
			}
			return true
		})
	}
	var out []string
	c.eachFuncDecl(func(fd *ast.FuncDecl, fn *types.Func) {
		ok := false
		for _, t := range []string{b.Name, b.Wrapper, "shardedMapLegacyWalkerOf"} {
			if sameRecvNamed(fn, t) && (t != "shardedMapLegacyWalkerOf" || b.Name == "shardedMapOf") {
				ok = true
			}
		}
		if !ok {
			return
		}
		if fn.Exported() || valued[fn] > called[fn] {
			out = append(out, strings.TrimPrefix(pw.FuncName(fn), "cache."))
		}
	})
	sort.Strings(out)
	return out
}

func lockBucket(path string) string { return strings.TrimSuffix(path, ".RWMutex") }

// shardLocksets replays lock events normalising embedded-mutex paths to the bucket path.
func shardLocksets(evs []*pw.Event) []Held {
	out := make([]Held, len(evs))
	cur := Held{}
	for i, ev := range evs {
		out[i] = cur
		if ev.Kind == pw.EvLock {
			cur = cur.clone()
			p := lockBucket(ev.Path)
			switch ev.Op {
			case "Lock":
				cur[p]++
			case "Unlock":
				cur[p]--
			case "RLock":
				cur["R:"+p]++
			case "RUnlock":
				cur["R:"+p]--
			}
		}
	}
	return out
}

func checkC08(c *Ctx) {
	r := c.R
	r.Explanation = "Linearizability of histories is a property of interleavings; no static argument in reach bounds it and this check does NOT " +
		"claim it. It decides the structural conditions without which a lock-based map cannot be linearizable per key, each of which, when " +
		"broken, yields a wrong read in some schedule: (R08.1) every access to a shard's map — lookup, insert, delete, len, every iterator " +
		"step of a range — happens with that shard's lock held (shared for reads, exclusive for mutations), for every entry point of the " +
		"sharded backends with helpers inlined; (R08.2) a lookup and every map effect that depends on it lie in one uninterrupted critical " +
		"section, and on the sync.Map backend no operation re-stores a value derived from an earlier load (each single-key operation is one " +
		"sync.Map call); (R08.3) Write stores and a successful Delete removes before returning, and Read classifies the entry obtained by " +
		"its single lookup; (R08.4) Walk's iterator steps run under the lock on every incoming edge although the lock is dropped around the " +
		"callback; (R08.5) every path leaves all shard locks released and never re-acquires a lock it holds."
	r.Rule("R08.1", "lock coverage of every shard-map access (shared for reads, exclusive for writes)", 20)
	r.Rule("R08.2", "check-and-act atomicity: no unlock between a lookup and its dependent effect; no load-then-store on sync.Map", 6)
	r.Rule("R08.3", "effect before return; single lookup per Read", 6)
	r.Rule("R08.4", "Walk iterator discipline: every iterator step under the shard lock", 3)
	r.Rule("R08.5", "lock balance: all shard locks released at every exit, no self-deadlock", 20)
	r.Rule("R08.7", "per-key effects: one index function per backend, hash hits confirmed by the full key, Delete reports removal only with evidence, batch operations reach every entry (obligations of C07 R07.1/R07.3/R07.4, C09 R09.3)", 20)
	r.Rule("R08.6", "stored entries are private and immutable (key copied, no write after publication, no unprotected storage field)", 3)
	r.NotDecided = []string{"linearizability of histories (real-time order, batch operations' per-key instants)", "eviction interplay with concurrent writes", "Go map / sync.Map / RWMutex semantics"}
	for _, b := range backends {
		c.c08Backend(b)
	}
	// R08.6: stored entries are immutable and private: a reader classifies the entry it obtained under the lock after
	// releasing it, and Walk reports entries as they were stored — so K must be a private copy (R09.2), K/V/E are never written
	// after publication and every other field of the storage types follows a lock discipline (C16's classes, restricted to
	// the backend types)
	c.borrow("C09", func() {
		for _, b := range backends {
			c.c09WriteCopies(b)
		}
	}, func(o *coreObl) (string, bool) { return "R08.6", o.Rule == "R09.2" })
	c.borrow("C16", func() { c.c16Classified(); c.c16Accesses() }, func(o *coreObl) (string, bool) {
		k := o.Construct
		backendField := strings.HasPrefix(k, "TraitEntry") || strings.HasPrefix(k, "hashedBucket") || strings.HasPrefix(k, "shardedMap") || strings.HasPrefix(k, "syncMap") || strings.HasPrefix(k, "ShardedMap") || strings.HasPrefix(k, "SyncMap")
		if !backendField || o.Status == "discharged" {
			return "", false
		}
		if strings.HasSuffix(k, ".E") && strings.HasSuffix(o.What, "ExpireAll") {
			// ExpireAll stamping E of a stored entry in place is one word written at one instant: for per-key ordering it is
			// a single linearization point; its data-race aspect is C16's (known) finding, not a C08 matter
			return "", false
		}
		return "R08.6", o.Rule == "R16.1" || o.Rule == "R16.6"
	})
	if !hasViolationRule(r.Obls, "R08.6") {
		r.OK("R08.6", "backends", "no in-place mutation of published entries, no unprotected storage field")
	}
	c.c08RangeVarAddress()
	c.c08MapSwapUnderWalk()
	c.c08DeferredUnlockInLoop()
	// R08.2 for the janitor: an entry is deleted by deleteExpired in the critical section that examined it (C11 R11.2)
	for _, b := range backends {
		b := b
		c.borrowKinds("C11", func() { c.c11DeleteExpired(b) }, "R08.2", b.Name+".deleteExpired:same-section", []string{"R11.2"}, "delete-outside-scan")
	}
	// R08.7: an operation on key k touches k's slot only and a batch operation reaches every slot: the slot is chosen by one index
	// function per backend (R07.1), a hash hit is confirmed by the full key before the entry is used or deleted (R09.3), Delete
	// reports removal only with evidence (R07.3), ExpireAll/DeleteAll/Len act on every entry of every shard (R07.4)
	c.borrow("C07", func() {
		for _, b := range backends {
			c.c07Index(b)
			c.c07Delete(b)
			c.c07Batch(b)
		}
	}, func(o *coreObl) (string, bool) {
		return "R08.7", o.Rule == "R07.1" || o.Rule == "R07.3" || o.Rule == "R07.4"
	})
	c.borrow("C09", func() {
		for _, b := range backends {
			if b.Sharded {
				c.c09Confirm(b)
			}
		}
	}, func(o *coreObl) (string, bool) { return "R08.7", o.Rule == "R09.3" })
	// "a completed ExpireAll is visible to every later Read": Read classifies by the entry's own E and the clock on every path
	// (C07 R07.2); "a completed Write is visible …" until the entry has been expired for DeleteExpiredAfter: the janitor's
	// boundary is now − DeleteExpiredAfter (C11 R11.1)
	c.borrow("C07", func() {
		for _, b := range backends {
			c.c07Read(b)
		}
	}, func(o *coreObl) (string, bool) { return "R08.7", o.Rule == "R07.2" })
	c.borrow("C11", func() {
		c.c11Boundary()
		for _, b := range backends {
			c.c11DeleteExpired(b) // cleanup acts on a key only when its entry has an expiry before the boundary
		}
	}, func(o *coreObl) (string, bool) { return "R08.7", o.Rule == "R11.1" || o.Rule == "R11.2" })
	// … with the documented DeleteExpiredAfter (24 h exactly when 0): a completed Write stays readable (as stale) that long
	c.borrow("C11", func() {
		c.defaultsRule("R11.1", map[string]*big.Rat{"DeleteExpiredAfter": big.NewRat(24*3600*1000000000, 1)})
	}, func(o *coreObl) (string, bool) { return "R08.7", o.Rule == "R11.1" })
	// "Walk visits every existing entry exactly once": every iterated entry is handed to the callback and counted once (C13 R13.3 on
	// the Walk methods = C07 R07.7) — a Walk that filters (expired, overdue) leaves out entries Read still returns
	for _, b := range backends {
		b := b
		c.borrow("C13", func() { c.c13Counts(b, nil) }, func(o *coreObl) (string, bool) {
			return "R08.4", o.Rule == "R13.3" && strings.HasSuffix(o.Construct, ".Walk")
		})
	}
}

// c08RangeVarAddress: with the module's language version below go1.22 the variables of a range clause are shared by all iterations:
// handing &v to a callback (or storing it) gives every iteration the same pointer — whoever keeps it sees the entry turn into
// another one (Walk "reports only entries that were stored").
func (c *Ctx) c08RangeVarAddress() {
	r := c.R
	if c.Pkg.Module != nil && c.Pkg.Module.GoVersion != "" {
		var major, minor int
		fmt.Sscanf(c.Pkg.Module.GoVersion, "%d.%d", &major, &minor)
		if major > 1 || major == 1 && minor >= 22 {
			r.OK("R08.4", "package:range-variable-address", "module language version "+c.Pkg.Module.GoVersion+": per-iteration loop variables")
			return
		}
	}
	info := c.Pkg.TypesInfo
	n, bad := 0, false
	c.eachFuncDecl(func(fd *ast.FuncDecl, fn *types.Func) {
		name := strings.TrimPrefix(pw.FuncName(fn), "cache.")
		ast.Inspect(fd.Body, func(x ast.Node) bool {
			rs, ok := x.(*ast.RangeStmt)
			if !ok || rs.Tok != token.DEFINE {
				return true
			}
			n++
			vars := map[types.Object]bool{}
			for _, e := range []ast.Expr{rs.Key, rs.Value} {
				if id, ok := e.(*ast.Ident); ok && id.Name != "_" {
					if o := info.Defs[id]; o != nil {
						vars[o] = true
					}
				}
			}
			ast.Inspect(rs.Body, func(y ast.Node) bool {
				ue, ok := y.(*ast.UnaryExpr)
				if !ok || ue.Op != token.AND {
					return true
				}
				id, ok := ast.Unparen(ue.X).(*ast.Ident)
				if !ok || !vars[info.Uses[id]] {
					return true
				}
				// &v is fine as an atomic operand or a decode target used within the iteration; flagged when it is an argument of a
				// dynamic call (callback) or is stored
				escapes := false
				ast.Inspect(rs.Body, func(z ast.Node) bool {
					switch w := z.(type) {
					case *ast.CallExpr:
						for _, a := range w.Args {
							if ast.Unparen(a) == ast.Expr(ue) {
								if _, isDeclared := typeutil.Callee(info, w).(*types.Func); !isDeclared {
									escapes = true // call of a function value: user callback
								}
							}
						}
					case *ast.AssignStmt:
						for _, rhs := range w.Rhs {
							if ast.Unparen(rhs) == ast.Expr(ue) {
								escapes = true
							}
						}
					case *ast.CompositeLit:
						for _, el := range w.Elts {
							if kv, ok := el.(*ast.KeyValueExpr); ok {
								el = kv.Value
							}
							if ast.Unparen(el) == ast.Expr(ue) {
								escapes = true
							}
						}
					}
					return true
				})
				if escapes {
					bad = true
					r.Bad("R08.4", name, "range-variable-address", c.Pos(ue.Pos()), "the address of a range variable is handed to a callback or stored: all iterations share that variable (language version < go1.22), the receiver sees one entry turn into the next", nil)
				}
				return true
			})
			return true
		})
	})
	if !bad {
		r.OK("R08.4", "package:range-variable-address", fmt.Sprintf("%d range loops, no address of a range variable escapes", n))
	}
}

// c08MapSwapUnderWalk: Walk ranges over a shard's map and drops the shard lock around every callback; the range statement evaluated
// the map once, so the walk goes on over *that* map. It stays a walk over the live shard only because nobody ever installs another
// map in the shard: an operation that replaces the map (instead of deleting from it) leaves a paused Walk iterating the detached old
// map — it then reports entries that a completed DeleteAll removed and misses everything written since. When Walk does not drop the
// lock inside the range (snapshot form), replacing the map is fine.
func (c *Ctx) c08MapSwapUnderWalk() {
	r := c.R
	info := c.Pkg.TypesInfo
	for _, b := range backends {
		if !b.Sharded {
			continue
		}
		run := c.bk(b, b.Name+".Walk", false)
		if run.err != nil {
			r.Unknown("R08.4", b.Name+".Walk", run.err.Error())
			continue
		}
		drops := false
		for _, p := range run.paths {
			for _, g := range iterations(p) {
				if !g.overData {
					continue
				}
				for _, ev := range g.events {
					if ev.Kind == pw.EvLock && (ev.Op == "RUnlock" || ev.Op == "Unlock") {
						drops = true
					}
				}
			}
		}
		if !drops {
			r.OK("R08.4", b.Name+":map-identity", "Walk does not release the shard lock inside its range over the shard's map")
			continue
		}
		bucket := "hashedBucket"
		if b.Entry == "TraitEntryOf" {
			bucket = "hashedBucketOf"
		}
		bad := false
		construction := c.onlyCalledFrom(func(name string) bool { return constructors[name] || strings.HasPrefix(name, "New") })
		c.eachFuncDecl(func(fd *ast.FuncDecl, fn *types.Func) {
			name := strings.TrimPrefix(pw.FuncName(fn), "cache.")
			if construction(fn) {
				return // the instance is not shared yet
			}
			ast.Inspect(fd.Body, func(x ast.Node) bool {
				as, ok := x.(*ast.AssignStmt)
				if !ok {
					return true
				}
				for _, l := range as.Lhs {
					sel, ok := ast.Unparen(l).(*ast.SelectorExpr)
					if !ok {
						continue
					}
					sl := info.Selections[sel]
					if sl == nil || sl.Kind() != types.FieldVal || selFieldName(sl) != "data" || namedTypeName(sl.Recv()) != bucket {
						continue
					}
					bad = true
					r.Bad("R08.4", name, "shard-map-replaced-under-walk", c.Pos(as.Pos()), "a shard's map is replaced outside construction while Walk releases the shard lock inside its range over that map: a paused Walk continues over the detached old map (reports entries a completed DeleteAll removed, misses later writes)", nil)
				}
				return true
			})
		})
		if !bad {
			r.OK("R08.4", b.Name+":map-identity", "the shard maps are installed at construction only; Walk's lock-dropping range stays on the live map")
		}
	}
}

// c08DeferredUnlockInLoop: `defer b.Unlock()` inside a loop releases at function exit, not at the end of the iteration: the locks
// of all visited shards pile up, and the second entry that falls into an already visited shard locks a mutex this goroutine still
// holds (self-deadlock). The path walk takes a loop body once, so it does not see the second visit; the shape is decided on the AST.
func (c *Ctx) c08DeferredUnlockInLoop() {
	r := c.R
	info := c.Pkg.TypesInfo
	n, bad := 0, false
	c.eachFuncDecl(func(fd *ast.FuncDecl, fn *types.Func) {
		name := strings.TrimPrefix(pw.FuncName(fn), "cache.")
		isBackend := false
		for _, b := range backends {
			if sameRecvNamed(fn, b.Name) || sameRecvNamed(fn, b.Wrapper) {
				isBackend = true
			}
		}
		if !isBackend && !sameRecvNamed(fn, "hashedBucket") && !sameRecvNamed(fn, "hashedBucketOf") && !sameRecvNamed(fn, "shardedMapLegacyWalkerOf") {
			return
		}
		var visit func(node ast.Node, inLoop bool)
		visit = func(node ast.Node, inLoop bool) {
			ast.Inspect(node, func(x ast.Node) bool {
				switch s := x.(type) {
				case *ast.FuncLit:
					visit(s.Body, false) // a literal has its own defer scope
					return false
				case *ast.ForStmt:
					if s.Body != nil && x != node {
						visit(s.Body, true)
						return false
					}
				case *ast.RangeStmt:
					if s.Body != nil && x != node {
						visit(s.Body, true)
						return false
					}
				case *ast.DeferStmt:
					n++
					if !inLoop {
						return true
					}
					if callee, _ := typeutil.Callee(info, s.Call).(*types.Func); callee != nil {
						if op, isLock := lockOpName(pw.FuncName(callee)); isLock && (op == "Unlock" || op == "RUnlock") {
							bad = true
							r.Bad("R08.5", name, "deferred-unlock-in-loop", c.Pos(s.Pos()), "a shard lock taken inside a loop is released by defer, i.e. when the function returns: the next iteration that reaches the same shard locks a mutex this goroutine still holds", nil)
						}
					}
				}
				return true
			})
		}
		visit(fd.Body, false)
	})
	if !bad {
		r.OK("R08.5", "backends:defer-scope", fmt.Sprintf("no deferred unlock inside a loop (%d defer statements in backend methods)", n))
	}
}

func lockOpName(fn string) (string, bool) {
	for _, op := range []string{"RUnlock", "Unlock", "RLock", "Lock"} {
		if strings.HasSuffix(fn, "sync.RWMutex."+op) || strings.HasSuffix(fn, "sync.Mutex."+op) || strings.HasSuffix(fn, "."+op) && strings.Contains(fn, "sync.") {
			return op, true
		}
	}
	return "", false
}

// reachesBackendCallback: does fn (through static in-package calls, up to depth levels) invoke one of the Trait's function-valued
// fields Len / DeleteExpired / Evict, which the constructors bind to the backend's own lock-taking methods? Returns a description.
func (c *Ctx) reachesBackendCallback(fn *types.Func, depth int) string {
	if c.cbReach == nil {
		c.cbReach = map[*types.Func]string{}
	}
	fn = fn.Origin()
	if v, ok := c.cbReach[fn]; ok {
		return v
	}
	c.cbReach[fn] = "" // cycle guard
	fd := c.declOf(fn)
	if fd == nil || fd.Body == nil || depth < 0 {
		return ""
	}
	info := c.Pkg.TypesInfo
	res := ""
	ast.Inspect(fd.Body, func(x ast.Node) bool {
		call, ok := x.(*ast.CallExpr)
		if !ok || res != "" {
			return res == ""
		}
		if sel, ok := ast.Unparen(call.Fun).(*ast.SelectorExpr); ok {
			if sl := info.Selections[sel]; sl != nil && sl.Kind() == types.FieldVal && namedTypeName(sl.Recv()) == "Trait" {
				switch selFieldName(sl) {
				case "Len", "DeleteExpired", "Evict":
					res = "Trait." + selFieldName(sl) + " (called in " + strings.TrimPrefix(pw.FuncName(fn), "cache.") + ")"
					return false
				}
			}
		}
		if callee, _ := typeutil.Callee(info, call).(*types.Func); callee != nil && callee.Pkg() == c.Pkg.Types {
			if via := c.reachesBackendCallback(callee, depth-1); via != "" {
				res = via
				return false
			}
		}
		return true
	})
	c.cbReach[fn] = res
	return res
}

func hasViolationRule(obls []*coreObl, rule string) bool {
	for _, o := range obls {
		if o.Rule == rule && o.Status != "discharged" {
			return true
		}
	}
	return false
}

func (c *Ctx) c08Backend(b BK) {
	r := c.R
	entries := c.backendEntryMethods(b)
	if len(entries) < 8 {
		r.Unknown("R08.1", b.Name, fmt.Sprintf("only %d entry methods found", len(entries)))
		return
	}
	for _, m := range entries {
		run := c.bk(b, m, false)
		if run.err != nil {
			r.Unknown("R08.1", m, run.err.Error())
			continue
		}
		nAcc, nIter := 0, 0
		viol := map[string]bool{}
		report := func(rule, kind, pos, msg string, p *pw.Path) {
			viol[rule] = true
			r.Bad(rule, m, kind, pos, msg, append(shortTrace(p), p.Summary(c.Pkg.Fset)...))
		}
		for _, p := range run.paths {
			ls := shardLocksets(p.Events)
			var lastLookup = map[string]int{}
			for i, ev := range p.Events {
				if ev.Kind == pw.EvLock {
					bp := lockBucket(ev.Path)
					if (ev.Op == "Lock" || ev.Op == "RLock") && (ls[i][bp] > 0 || ev.Op == "Lock" && ls[i]["R:"+bp] > 0) {
						report("R08.5", "relock", c.Pos(ev.Pos), "shard lock acquired while already held by this goroutine (self-deadlock)", p)
					}
					if ev.Op == "Unlock" && ls[i][bp] == 0 || ev.Op == "RUnlock" && ls[i]["R:"+bp] == 0 {
						report("R08.5", "unlock-unheld", c.Pos(ev.Pos), "shard lock released without being held in that mode", p)
					}
					if ev.Op == "Unlock" || ev.Op == "RUnlock" {
						delete(lastLookup, bp)
					}
				}
				// a call made with a shard lock held must not come back into the backend: the Trait's Len/DeleteExpired/Evict
				// callbacks are this backend's own methods and take shard locks (sync.RWMutex is not reentrant)
				if ev.Kind == pw.EvCall && ev.Callee != nil && ev.Callee.Pkg() == c.Pkg.Types && len(ls[i]) > 0 && ls[i].any() {
					if via := c.reachesBackendCallback(ev.Callee, 4); via != "" {
						report("R08.5", "callback-under-shard-lock", c.Pos(ev.Pos), "with a shard lock held "+ev.Name()+" is called, which reaches "+via+": the backend's own Len/DeleteExpired/Evict take shard locks (self-deadlock)", p)
					}
				}
				if b.Sharded && isShardData(ev) {
					nAcc++
					bp := bucketOf(ev)
					switch ev.Kind {
					case pw.EvMapInsert, pw.EvMapDelete:
						if !ls[i].Has(bp, false) {
							report("R08.1", "write-unlocked", c.Pos(ev.Pos), fmt.Sprintf("%s on a shard map without the shard's exclusive lock (held: %s)", ev.Kind, ls[i]), p)
						}
					default:
						if ev.Kind == pw.EvMapIter {
							nIter++
						}
						if !ls[i].Has(bp, true) {
							rule := "R08.1"
							if ev.Kind == pw.EvMapIter && strings.HasSuffix(m, ".Walk") {
								rule = "R08.4"
							}
							report(rule, "read-unlocked", c.Pos(ev.Pos), fmt.Sprintf("%s on a shard map without the shard's lock (held: %s)", ev.Kind, ls[i]), p)
						}
					}
					if ev.Kind == pw.EvMapLookup {
						lastLookup[bp] = i
					}
				}
			}
			// lock balance at exit
			if n := len(p.Events); n > 0 {
				final := ls[n-1].clone()
				if last := p.Events[n-1]; last.Kind == pw.EvLock {
					bp := lockBucket(last.Path)
					switch last.Op {
					case "Unlock":
						final[bp]--
					case "RUnlock":
						final["R:"+bp]--
					case "Lock":
						final[bp]++
					case "RLock":
						final["R:"+bp]++
					}
				}
				for k, v := range final {
					if v > 0 {
						report("R08.5", "lock-leak", c.Pos(p.RetPos), "path exits with shard lock "+k+" still held", p)
					}
				}
			}
			// R08.2 check-and-act
			if b.Sharded {
				for _, e2 := range splitCheckActs(p) {
					report("R08.2", "split-check-act", c.Pos(e2.Pos), "map effect depends on a lookup made in an earlier critical section (the lock was released in between)", p)
				}
			} else {
				c.c08SyncMapRMW(m, p, report)
			}
			// R08.3 single lookup per Read
			if strings.HasSuffix(m, ".Read") {
				n := 0
				for _, ev := range p.Events {
					if b.Sharded && isShardData(ev) && ev.Kind == pw.EvMapLookup || !b.Sharded && syncMapOp(ev) == "Load" {
						n++
					}
				}
				if n > 1 {
					report("R08.3", "double-lookup", c.Pos(p.RetPos), fmt.Sprintf("Read performs %d lookups: the classified entry may not be the one checked", n), p)
				}
			}
			if strings.HasSuffix(m, ".Write") {
				n := 0
				for _, ev := range p.Events {
					if b.Sharded && isShardData(ev) && ev.Kind == pw.EvMapInsert || !b.Sharded && isSyncStore(p, ev) {
						n++
					}
				}
				if n != 1 {
					report("R08.3", "write-effect", c.Pos(p.RetPos), fmt.Sprintf("Write performs %d stores before returning, expected one on every path", n), p)
				}
			}
			if strings.HasSuffix(m, ".Delete") && len(p.Ret) == 1 {
				if isNil, known := p.NilFact(p.Ret[0]); known && isNil {
					n := 0
					for _, ev := range p.Events {
						if b.Sharded && isShardData(ev) && ev.Kind == pw.EvMapDelete || !b.Sharded && (syncMapOp(ev) == "LoadAndDelete" || syncMapOp(ev) == "Delete") {
							n++
						}
					}
					if n != 1 {
						report("R08.3", "delete-effect", c.Pos(p.RetPos), "successful Delete returns without having removed the entry", p)
					}
				}
			}
		}
		r.Count("shard_accesses:"+m, nAcc)
		for _, rule := range []string{"R08.1", "R08.5"} {
			if !viol[rule] {
				r.OK(rule, m, fmt.Sprintf("%d paths, %d storage accesses", len(run.paths), nAcc))
			}
		}
		if strings.HasSuffix(m, ".Read") || strings.HasSuffix(m, ".Write") || strings.HasSuffix(m, ".Delete") {
			if !viol["R08.3"] {
				r.OK("R08.3", m, "effect/lookup count per path as required")
			}
		}
		if strings.HasSuffix(m, ".Read") || strings.HasSuffix(m, ".Delete") || strings.HasSuffix(m, ".Restore") || strings.HasSuffix(m, ".ExpireAll") {
			if !viol["R08.2"] {
				r.OK("R08.2", m, "no effect depends on a check made in an earlier critical section")
			}
		}
		if strings.HasSuffix(m, ".Walk") && b.Sharded {
			if nIter == 0 {
				r.Unknown("R08.4", m, "no iterator step found")
			} else if !viol["R08.4"] {
				r.OK("R08.4", m, fmt.Sprintf("%d iterator steps, all under the shard lock", nIter))
			}
		}
	}
}

// c08SyncMapRMW flags read-modify-write sequences on a sync.Map: a Store whose value derives from an earlier Load /
// Range value of the same key is not atomic (a concurrent Write or Delete in between is overwritten).
func (c *Ctx) c08SyncMapRMW(m string, p *pw.Path, report func(rule, kind, pos, msg string, p *pw.Path)) {
	derives := func(v, from *pw.Val) bool {
		seen := 0
		var rec func(x *pw.Val) bool
		rec = func(x *pw.Val) bool {
			seen++
			if x == nil || seen > 50 {
				return false
			}
			if x == from {
				return true
			}
			if x.Kind == pw.KAlloc {
				for _, f := range x.Fields {
					if rec(f) {
						return true
					}
				}
			}
			return rec(x.Src)
		}
		return rec(v)
	}
	// a Delete of the sync.Map backend that reports success has removed the entry itself: the evidence is the result of one atomic
	// LoadAndDelete / CompareAndDelete. A Load followed by Delete lets several concurrent Deletes of one key all report success —
	// no order of the key's operations explains that.
	if strings.HasSuffix(m, ".Delete") && len(p.Ret) == 1 {
		if isNil, known := p.NilFact(p.Ret[0]); known && isNil {
			atomicEvidence, plainDelete := false, (*pw.Event)(nil)
			for _, ev := range p.Events {
				switch syncMapOp(ev) {
				case "LoadAndDelete", "CompareAndDelete":
					if len(ev.Results) > 0 {
						if t, k := p.Truth(ev.Results[len(ev.Results)-1]); k && t {
							atomicEvidence = true
						}
					}
				case "Delete":
					plainDelete = ev
				}
			}
			if !atomicEvidence && plainDelete != nil {
				report("R08.2", "syncmap-check-then-delete", c.Pos(plainDelete.Pos), "Delete reports success on the evidence of an earlier Load and removes with a separate sync.Map.Delete: concurrent Deletes of the same key can all succeed", p)
			}
		}
	}
	for i, ev := range p.Events {
		op := syncMapOp(ev)
		if op != "Store" && op != "Swap" && op != "LoadOrStore" {
			continue
		}
		val := pointee(ev.Args[1])
		for _, e0 := range p.Events[:i] {
			var loaded *pw.Val
			if syncMapOp(e0) == "Load" && len(e0.Results) > 0 {
				loaded = e0.Results[0]
			}
			if e0.Kind == pw.EvEnter && e0.FnLit != nil && len(e0.Args) == 2 && ev.Frame != nil && ev.Frame.Lit == e0.FnLit {
				loaded = e0.Args[1] // Range callback's value parameter
			}
			if loaded != nil && derives(val, loaded) {
				report("R08.2", "syncmap-load-then-store", c.Pos(ev.Pos), "sync.Map value re-stored from an earlier load of the same map: a concurrent Write/Delete between load and store is lost", p)
			}
		}
	}
}

// splitCheckActs returns the map effects (insert/delete) of a path that are keyed like an earlier lookup of the same
// shard whose critical section was closed before the effect.
func splitCheckActs(p *pw.Path) []*pw.Event {
	var out []*pw.Event
	look := -1
	var lookEv *pw.Event
	for i, ev := range p.Events {
		if ev.Kind == pw.EvLoopBegin || ev.Kind == pw.EvLoopEnd {
			look = -1
		}
		if isShardData(ev) && ev.Kind == pw.EvMapLookup {
			look, lookEv = i, ev
		}
		if ev.Kind == pw.EvLock && look >= 0 && (ev.Op == "Unlock" || ev.Op == "RUnlock") && lockBucket(ev.Path) == bucketOf(lookEv) {
			for j := i + 1; j < len(p.Events); j++ {
				e2 := p.Events[j]
				if e2.Kind == pw.EvLoopBegin || e2.Kind == pw.EvLoopEnd {
					break
				}
				if isShardData(e2) && (e2.Kind == pw.EvMapDelete || e2.Kind == pw.EvMapInsert) && e2.Key == lookEv.Key {
					out = append(out, e2)
				}
			}
			look = -1
		}
	}
	return out
}
