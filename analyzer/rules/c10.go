package rules

import (
	"fmt"
	"go/ast"
	"go/token"
	"go/types"
	"golang.org/x/tools/go/types/typeutil"
	"math/big"
	"sort"
	"strings"

	"cachelint/poly"
	"cachelint/pw"
)

func init() { register("C10", checkC10) }

func checkC10(c *Ctx) {
	r := c.R
	r.Explanation = "Numerical results on a real clock are not decidable statically; what is decided is that the code computes the documented " +
		"formulas, compared up to algebraic identity (polynomial normal form with rational coefficients) and over all orderings for the " +
		"comparison-only decisions: (R10.1) effective TTL = context TTL if non-zero, else Config.TimeToLive, UnlimitedTTL ⇒ 0; (R10.2) with " +
		"ExpirationJitter>0 the TTL is T + J·T·(r−½) for a single rand.Float64() r∈[0,1), hence within [T(1−J/2), T(1+J/2)), and exactly T " +
		"otherwise; NewTrait defaults J to 0.1 only when 0; (R10.3) expireAt returns now+ttl (ns) when ttl≠0, else 0, every Write stores " +
		"exactly that as E, and computing it does not modify the caller's TTL cell; (R10.4) reads report expired ⇔ E≠0 ∧ E<now; (R10.5) " +
		"ExpiredAt() of the expiry error and ExpireAt() of walked entries are tsTime(entry.E) of the same entry, tsTime inverts ts, and the " +
		"legacy walker copies E unchanged. Not decided: float rounding and Duration(float64) truncation (sub-nanosecond), the real clock, " +
		"math/rand's range."
	r.Rule("R10.1", "effective TTL selection (Trait.TTL), the context TTL being the cell of the innermost WithTTL as read by TTL(ctx)", 3)
	r.Rule("R10.2", "jitter polynomial T + J·T·(r − 1/2) with one rand.Float64(); T exactly when jitter is disabled; defaults J=0.1 and TimeToLive=5m applied exactly when 0", 3)
	r.Rule("R10.3", "expiry instant: E = now + ttl when ttl ≠ 0, else 0; stored by every Write; no write-back into the context", 4)
	r.Rule("R10.4", "reads agree: expired ⇔ E≠0 ∧ E<now (all orderings of E, now, 0)", 3)
	r.Rule("R10.5", "one instant, two views: accessors are tsTime(entry.E); tsTime∘ts = id; legacy walker copies E", 6)
	r.NotDecided = []string{"float rounding / Duration truncation", "the real clock", "math/rand's range"}
	c.withAlias(map[string]string{"R06.6": "R10.1"}, func() { c.traitTTLRule("R06.6") })
	// "the context TTL" is what the innermost WithTTL installed (also when that is DefaultTTL = 0: it resets an outer TTL)
	c.borrow("C06", func() { c.c06WithTTL(); c.c06Accessors() }, func(o *coreObl) (string, bool) {
		return "R10.1", o.Rule == "R06.3" || o.Rule == "R06.7" && o.Construct == "TTL"
	})
	c.c10Jitter()
	c.c10ExpireAt()
	c.withAlias(map[string]string{"R07.2": "R10.4"}, func() {
		for _, b := range backends {
			c.c07Read(b)
		}
	})
	c.c10Views()
	// the error an expired read returns is an ErrExpired (errors.Is) that carries ExpiredAt: type-level obligations of C03 R03.3
	c.borrow("C03", func() { c.c03ExpiryErrorTypes() }, func(o *coreObl) (string, bool) { return "R10.5", o.Rule == "R03.3" })
	// "reads before that instant return the value", "never expires": nothing but Delete/DeleteAll/eviction takes an entry away before
	// its expiry — the janitor removes an entry only when E ≠ 0 ∧ E < now − DeleteExpiredAfter (C11 R11.1/R11.2)
	c.borrow("C11", func() {
		c.c11Boundary()
		for _, b := range backends {
			c.c11DeleteExpired(b)
		}
	}, func(o *coreObl) (string, bool) { return "R10.4", o.Rule == "R11.1" || o.Rule == "R11.2" })
	// a restored entry keeps its own E: gob does not transmit zero fields, so a decode target re-used across records hands the
	// previous record's expiry to a never-expiring one (C13 R13.1)
	c.borrowKinds("C13", func() { checkC13(c) }, "R10.3", "Restore:own-storage-per-record", []string{"R13.1"}, "decode-target-reused", "stored-not-target")
	// the TTL of the caller's context is what the final store uses: Failover's stale refresh never writes into that cell (C06 R06.2)
	c.borrowKinds("C06", func() {
		for _, sib := range siblings {
			if fo := c.failover(sib); fo.Err == nil {
				c.c06Sibling(fo)
			}
		}
	}, "R10.1", "Failover.Get:caller-ttl-cell", []string{"R06.2"}, "refresh-ctx")
}

func (c *Ctx) c10Jitter() {
	r := c.R
	e, paths, _, err := c.runFunc("Trait.TTL", pw.Policy{})
	if err != nil {
		r.Unknown("R10.2", "Trait.TTL", err.Error())
		return
	}
	zeroVal := e.IntConst(0)
	nJ, nPlain := 0, 0
	for _, p := range paths {
		ret := p.Ret[0]
		var J *pw.Val
		var rands []*pw.Event
		for _, ev := range p.Events {
			if ev.Kind == pw.EvFieldRead && ev.Field != nil && fname(ev.Field) == "ExpirationJitter" {
				J = ev.Value
			}
			if ev.Kind == pw.EvCall && ev.Role == "Std:rand.Float64" {
				rands = append(rands, ev)
			}
		}
		// base TTL: strip the jitter addition
		base := ret
		for base.Kind == pw.KArith && base.Op == token.ADD {
			base = base.Src
		}
		if ret.Kind == pw.KConst {
			continue // UnlimitedTTL ⇒ 0: R10.1
		}
		jitterOn := triUnknown
		if J != nil {
			rel := p.Rel(J, zeroVal)
			if rel&^pw.RGt == 0 {
				jitterOn = triTrue
			} else if rel&pw.RGt == 0 {
				jitterOn = triFalse
			}
		}
		switch jitterOn {
		case triFalse:
			nPlain++
			if ret != base || len(rands) != 0 {
				r.Bad("R10.2", "Trait.TTL", "jitter-when-disabled", c.Pos(p.RetPos), "with ExpirationJitter <= 0 the TTL must be exactly the selected TTL", shortTrace(p))
			}
		case triTrue:
			nJ++
			if len(rands) != 1 {
				r.Bad("R10.2", "Trait.TTL", "rand-count", c.Pos(p.RetPos), fmt.Sprintf("%d calls of rand.Float64 on the jitter path, expected one", len(rands)), shortTrace(p))
				continue
			}
			rv := rands[0].Results[0]
			namer := func(v *pw.Val) string {
				switch v {
				case base:
					return "T"
				case J:
					return "J"
				case rv:
					return "r"
				}
				return ""
			}
			got := poly.Of(ret, namer)
			T, Jp, R := poly.Atom("T"), poly.Atom("J"), poly.Atom("r")
			want := T.Add(Jp.Mul(T).Mul(R.Sub(poly.Rat(1, 2))))
			if !got.Equal(want) {
				r.Bad("R10.2", "Trait.TTL", "jitter-formula", c.Pos(p.RetPos), fmt.Sprintf("jittered TTL is %s, documented is %s (= T + J·T·(r − 1/2))", got, want), shortTrace(p))
			}
		default:
			r.Bad("R10.2", "Trait.TTL", "jitter-untested", c.Pos(p.RetPos), "path does not establish whether jitter is enabled (ExpirationJitter > 0)", shortTrace(p))
		}
	}
	if nJ == 0 || nPlain == 0 {
		r.Unknown("R10.2", "Trait.TTL", fmt.Sprintf("vacuous: %d jitter paths, %d plain paths", nJ, nPlain))
	} else if !hasViolation(r.Obls, "R10.2", "Trait.TTL") {
		r.OK("R10.2", "Trait.TTL", fmt.Sprintf("%d jitter paths match T + J·T·(r − 1/2), %d plain paths return T", nJ, nPlain))
	}
	c.defaultsRule("R10.2", map[string]*big.Rat{"ExpirationJitter": big.NewRat(1, 10), "TimeToLive": big.NewRat(5*60*1000000000, 1)})
	c.configWriters("R10.2", "TimeToLive", "ExpirationJitter")
}

// traitCtorsInit: when the defaulting code lives in Trait.init, both exported constructors run it — on the instance they return,
// with the configuration and the option callbacks they were given (a constructor that skips it returns a Trait with a zero
// Config: no defaults, no callbacks, no janitor).
func (c *Ctx) traitCtorsInit(rule string) {
	r := c.R
	if fd, _ := c.funcDecl("Trait.init"); fd == nil {
		return
	}
	info := c.Pkg.TypesInfo
	for _, name := range []string{"NewTrait", "NewTraitOf"} {
		fd, fn := c.funcDecl(name)
		if fd == nil || fn == nil {
			r.Unknown(rule, name+":init", "does not resolve")
			continue
		}
		sig := fn.Type().(*types.Signature)
		ok := false
		ast.Inspect(fd.Body, func(x ast.Node) bool {
			call, isCall := x.(*ast.CallExpr)
			if !isCall {
				return true
			}
			callee, _ := typeutil.Callee(info, call).(*types.Func)
			if callee == nil || strings.TrimPrefix(pw.FuncName(callee), "cache.") != "Trait.init" || len(call.Args) != 2 || !call.Ellipsis.IsValid() {
				return true
			}
			a0, _ := ast.Unparen(call.Args[0]).(*ast.Ident)
			a1, _ := ast.Unparen(call.Args[1]).(*ast.Ident)
			if a0 != nil && a1 != nil && sig.Params().Len() == 2 && info.ObjectOf(a0) == sig.Params().At(0) && info.ObjectOf(a1) == sig.Params().At(1) {
				ok = true
			}
			return true
		})
		if ok {
			r.OK(rule, name+":init", "runs Trait.init with the given configuration and options")
		} else {
			r.Bad(rule, name, "constructor-skips-init", c.Pos(fd.Pos()), "the constructor does not run Trait.init with the configuration and options it was given: the returned Trait has no defaults, no callbacks and no janitor", nil)
		}
	}
}

// defaultsRule: in Trait.init (NewTrait) each listed config field is replaced by its documented default exactly when 0.
func (c *Ctx) defaultsRule(rule string, want map[string]*big.Rat) {
	name := "Trait.init"
	if _, fn := c.funcDecl(name); fn == nil {
		name = "NewTrait"
	}
	c.ctorDefaults(rule, name, "Config", want)
	c.traitCtorsInit(rule)
}

// ctorDefaults: in constructor name, each field of want gets its documented default exactly when it is zero, is otherwise left as
// configured, and the completed configuration is what the instance keeps in instField.
func (c *Ctx) ctorDefaults(rule, name, instField string, want map[string]*big.Rat) {
	r := c.R
	e, paths, _, err := c.runFunc(name, pw.Policy{Inline: inlineUnexported, MaxDepth: 2})
	if err != nil {
		r.Unknown(rule, name, err.Error())
		return
	}
	zeroVal := e.IntConst(0)
	for field, def := range want {
		nSet, nKeep := 0, 0
		bad := false
		for _, p := range paths {
			var orig *pw.Val
			var write *pw.Event
			for _, ev := range p.Events {
				if ev.Field == nil || fname(ev.Field) != field {
					continue
				}
				// only the local config copy (parameter), not the stored Config
				if ev.Kind == pw.EvFieldRead && orig == nil {
					orig = ev.Value
				}
				if ev.Kind == pw.EvFieldWrite && write == nil && orig != nil && ev.Value != orig {
					write = ev // (writing the value that was read back into the field is not a change)
				}
			}
			if orig == nil {
				continue
			}
			rel := p.Rel(orig, zeroVal)
			switch {
			case rel == pw.REq:
				nSet++
				if write == nil {
					r.Bad(rule, name, "default-missing:"+field, c.Pos(p.RetPos), field+" is zero but the documented default is not applied", shortTrace(p))
					bad = true
				} else if got, ok := poly.Of(write.Value, nil).IsConst(); !ok || !sameFloat(got, def) {
					r.Bad(rule, name, "default-value:"+field, c.Pos(write.Pos), fmt.Sprintf("default of %s is %v, documented %s", field, got, def.RatString()), shortTrace(p))
					bad = true
				}
			case rel&pw.REq == 0:
				nKeep++
				if write != nil {
					r.Bad(rule, name, "default-overrides:"+field, c.Pos(write.Pos), field+" is overwritten although it is not zero", shortTrace(p))
					bad = true
				}
			}
		}
		if nSet == 0 && !bad {
			// no path tests the field for zero after the options ran and replaces it: an option may assign the whole struct
			// (FailoverConfig.Use does), so defaults filled in before the options do not survive
			r.Bad(rule, name, "default-missing:"+field, c.declPos(name), "no path on which "+field+" is found zero after the options ran and replaced by the documented default", nil)
		} else if nSet == 0 || nKeep == 0 {
			r.Unknown(rule, name+":"+field, fmt.Sprintf("vacuous: %d defaulting paths, %d keeping paths", nSet, nKeep))
		} else if !bad {
			r.OK(rule, name+":"+field, fmt.Sprintf("default %s applied exactly when zero (%d/%d paths)", def.RatString(), nSet, nKeep))
		}
	}
	var fields []string
	for f := range want {
		fields = append(fields, f)
	}
	sort.Strings(fields)
	c.storedAfterDefaults(rule, name, instField, fields)
}

// storedAfterDefaults: a constructor that completes a local configuration struct (defaults for zero fields) must store it in the
// instance after completing it — a struct assignment (or literal field) copies the value, writes to the local made afterwards never
// reach the instance. fields: the defaulted fields the instance's code reads; instField: the instance field holding the copy.
func (c *Ctx) storedAfterDefaults(rule, ctor, instField string, fields []string) {
	r := c.R
	_, paths, _, err := c.runFunc(ctor, pw.Policy{Inline: inlineUnexported, MaxDepth: 2})
	if err != nil {
		r.Unknown(rule, ctor, err.Error())
		return
	}
	isField := map[string]bool{}
	for _, f := range fields {
		isField[f] = true
	}
	nCopy, bad := 0, false
	reported := map[string]bool{}
	for _, p := range paths {
		var src *pw.Val
		for _, ev := range p.Events {
			switch {
			case src == nil && ev.Kind == pw.EvFieldWrite && ev.Field != nil && fname(ev.Field) == instField && ev.Value != nil:
				src = ev.Value
				nCopy++
			case src == nil && ev.Kind == pw.EvStructCopy && ev.Note == "literal:"+instField:
				src = ev.Recv
				nCopy++
			case src != nil && ev.Kind == pw.EvFieldWrite && ev.Field != nil && isField[fname(ev.Field)] && ev.Recv == src:
				if !reported[fname(ev.Field)] {
					reported[fname(ev.Field)] = true
					bad = true
					r.Bad(rule, ctor, "default-after-store:"+fname(ev.Field), c.Pos(ev.Pos), fname(ev.Field)+" of the local configuration is completed after the configuration was copied into the instance: the instance keeps the uncompleted value", shortTrace(p))
				}
			}
		}
	}
	if nCopy == 0 {
		r.Unknown(rule, ctor+":"+instField, "no store of the configuration into the instance found")
	} else if !bad {
		r.OK(rule, ctor+":"+instField, fmt.Sprintf("stored on %d paths after all of %v were completed", nCopy, fields))
	}
}

// configWriters: who-may-write rule for fields of the backend Config: after the user's options ran, a field is only ever assigned by
// the constructor's defaulting code (Trait.init / NewTrait). Any other assignment (a frontend "normalising" the BackendConfig it
// hands on, a method adjusting its own Config at run time) changes what the user configured.
func (c *Ctx) configWriters(rule string, fields ...string) {
	r := c.R
	want := map[string]bool{}
	for _, f := range fields {
		want[f] = true
	}
	info := c.Pkg.TypesInfo
	n, bad := 0, false
	// unexported helpers the defaulting code calls are part of it
	helpers := map[*types.Func]bool{}
	c.eachFuncDecl(func(fd *ast.FuncDecl, fn *types.Func) {
		if encl := strings.TrimPrefix(pw.FuncName(fn), "cache."); encl != "Trait.init" && encl != "NewTrait" {
			return
		}
		ast.Inspect(fd.Body, func(nd ast.Node) bool {
			if call, ok := nd.(*ast.CallExpr); ok {
				if callee, _ := typeutil.Callee(info, call).(*types.Func); callee != nil && !callee.Exported() && callee.Pkg() == c.Pkg.Types {
					helpers[callee.Origin()] = true
				}
			}
			return true
		})
	})
	c.eachFuncDecl(func(fd *ast.FuncDecl, fn *types.Func) {
		encl := strings.TrimPrefix(pw.FuncName(fn), "cache.")
		if helpers[fn.Origin()] {
			encl = "Trait.init"
		}
		ast.Inspect(fd.Body, func(nd ast.Node) bool {
			var lhs []ast.Expr
			switch st := nd.(type) {
			case *ast.AssignStmt:
				lhs = st.Lhs
			case *ast.IncDecStmt:
				lhs = []ast.Expr{st.X}
			}
			for _, l := range lhs {
				sel, ok := ast.Unparen(l).(*ast.SelectorExpr)
				if !ok {
					continue
				}
				s := info.Selections[sel]
				if s == nil || s.Kind() != types.FieldVal || !want[s.Obj().Name()] {
					continue
				}
				// the field belongs to Config
				owner := ""
				t := s.Recv()
				for _, idx := range s.Index() {
					for {
						if p, ok := t.Underlying().(*types.Pointer); ok {
							t = p.Elem()
							continue
						}
						break
					}
					owner = namedTypeName(t)
					if st, ok := t.Underlying().(*types.Struct); ok {
						t = st.Field(idx).Type()
					}
				}
				if owner != "Config" {
					continue
				}
				n++
				if encl != "Trait.init" && encl != "NewTrait" {
					bad = true
					r.Bad(rule, encl, "config-rewritten:"+s.Obj().Name(), c.Pos(sel.Pos()), "Config."+s.Obj().Name()+" is assigned outside the constructor's defaulting code: the value the user configured is replaced", nil)
				}
			}
			return true
		})
	})
	r.Count("config_field_assignments", n)
	if !bad {
		r.OK(rule, "package:config-writers", fmt.Sprintf("%d assignments to %v, all in the constructor's defaulting code", n, fields))
	}
}

// configOverwrites: the constructor may complete the configuration it was given, never change it: on every path of Trait.init a
// Config field is assigned only where its previous value was found zero (nil for functions). A "sanity" rewrite of a non-zero
// value, or a field reset because of what other fields hold, replaces what the user configured.
func (c *Ctx) configOverwrites(rule string) {
	name := "Trait.init"
	if fd, _ := c.funcDecl(name); fd == nil {
		name = "NewTrait"
	}
	c.configOverwritesIn(rule, name, "Config", nil)
}

// configOverwritesIn: the same for any constructor: fields of the configuration struct `owner` are assigned only where found zero.
// except lists fields of nested configuration the constructor legitimately fills from its own (BackendConfig.Name/Logger/Stats).
func (c *Ctx) configOverwritesIn(rule, name, owner string, except map[string]bool) {
	r := c.R
	e, paths, _, err := c.runFunc(name, pw.Policy{Inline: inlineUnexported, MaxDepth: 2})
	if err != nil {
		r.Unknown(rule, name+":config-overwrites", err.Error())
		return
	}
	zero := e.IntConst(0)
	n, bad := 0, map[string]bool{}
	for _, p := range paths {
		orig := map[string]*pw.Val{}
		for _, ev := range p.Events {
			if ev.Field == nil || fieldOwnerName(ev.Field) != owner {
				continue
			}
			f := fname(ev.Field)
			if except[f] {
				continue
			}
			switch ev.Kind {
			case pw.EvFieldRead:
				if orig[f] == nil {
					orig[f] = ev.Value
				}
			case pw.EvFieldWrite:
				n++
				o := orig[f]
				if o != nil && ev.Value == o {
					continue // writing back what was read
				}
				ok := false
				if o != nil {
					if isNil, known := p.NilFact(o); known && isNil {
						ok = true
					}
					if p.Rel(o, zero) == pw.REq {
						ok = true
					}
					if o.Kind == pw.KZero {
						ok = true
					}
				}
				if !ok && !bad[f] {
					bad[f] = true
					r.Bad(rule, name, "config-overwritten:"+f, c.Pos(ev.Pos), owner+"."+f+" is assigned on a path that does not establish that it was zero: a value the user configured is replaced", shortTrace(p))
				}
			}
		}
	}
	if len(bad) == 0 {
		r.OK(rule, name+":config-overwrites", fmt.Sprintf("%d assignments to %s fields, each only where the field was found zero", n, owner))
	}
}

// sameFloat compares two rationals as float64 values (typed float constants are rounded by the type checker).
func sameFloat(a, b *big.Rat) bool {
	fa, _ := a.Float64()
	fb, _ := b.Float64()
	return fa == fb
}

func (c *Ctx) c10ExpireAt() {
	r := c.R
	e, paths, _, err := c.runFunc("Trait.expireAt", pw.Policy{Inline: func(fn *types.Func, d int) bool {
		return !fn.Exported() && fn.Pkg() != nil && fn.Pkg().Name() == "cache" && fn.Type().(*types.Signature).Recv() == nil
	}})
	if err != nil {
		r.Unknown("R10.3", "Trait.expireAt", err.Error())
		return
	}
	zeroVal := e.IntConst(0)
	nz, z := 0, 0
	for _, p := range paths {
		var ttl *pw.Val
		var now *pw.Val
		for _, ev := range p.Events {
			if ev.Kind == pw.EvCall && ev.Role == "Repo:Trait.TTL" {
				ttl = ev.Results[0]
			}
			if ev.Kind == pw.EvCall && ev.Role == "Std:time.Now" {
				now = ev.Results[0]
			}
			if ev.Kind == pw.EvCall && ev.Role == "Repo:WithTTL" {
				r.Bad("R10.3", "Trait.expireAt", "context-write-back", c.Pos(ev.Pos), "computing the expiry must not touch the caller's TTL cell", shortTrace(p))
			}
		}
		if ttl == nil || len(p.Ret) != 2 {
			r.Bad("R10.3", "Trait.expireAt", "no-ttl", c.Pos(p.RetPos), "expireAt does not take its TTL from Trait.TTL(ctx)", shortTrace(p))
			continue
		}
		rel := p.Rel(ttl, zeroVal)
		namer := func(v *pw.Val) string {
			switch v {
			case ttl:
				return "ttl"
			case now:
				return "now"
			}
			return ""
		}
		switch {
		case rel&pw.REq == 0:
			nz++
			got := poly.Of(p.Ret[1], namer)
			want := poly.Atom("now").Add(poly.Atom("ttl"))
			if now == nil || !got.Equal(want) || p.Ret[0] != ttl {
				r.Bad("R10.3", "Trait.expireAt", "expiry-formula", c.Pos(p.RetPos), fmt.Sprintf("expiry is %s, documented is now + ttl", got), shortTrace(p))
			}
		case rel == pw.REq:
			z++
			g1, ok1 := poly.Of(p.Ret[1], namer).IsConst()
			if !ok1 || g1.Sign() != 0 {
				r.Bad("R10.3", "Trait.expireAt", "zero-ttl-expiry", c.Pos(p.RetPos), "TTL 0 must yield E = 0 (never expires)", shortTrace(p))
			}
		default:
			r.Bad("R10.3", "Trait.expireAt", "ttl-untested", c.Pos(p.RetPos), "path does not distinguish ttl = 0", shortTrace(p))
		}
	}
	if nz == 0 || z == 0 {
		r.Unknown("R10.3", "Trait.expireAt", "vacuous")
	} else if !hasViolation(r.Obls, "R10.3", "Trait.expireAt") {
		r.OK("R10.3", "Trait.expireAt", fmt.Sprintf("%d paths E = now+ttl, %d paths E = 0", nz, z))
	}
	// every Write stores exactly expireAt's second result and never writes back into the context
	for _, b := range backends {
		op := b.Name + ".Write"
		run := c.bk(b, op, false)
		if run.err != nil {
			r.Unknown("R10.3", op, run.err.Error())
			continue
		}
		bad := false
		n := 0
		for _, p := range run.paths {
			var exp *pw.Event
			for _, ev := range p.Events {
				if ev.Kind == pw.EvCall && ev.Role == "Repo:Trait.expireAt" {
					exp = ev
				}
				if ev.Kind == pw.EvCall && ev.Role == "Repo:WithTTL" {
					r.Bad("R10.3", op, "context-write-back", c.Pos(ev.Pos), "Write must not touch the caller's TTL cell", shortTrace(p))
					bad = true
				}
			}
			for _, ev := range p.Events {
				var ent *pw.Val
				if b.Sharded && ev.Kind == pw.EvMapInsert && isShardData(ev) {
					ent = pointee(ev.Value)
				}
				if !b.Sharded && isSyncStore(p, ev) {
					ent = pointee(ev.Args[1])
				}
				if ent == nil {
					continue
				}
				n++
				if exp == nil || len(exp.Results) != 2 || p.FieldOf(ent, "E") != exp.Results[1] {
					r.Bad("R10.3", op, "stored-E", c.Pos(ev.Pos), "the stored E is not the expiry computed by expireAt(ctx)", shortTrace(p))
					bad = true
				}
			}
		}
		if n == 0 {
			r.Unknown("R10.3", op, "no store found")
		} else if !bad {
			r.OK("R10.3", op, fmt.Sprintf("%d stores carry expireAt's result", n))
		}
	}
}

func (c *Ctx) c10Views() {
	r := c.R
	c.c10TsInverse()
	for _, acc := range []string{"TraitEntry.ExpireAt", "TraitEntryOf.ExpireAt", "errExpired.ExpiredAt", "errExpiredOf.ExpiredAt"} {
		_, paths, _, err := c.runFunc(acc, pw.Policy{Inline: noInline})
		if err != nil {
			r.Unknown("R10.5", acc, err.Error())
			continue
		}
		ok := len(paths) > 0
		nJudged := 0
		for _, p := range paths {
			// guard paths for the impossible zero error value (no entry attached) are not judged
			entryNil := false
			for _, ev := range p.Events {
				if ev.Kind == pw.EvFieldRead && ev.Field != nil && fname(ev.Field) == "entry" && nilTri(p, ev.Value) == triTrue {
					entryNil = true
				}
			}
			if entryNil {
				continue
			}
			nJudged++
			v := p.Ret[0]
			if !(v.Kind == pw.KCall && v.Ev.Role == "Repo:tsTime" && len(v.Ev.Args) == 1 && v.Ev.Args[0].Kind == pw.KField && v.Ev.Args[0].Field != nil && fname(v.Ev.Args[0].Field) == "E") {
				ok = false
			}
			if ok && strings.HasPrefix(acc, "errExpired") {
				src := v.Ev.Args[0].Src
				if src == nil || src.Kind != pw.KField || fname(src.Field) != "entry" {
					ok = false
				}
			}
		}
		if ok && nJudged > 0 {
			r.OK("R10.5", acc, "tsTime(entry.E)")
		} else {
			r.Bad("R10.5", acc, "accessor", "-", acc+" must be tsTime(E) of the entry", nil)
		}
	}
	// legacy walker copies E (and K, V) unchanged
	for _, b := range backends {
		if b.Name != "shardedMapOf" {
			continue
		}
		run := c.bk(b, "shardedMapLegacyWalkerOf.Walk", false)
		if run.err != nil {
			r.Unknown("R10.5", "shardedMapLegacyWalkerOf.Walk", run.err.Error())
			continue
		}
		n, bad := 0, false
		for _, p := range run.paths {
			for _, ev := range p.Events {
				if ev.Kind == pw.EvCall && strings.HasPrefix(ev.Role, "DynParam:") && len(ev.Args) == 1 {
					n++
					a := pointee(ev.Args[0])
					// every callback gets an entry of its own: the record is built inside the iteration that hands it out (one record
					// allocated before the loops and overwritten per item makes every Entry a caller kept show the last item's expiry)
					// (decided by creation order on the path: the record is younger than the iterated entry it copies — source positions
					// would misjudge a loop body that lives in a closure handed to an iteration helper)
					if kv := p.FieldOf(a, "K"); a != nil && kv != nil && kv.Src != nil && kv.Src.Kind == pw.KRangeVal && a.ID < kv.Src.ID {
						r.Bad("R10.5", "shardedMapLegacyWalkerOf.Walk", "entry-reused-across-callbacks", c.Pos(ev.Pos), "the record handed to the callback is allocated outside the loop over the entries: all callbacks receive one and the same record", shortTrace(p))
						bad = true
					}
					for _, f := range []string{"K", "V", "E"} {
						fv := p.FieldOf(a, f)
						if (a.Kind != pw.KAlloc && a.Kind != pw.KZero) || fv == nil || fv.Kind != pw.KField || fname(fv.Field) != f || fv.Src == nil || fv.Src.Kind != pw.KRangeVal {
							r.Bad("R10.5", "shardedMapLegacyWalkerOf.Walk", "copy-"+f, c.Pos(ev.Pos), "the legacy walker must hand out "+f+" of the iterated entry unchanged", shortTrace(p))
							bad = true
						}
					}
				}
			}
		}
		if n == 0 {
			r.Unknown("R10.5", "shardedMapLegacyWalkerOf.Walk", "no callback invocation found")
		} else if !bad {
			r.OK("R10.5", "shardedMapLegacyWalkerOf.Walk", "K, V, E copied from the iterated entry")
		}
	}
}

// c10TsInverse: ts is UnixNano and tsTime its inverse.
func (c *Ctx) c10TsInverse() {
	r := c.R
	if _, paths, _, err := c.runFunc("ts", pw.Policy{}); err != nil {
		r.Unknown("R10.5", "ts", err.Error())
	} else {
		ok := true
		for _, p := range paths {
			v := p.Ret[0]
			if !(v.Kind == pw.KCall && v.Ev.Role == "Std:time.Time.UnixNano" && v.Ev.Recv != nil && v.Ev.Recv.Kind == pw.KParam) {
				ok = false
			}
		}
		if ok {
			r.OK("R10.5", "ts", "t.UnixNano()")
		} else {
			r.Bad("R10.5", "ts", "shape", "-", "ts must be t.UnixNano()", nil)
		}
	}
	if _, paths, _, err := c.runFunc("tsTime", pw.Policy{}); err != nil {
		r.Unknown("R10.5", "tsTime", err.Error())
	} else {
		ok := len(paths) > 0
		for _, p := range paths {
			v := p.Ret[0]
			good := v.Kind == pw.KCall && v.Ev.Role == "Std:time.Unix" && len(v.Ev.Args) == 2
			if good {
				a, b := v.Ev.Args[0], v.Ev.Args[1]
				good = a.Kind == pw.KArith && a.Op == token.QUO && b.Kind == pw.KArith && b.Op == token.REM &&
					a.Src == b.Src && a.Src.Kind == pw.KParam
				if good {
					ca, oka := poly.Of(a.Src2, nil).IsConst()
					cb, okb := poly.Of(b.Src2, nil).IsConst()
					good = oka && okb && ca.Cmp(big.NewRat(1000000000, 1)) == 0 && cb.Cmp(ca) == 0
				}
			}
			// time.Unix(0, ns) normalises the nanoseconds itself (same truncated division and borrow): the same instant
			if !good && v.Kind == pw.KCall && v.Ev.Role == "Std:time.Unix" && len(v.Ev.Args) == 2 && v.Ev.Args[1].Kind == pw.KParam {
				if c0, isC := poly.Of(v.Ev.Args[0], nil).IsConst(); isC && c0.Sign() == 0 {
					good = true
				}
			}
			if !good {
				ok = false
			}
		}
		if ok {
			r.OK("R10.5", "tsTime", "time.Unix(ns/1e9, ns%1e9): inverse of UnixNano")
		} else {
			r.Bad("R10.5", "tsTime", "shape", "-", "tsTime must be time.Unix(ns/1e9, ns%1e9), the inverse of ts (also for ns = 0: the value Walk reports must be the one ExpiredAt reports)", nil)
		}
	}
}
